
#[cfg(test)]
mod ring_targets_probe {
    use super::*;
    use crate::replication::hash_ring::HashRing;
    use crate::replication::lattice::ReplicaId;

    // C19 / adaptive replication: a hot key must never get FEWER replicas than the base factor.
    #[test]
    fn probe_hot_key_rf_below_base() {
        let config = AdaptiveConfig {
            base_rf: 3,
            hot_key_rf: 2, // accepted silently by AdaptiveReplicationManager::new
            recalc_interval_ms: 100,
            hotkey_config: HotKeyConfig { window_ms: 1000, hot_threshold: 10.0, cleanup_interval_ms: 500, max_tracked_keys: 100 },
        };
        let mut m = AdaptiveReplicationManager::new(config);
        assert_eq!(m.get_rf_for_key("k"), 3);
        for i in 0..20 { m.observe("k", true, i * 50); }
        m.force_recalculate(1000);
        let rf = m.get_rf_for_key("k");
        let ring = HashRing::new((1..=5).map(ReplicaId::new).collect(), 50, 3);
        let base_owners = ring.get_replicas_with_rf("k", 3);
        let hot_owners = ring.get_replicas_with_rf("k", rf as usize);
        println!("PROBE rf(hot k) = {} (base 3); base owners {:?}; owners under the hot-key rf {:?}", rf, base_owners, hot_owners);
        assert!(rf >= 3, "hot key got rf {} < base rf 3: owner {:?} dropped", rf, base_owners[2]);
    }
}
