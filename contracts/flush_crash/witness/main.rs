//! Executable witness on the REAL crate (path dependency on /repo, nothing modified) - property C12, compaction half:
//! "... when any [object-store operation] fails, the store is left in a state from which recovery succeeds and returns every
//! update of every flush that reported success".
//! `Compactor::compact` treats EVERY error of `store.get(segment)` as "segment missing" (compaction.rs, the `Err(e)` arm of the
//! read loop): a transient read failure (timeout) makes it drop that segment from the manifest - and, when other segments were
//! read, DELETE its object.  The updates of a flush that reported Ok are gone.
//!   witness a  one get times out, the others succeed  -> the segment is unlisted and its object deleted
//!   witness b  every get times out                    -> "manifest cleanup": all selected segments unlisted
//! exit code 1 = a witness reproduced.
use redis_sim::redis::SDS;
use redis_sim::replication::lattice::{LamportClock, ReplicaId};
use redis_sim::replication::state::{ReplicatedValue, ReplicationDelta};
use redis_sim::streaming::compaction::{CompactionConfig, Compactor};
use redis_sim::streaming::{InMemoryObjectStore, ListResult, ManifestManager, ObjectMeta, ObjectStore, RecoveryManager, StreamingPersistence, WriteBufferConfig};
use std::future::Future;
use std::io::{Error as IoError, ErrorKind, Result as IoResult};
use std::pin::Pin;
use std::sync::{Arc, Mutex};
use std::time::Duration;

/// passes everything through, except: a `get` of a key containing one of `fail_get` fails with TimedOut (nothing else happens)
#[derive(Clone)]
struct FlakyStore { inner: InMemoryObjectStore, fail_get: Arc<Mutex<Vec<String>>>, log: Arc<Mutex<Vec<String>>> }
impl FlakyStore {
    fn note(&self, s: String) { self.log.lock().unwrap().push(s); }
}
impl ObjectStore for FlakyStore {
    fn put<'a>(&'a self, key: &'a str, data: &'a [u8]) -> Pin<Box<dyn Future<Output = IoResult<()>> + Send + 'a>> {
        Box::pin(async move { self.note(format!("put {}", key)); self.inner.put(key, data).await })
    }
    fn get<'a>(&'a self, key: &'a str) -> Pin<Box<dyn Future<Output = IoResult<Vec<u8>>> + Send + 'a>> {
        Box::pin(async move {
            if self.fail_get.lock().unwrap().iter().any(|p| key.contains(p.as_str())) { self.note(format!("get {} -> Err(TimedOut)", key)); return Err(IoError::new(ErrorKind::TimedOut, "injected timeout")); }
            self.note(format!("get {}", key)); self.inner.get(key).await
        })
    }
    fn exists<'a>(&'a self, key: &'a str) -> Pin<Box<dyn Future<Output = IoResult<bool>> + Send + 'a>> { Box::pin(async move { self.inner.exists(key).await }) }
    fn delete<'a>(&'a self, key: &'a str) -> Pin<Box<dyn Future<Output = IoResult<()>> + Send + 'a>> {
        Box::pin(async move { self.note(format!("delete {}", key)); self.inner.delete(key).await })
    }
    fn list<'a>(&'a self, prefix: &'a str, token: Option<&'a str>) -> Pin<Box<dyn Future<Output = IoResult<ListResult>> + Send + 'a>> { Box::pin(async move { self.inner.list(prefix, token).await }) }
    fn rename<'a>(&'a self, from: &'a str, to: &'a str) -> Pin<Box<dyn Future<Output = IoResult<()>> + Send + 'a>> {
        Box::pin(async move { self.note(format!("rename {} -> {}", from, to)); self.inner.rename(from, to).await })
    }
    fn head<'a>(&'a self, key: &'a str) -> Pin<Box<dyn Future<Output = IoResult<ObjectMeta>> + Send + 'a>> { Box::pin(async move { self.inner.head(key).await }) }
}

fn set(key: &str, value: &str, ts: u64) -> ReplicationDelta {
    let r = ReplicaId::new(1);
    ReplicationDelta::new(key.to_string(), ReplicatedValue::with_value(SDS::from_str(value), LamportClock { time: ts, replica_id: r }), r)
}

async fn scenario(name: &str, fail: &[&str]) -> bool {
    let inner = InMemoryObjectStore::new();
    let store = FlakyStore { inner: inner.clone(), fail_get: Arc::new(Mutex::new(Vec::new())), log: Arc::new(Mutex::new(Vec::new())) };
    let arc = Arc::new(store.clone());
    let mut p = StreamingPersistence::new(arc.clone(), "t".to_string(), 1, WriteBufferConfig::test()).await.unwrap();
    let mut confirmed = Vec::new();
    for (i, k) in ["a", "b", "c"].iter().enumerate() {
        p.push(set(k, &format!("v{}", i), 10 + i as u64)).unwrap();
        let r = p.flush().await.unwrap();
        println!("[{}] flush #{} -> Ok(flushed {}, {})", name, i, r.deltas_flushed, r.segment.as_ref().map(|s| s.key.clone()).unwrap_or_default());
        confirmed.push(k.to_string());
    }
    let before = RecoveryManager::new(inner.clone(), "t", 1).recover().await.unwrap();
    println!("[{}] recovery before compaction: keys {:?}", name, before.deltas.iter().map(|d| d.key.clone()).collect::<Vec<_>>());
    // compaction, with a transient read failure
    store.log.lock().unwrap().clear();
    *store.fail_get.lock().unwrap() = fail.iter().map(|s| s.to_string()).collect();
    let cfg = CompactionConfig { target_segment_size: 1 << 20, max_segments: 2, min_segments_to_compact: 2, max_segments_per_compaction: 10, tombstone_ttl: Duration::from_secs(0), compression_enabled: false };
    let mut c = Compactor::new(arc.clone(), "t".to_string(), ManifestManager::new(store.clone(), "t"), cfg);
    let res = c.compact().await;
    store.fail_get.lock().unwrap().clear();
    println!("[{}] compact() -> {}", name, match &res { Ok(r) => format!("Ok(removed {:?}, created {:?})", r.segments_removed.iter().map(|s| s.id).collect::<Vec<_>>(), r.segment_created.as_ref().map(|s| s.id)), Err(e) => format!("Err({})", e) });
    println!("[{}] store calls of compact(): {}", name, store.log.lock().unwrap().join(", "));
    let after = RecoveryManager::new(inner.clone(), "t", 1).recover().await;
    match after {
        Err(e) => { println!("[{}] VIOLATION: recovery after the compaction fails: {}", name, e); true }
        Ok(st) => {
            let keys: Vec<String> = st.deltas.iter().map(|d| d.key.clone()).collect();
            println!("[{}] recovery after compaction: manifest lists {:?}, keys {:?}", name, st.manifest.segments.iter().map(|s| s.key.clone()).collect::<Vec<_>>(), keys);
            let lost: Vec<&String> = confirmed.iter().filter(|k| !keys.contains(k)).collect();
            if lost.is_empty() { println!("[{}] ok: every confirmed update is recovered", name); false }
            else {
                let mut gone = Vec::new();
                for id in 0..3 { let k = format!("t/segments/segment-{:08}.seg", id); if !inner.exists(&k).await.unwrap() { gone.push(k); } }
                println!("[{}] VIOLATION (C12): updates {:?} of flushes that reported Ok are not recovered after a compaction whose read timed out; objects deleted: {:?}", name, lost, gone);
                true
            }
        }
    }
}

#[tokio::main]
async fn main() {
    let mut failed = false;
    failed |= scenario("a: one read times out", &["segment-00000001"]).await;
    failed |= scenario("b: every read times out", &["segment-"]).await;
    std::process::exit(if failed { 1 } else { 0 });
}
