// Witness for objstore/<SimulatedObjectStore as ObjectStore>::put/ensures#3 (A1: Ok = the key holds exactly `data`).
use redis_sim::io::simulation::SimulatedRng;
use redis_sim::streaming::{InMemoryObjectStore, ObjectStore};
use redis_sim::streaming::simulated_store::{SimulatedObjectStore, SimulatedStoreConfig};

#[tokio::test]
async fn put_reports_ok_after_truncated_write() {
    let inner = InMemoryObjectStore::new();
    let cfg = SimulatedStoreConfig { partial_write_prob: 1.0, ..SimulatedStoreConfig::no_faults() };
    let store = SimulatedObjectStore::new(inner.clone(), SimulatedRng::new(7), cfg);
    let data = b"0123456789".to_vec();
    let r = store.put("seg", &data).await;
    let stored = inner.get("seg").await.unwrap();
    println!("put returned {:?}; stored {} of {} bytes; partial_writes={}", r.as_ref().map(|_| "Ok"), stored.len(), data.len(), store.stats().partial_writes);
    // the contract the verified flush/compaction proofs rely on
    assert!(r.is_err() || stored == data, "put returned Ok but the object holds {} of {} bytes", stored.len(), data.len());
}

// What holds for keys that are absolute or contain `..` (LocalFsObjectStore::full_path = base_path.join(key), no check).
#[tokio::test]
async fn localfs_keys_can_leave_base_path() {
    use redis_sim::streaming::LocalFsObjectStore;
    let root = std::env::temp_dir().join(format!("objstore-escape-{}", std::process::id()));
    let base = root.join("base");
    std::fs::create_dir_all(&base).unwrap();
    let store = LocalFsObjectStore::new(base.clone());
    // an absolute key REPLACES base_path (what an empty streaming prefix produces: "" + "/manifest.json")
    let abs_key = format!("{}/outside/manifest.json", root.display());
    store.put(&abs_key, b"x").await.unwrap();
    // a `..` component walks out of base_path
    store.put("../outside2/seg", b"y").await.unwrap();
    let a = root.join("outside/manifest.json").exists();
    let b = root.join("outside2/seg").exists();
    let listed = store.list("", None).await.unwrap().objects.len();
    println!("absolute key landed outside base: {}; `..` key landed outside base: {}; list(\"\") sees {} objects", a, b, listed);
    std::fs::remove_dir_all(&root).ok();
    assert!(a && b);
}
