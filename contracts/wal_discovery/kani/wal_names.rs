// @append-to: src/streaming/wal.rs
// Kani harnesses for the WAL file-name -> sequence direction (C10, C09): BOUNDED stand-ins for the string part that the
// Verus unit wal_discovery ASSUMES about parsing (std's str::strip_prefix / strip_suffix, u64::from_str_radix(_, 16)).  Appended to a scratch copy of wal.rs by /verif/engine/kani_run.py; a child module
// sees the private function parse_wal_sequence.
// `ref_parse` below is the Verus specification `parsed_seq` of contracts/wal_discovery/unit.vt,
// transcribed to executable Rust over bytes.
#[cfg(kani)]
mod verif_kani_wal_names {
    use super::*;

    fn hex_val(c: u8) -> Option<u64> {
        match c {
            b'0'..=b'9' => Some((c - b'0') as u64),
            b'a'..=b'f' => Some((c - b'a') as u64 + 10),
            b'A'..=b'F' => Some((c - b'A') as u64 + 10),
            _ => None,
        }
    }

    // parsed_seq: "wal-" <optional +> <at least one hex digit, value fitting u64> ".wal"
    fn ref_parse(b: &[u8]) -> Option<u64> {
        let n = b.len();
        if n < 8 || b[0] != b'w' || b[1] != b'a' || b[2] != b'l' || b[3] != b'-' { return None; }
        if b[n - 4] != b'.' || b[n - 3] != b'w' || b[n - 2] != b'a' || b[n - 1] != b'l' { return None; }
        let mut i = 4;
        let end = n - 4;
        if i < end && b[i] == b'+' { i += 1; }
        if i == end { return None; }
        let mut v: u64 = 0;
        while i < end {
            let d = hex_val(b[i])?;
            if v > (u64::MAX >> 4) { return None; }
            v = (v << 4) | d;
            i += 1;
        }
        Some(v)
    }

    fn check_parse<const N: usize>() {
        let bytes: [u8; N] = kani::any();
        let len: usize = kani::any();
        kani::assume(len <= N);
        let b = &bytes[..len];
        // ASCII names (every ASCII byte string is valid UTF-8); non-ASCII names are outside this bound
        let mut k = 0;
        while k < len { kani::assume(b[k] < 0x80); k += 1; }
        let s = unsafe { std::str::from_utf8_unchecked(b) };
        // the real function: total (no panic on any name) and equal to the specification
        assert!(parse_wal_sequence(s) == ref_parse(b));
    }

    // @harness: wal_parse_matches_spec_le12
    // @bound: every ASCII name of at most 12 bytes (up to 4 characters between "wal-" and ".wal"); unwind 14
    // @tier: quick
    // @complete: false
    // @props: C10 C09
    #[kani::proof]
    #[kani::unwind(14)]
    fn wal_parse_matches_spec_le12() {
        check_parse::<12>();
    }

    // @harness: wal_parse_matches_spec_le26
    // @bound: every ASCII name of at most 26 bytes (up to 18 characters between "wal-" and ".wal": covers the 16-digit limit of u64, one digit too many, and the + sign); unwind 28
    // @tier: thorough
    // @complete: false
    // @props: C10 C09
    #[kani::proof]
    #[kani::unwind(28)]
    fn wal_parse_matches_spec_le26() {
        check_parse::<26>();
    }

    // NOT COVERED HERE: the format direction.  A harness `wal_file_name(kani::any()) == wal_name(n) byte for byte` was
    // tried (2026-09-24): core::fmt with a symbolic u64 does not finish within the 900 s per-harness budget of the
    // thorough tier.  The meaning of "wal-{:08x}.wal" therefore stays an ASSUMPTION of the Verus unit (std::fmt text);
    // it is exercised on concrete values only (replay driver wal_discovery: the name of every created file must parse
    // back to its sequence under the reference parser; in-tree test test_wal_file_naming).
}
