//! Executable witnesses for unit `repl_state` (C06/C09/C03) on the REAL compiled code, public API only.
//! Build: scratch crate with `redis-sim = { path = <repo>, default-features = false }` + tokio, this file as main.rs.
//!
//! Node A executes client commands.  Everything A hands to its consumers is recorded: the gossip outbound queue
//! (`GossipState::drain_outbound`), the streaming delta sink (`delta_sink_channel`) and a WAL (`spawn_wal_actor` on an
//! `InMemoryWalStore`, fsync policy Always).  The gossip deltas are delivered to peer B (`apply_remote_deltas`); the WAL
//! is read back after `simulate_crash()` with `WalRotator::recover_all_entries`.
use redis_sim::production::ReplicatedShardedState;
use redis_sim::redis::{Command, RespValue, SDS};
use redis_sim::replication::{ReplicationConfig, ReplicationDelta};
use redis_sim::streaming::wal_actor::spawn_wal_actor;
use redis_sim::streaming::wal_config::{FsyncPolicy, WalConfig};
use redis_sim::streaming::{delta_sink_channel, InMemoryWalStore, WalRotator};

fn show(r: &RespValue) -> String {
    match r {
        RespValue::BulkString(None) => "nil".into(),
        RespValue::BulkString(Some(b)) => format!("\"{}\"", String::from_utf8_lossy(b)),
        RespValue::Error(e) => format!("-{}", e),
        RespValue::Integer(i) => format!(":{}", i),
        RespValue::SimpleString(s) => format!("+{}", s),
        RespValue::Array(a) => format!("{:?}", a.as_ref().map(|v| v.iter().map(show).collect::<Vec<_>>())),
    }
}
fn sds(s: &str) -> SDS { SDS::new(s.as_bytes().to_vec()) }
fn cfg(id: u64) -> ReplicationConfig { ReplicationConfig { enabled: true, replica_id: id, ..Default::default() } }

struct Node { st: ReplicatedShardedState, sink: redis_sim::streaming::DeltaSinkReceiver, wal: InMemoryWalStore }
impl Node {
    fn new(id: u64) -> Node {
        let mut st = ReplicatedShardedState::new(cfg(id));
        let (tx, rx) = delta_sink_channel();
        st.set_delta_sink(tx);
        let wal = InMemoryWalStore::new();
        let (handle, _task) = spawn_wal_actor(wal.clone(), WalConfig { enabled: true, fsync_policy: FsyncPolicy::Always, ..Default::default() }).expect("wal actor");
        st.set_wal_handle(handle);
        Node { st, sink: rx, wal }
    }
    async fn run(&self, cmd: Command) -> (String, Vec<ReplicationDelta>, usize) {
        let reply = show(&self.st.execute(cmd).await);
        let mut gossip = Vec::new();
        if let Some(g) = self.st.get_gossip_state() { for m in g.write().drain_outbound() { if let Some(ds) = m.message.into_deltas() { gossip.extend(ds); } } }
        (reply, gossip, self.sink.drain().len())
    }
    async fn get(&self, k: &str) -> String { show(&self.st.execute(Command::Get(k.to_string())).await) }
    /// keys whose deltas survive a crash in the WAL (policy Always: everything acknowledged must be there)
    fn wal_keys_after_crash(&self) -> Vec<String> {
        self.wal.simulate_crash();
        let rot = WalRotator::new(self.wal.clone(), 64 * 1024 * 1024).expect("rotator");
        let mut ks: Vec<String> = rot.recover_all_entries().expect("recover").iter().filter_map(|e| e.to_delta().ok()).map(|d| d.key).collect();
        ks.sort(); ks.dedup(); ks
    }
}
async fn settle() { tokio::time::sleep(std::time::Duration::from_millis(50)).await; }

#[tokio::main]
async fn main() {
    let mut violations = 0;
    let keys: Vec<String> = (0..8).map(|i| format!("key{}", i)).collect();

    // ---------------- MSET: routed whole to the shard of its FIRST key; no delta at all
    {
        let a = Node::new(1); let b = Node::new(2);
        let pairs: Vec<(String, SDS)> = keys.iter().map(|k| (k.clone(), sds("v"))).collect();
        let (reply, gossip, sink) = a.run(Command::MSet(pairs)).await;
        b.st.apply_remote_deltas(gossip.clone()); settle().await;
        let mut local = Vec::new(); let mut peer = Vec::new();
        for k in &keys { local.push(a.get(k).await); peer.push(b.get(k).await); }
        let wal = a.wal_keys_after_crash();
        println!("[MSET] `MSET key0 v .. key7 v` -> {}   handed to gossip: {} deltas, to the sink: {}, in the WAL after a crash: {:?}", reply, gossip.len(), sink, wal);
        println!("[MSET] A serves GET key0..7 = {:?}", local);
        println!("[MSET] peer B serves        = {:?}", peer);
        if local.iter().any(|v| v != "\"v\"") { violations += 1; println!("[MSET] VIOLATION (routing): acknowledged with OK, but keys whose home is another shard are not readable on the node itself"); }
        if peer.iter().any(|v| v != "\"v\"") || wal.len() != keys.len() { violations += 1; println!("[MSET] VIOLATION (replication/durability): the acknowledged write reached neither peers nor the WAL"); }
    }
    // ---------------- contrast: the same 8 writes as single SETs
    {
        let a = Node::new(1); let b = Node::new(2);
        let mut n = 0;
        for k in &keys { let (_, g, _) = a.run(Command::set(k.clone(), sds("v"))).await; n += g.len(); b.st.apply_remote_deltas(g); }
        settle().await;
        let mut peer = Vec::new(); for k in &keys { peer.push(b.get(k).await); }
        println!("[8 x SET] gossip deltas {}  WAL after crash {:?}  peer B serves {:?}", n, a.wal_keys_after_crash().len(), peer);
    }
    // ---------------- DEL / EXISTS / MGET across shards: routed whole to the shard of the first key
    {
        let a = Node::new(1); let b = Node::new(2);
        for k in &keys { let (_, g, _) = a.run(Command::set(k.clone(), sds("x"))).await; b.st.apply_remote_deltas(g); }
        let (exists, _, _) = a.run(Command::Exists(keys.clone())).await;
        let mget = show(&a.st.execute(Command::MGet(keys.clone())).await);
        let (reply, gossip, sink) = a.run(Command::Del(keys.clone())).await;
        b.st.apply_remote_deltas(gossip.clone()); settle().await;
        let mut local = Vec::new(); let mut peer = Vec::new();
        for k in &keys { local.push(a.get(k).await); peer.push(b.get(k).await); }
        println!("[DEL] after 8 SETs: EXISTS key0..7 -> {}   MGET key0..7 -> {}", exists, mget);
        println!("[DEL] `DEL key0 .. key7` -> {}   gossip {} deltas, sink {}", reply, gossip.len(), sink);
        println!("[DEL] A serves GET key0..7 = {:?}", local);
        println!("[DEL] peer B serves        = {:?}", peer);
        if exists != ":8" || reply != ":8" || local.iter().any(|v| v != "nil") { violations += 1; println!("[DEL] VIOLATION (routing): keys whose home is another shard are not seen by EXISTS/MGET and not deleted by DEL"); }
    }
    // ---------------- MSETNX across shards (all-or-nothing): routed whole to the shard of its first key
    {
        let a = Node::new(1);
        let pairs: Vec<(String, SDS)> = keys.iter().map(|k| (k.clone(), sds("n"))).collect();
        let (reply, gossip, _) = a.run(Command::MSetNx(pairs)).await;
        let mut local = Vec::new(); for k in &keys { local.push(a.get(k).await); }
        println!("[MSETNX] `MSETNX key0 n .. key7 n` -> {}  gossip {} deltas   A serves GET key0..7 = {:?}", reply, gossip.len(), local);
        if reply == ":1" && local.iter().any(|v| v != "\"n\"") { violations += 1; println!("[MSETNX] VIOLATION (routing): replied 1 (all keys set) but keys whose home is another shard are not readable"); }
    }
    // ---------------- FLUSHALL: executed on every local shard, nothing handed to any consumer
    {
        let a = Node::new(1); let b = Node::new(2);
        for k in &keys { let (_, g, _) = a.run(Command::set(k.clone(), sds("x"))).await; b.st.apply_remote_deltas(g); }
        let (reply, gossip, sink) = a.run(Command::FlushAll).await;
        b.st.apply_remote_deltas(gossip.clone()); settle().await;
        let mut peer = Vec::new(); for k in &keys { peer.push(b.get(k).await); }
        println!("[FLUSHALL] -> {}  gossip {} sink {}   A GET key0 = {}   peer B still serves {:?}", reply, gossip.len(), sink, a.get("key0").await, peer);
    }
    println!("violations: {}", violations);
}
