//! Witness for exec_inline/CommandExecutor::execute/ensures#6 (C01): OBJECT ENCODING | REFCOUNT | IDLETIME | FREQ on a key that
//! does not exist.  Redis command documentation (OBJECT ENCODING / REFCOUNT / IDLETIME / FREQ): "Null reply: if the key doesn't
//! exist"; redis-server (object.c, objectCommandLookupOrReply(c, key, shared.null[..])) answers `$-1`.  The inline arms of
//! CommandExecutor::execute answer `-ERR no such key`.
//! Build as a bin crate with `redis-sim = { path = "<repo>", default-features = false }`.
use redis_sim::redis::{Command, CommandExecutor, RespValue, SDS};

fn main() {
    let mut ex = CommandExecutor::new();
    let mut wrong = 0;
    let cmds = vec![
        ("OBJECT ENCODING nokey", Command::ObjectEncoding("nokey".to_string())),
        ("OBJECT REFCOUNT nokey", Command::ObjectRefCount("nokey".to_string())),
        ("OBJECT IDLETIME nokey", Command::ObjectIdleTime("nokey".to_string())),
        ("OBJECT FREQ nokey", Command::ObjectFreq("nokey".to_string())),
    ];
    for (text, c) in &cmds {
        let r = ex.execute(c);
        let nil = matches!(r, RespValue::BulkString(None));
        if !nil { wrong += 1; }
        println!("{text:24} -> {:?}   (Redis: nil){}", r, if nil { "" } else { "   DIFFERS" });
    }
    // an existing key is described, and DEBUG OBJECT on a missing key is an error in Redis too
    ex.execute(&Command::set("k".to_string(), SDS::new(b"12".to_vec())));
    println!("{:24} -> {:?}", "OBJECT ENCODING k", ex.execute(&Command::ObjectEncoding("k".to_string())));
    println!("{:24} -> {:?}", "DEBUG OBJECT nokey", ex.execute(&Command::DebugObject("nokey".to_string())));
    println!("{wrong} replies differ from Redis");
}
