//! Executable witnesses for the two refuted obligations of unit `shard_apply` (C06), on the REAL compiled
//! code of the repository, through the public API only (`ReplicatedShardedState`).
//! Build: scratch crate with `redis-sim = { path = <repo>, default-features = false }` + tokio, this file as main.rs.
//!
//! Node A executes client commands; everything A hands to its replication consumers - the gossip outbound
//! queue (`GossipState::drain_outbound`) and the streaming/WAL delta sink (`delta_sink_channel`) - is recorded and
//! delivered to node B with `apply_remote_deltas`.  Then what A serves (GET/TTL through `execute`) is compared with
//! what A's replication state says (`snapshot_state`) and with what B serves.
use redis_sim::production::ReplicatedShardedState;
use redis_sim::redis::{Command, RespValue, SDS};
use redis_sim::replication::{ReplicationConfig, ReplicationDelta};
use redis_sim::streaming::delta_sink_channel;

fn show(r: &RespValue) -> String {
    match r {
        RespValue::BulkString(None) => "nil".into(),
        RespValue::BulkString(Some(b)) => format!("\"{}\"", String::from_utf8_lossy(b)),
        RespValue::Error(e) => format!("-{}", e),
        RespValue::Integer(i) => format!(":{}", i),
        RespValue::SimpleString(s) => format!("+{}", s),
        RespValue::Array(a) => format!("{:?}", a.as_ref().map(|v| v.iter().map(show).collect::<Vec<_>>())),
    }
}
fn sds(s: &str) -> SDS { SDS::new(s.as_bytes().to_vec()) }
fn show_delta(d: &ReplicationDelta) -> String {
    let v = match d.value.get() { Some(s) => format!("\"{}\"", String::from_utf8_lossy(s.as_bytes())), None => if d.value.is_tombstone() { "<tombstone>".into() } else { "<none>".into() } };
    format!("{}={} @({},r{}) expiry_ms={:?}", d.key, v, d.value.timestamp.time, d.value.timestamp.replica_id.0, d.value.expiry_ms)
}
fn cfg(id: u64) -> ReplicationConfig { ReplicationConfig { enabled: true, replica_id: id, ..Default::default() } }

struct Node { st: ReplicatedShardedState, sink: redis_sim::streaming::DeltaSinkReceiver }
impl Node {
    fn new(id: u64) -> Node {
        let mut st = ReplicatedShardedState::new(cfg(id));
        let (tx, rx) = delta_sink_channel();
        st.set_delta_sink(tx);
        Node { st, sink: rx }
    }
    /// run one client command; returns (reply, deltas queued for gossip, deltas sent to the persistence sink)
    async fn run(&self, cmd: Command) -> (String, Vec<ReplicationDelta>, Vec<ReplicationDelta>) {
        let reply = show(&self.st.execute(cmd).await);
        let mut gossip = Vec::new();
        if let Some(g) = self.st.get_gossip_state() {
            for m in g.write().drain_outbound() { if let Some(ds) = m.message.into_deltas() { gossip.extend(ds); } }
        }
        (reply, gossip, self.sink.drain())
    }
    async fn get(&self, k: &str) -> String { show(&self.st.execute(Command::Get(k.to_string())).await) }
    async fn state_says(&self, k: &str) -> String {
        match self.st.snapshot_state().await.get(k) {
            None => "<absent>".into(),
            Some(v) => match v.get() { Some(s) => format!("\"{}\" expiry_ms={:?}", String::from_utf8_lossy(s.as_bytes()), v.expiry_ms), None => if v.is_tombstone() { "<tombstone>".into() } else { "<no string>".into() } },
        }
    }
}
async fn settle() { tokio::time::sleep(std::time::Duration::from_millis(50)).await; }

#[tokio::main]
async fn main() {
    let mut violations = 0;

    // ---------------- witness 1: shard_apply/.../record_mutation_post_execute/ensures#7 (SET NX no-op recorded as a write)
    {
        let a = Node::new(1); let b = Node::new(2);
        let mut sent = Vec::new();
        for cmd in [Command::set("k".into(), sds("a")),
                    Command::Set { key: "k".into(), value: sds("b"), ex: None, px: None, exat: None, pxat: None, nx: true, xx: false, get: false, keepttl: false }] {
            let (reply, gossip, sink) = a.run(cmd).await;
            println!("[NX] A reply {}   gossip: {:?}   sink: {:?}", reply, gossip.iter().map(show_delta).collect::<Vec<_>>(), sink.iter().map(show_delta).collect::<Vec<_>>());
            sent.extend(gossip);
        }
        b.st.apply_remote_deltas(sent); settle().await;
        let (serves, says, peer) = (a.get("k").await, a.state_says("k").await, b.get("k").await);
        println!("[NX] after `SET k a; SET k b NX`:  A serves GET k = {}   A's replication state says k = {}   peer B serves GET k = {}", serves, says, peer);
        if serves != peer || !says.starts_with(&serves) { violations += 1; println!("[NX] VIOLATION: a replica serves something else than its replication state says / than its peers serve"); }
    }

    // ---------------- witness 2: shard_apply/.../record_mutation_post_execute/ensures#9 (multi-key DEL: only the last key's delta)
    for (label, second_exists) in [("k2 absent", false), ("k2 present", true)] {
        let a = Node::new(1); let b = Node::new(2);
        // two keys that live on the same shard so that the executor really deletes both: try a few names
        let k1 = "user:1".to_string();
        let mut k2 = String::new();
        for i in 0..10_000 {
            let cand = format!("user:{}", 2 + i);
            // same shard <=> a DEL of both keys sent as one command deletes both on A
            let p = Node::new(9);
            p.run(Command::set(k1.clone(), sds("x"))).await; p.run(Command::set(cand.clone(), sds("y"))).await;
            let (r, _, _) = p.run(Command::Del(vec![k1.clone(), cand.clone()])).await;
            if r == ":2" { k2 = cand; break; }
        }
        let mut sent = Vec::new();
        let mut cmds = vec![Command::set(k1.clone(), sds("x"))];
        if second_exists { cmds.push(Command::set(k2.clone(), sds("y"))); }
        cmds.push(Command::Del(vec![k1.clone(), k2.clone()]));
        for cmd in cmds {
            let (reply, gossip, sink) = a.run(cmd).await;
            println!("[DEL {}] A reply {}   gossip: {:?}   sink: {:?}", label, reply, gossip.iter().map(show_delta).collect::<Vec<_>>(), sink.iter().map(show_delta).collect::<Vec<_>>());
            sent.extend(gossip);
        }
        b.st.apply_remote_deltas(sent); settle().await;
        let (serves, says, peer) = (a.get(&k1).await, a.state_says(&k1).await, b.get(&k1).await);
        println!("[DEL {}] after `SET {k1} x;{} DEL {k1} {k2}`:  A serves GET {k1} = {}   A's replication state says {}   peer B serves GET {k1} = {}",
                 label, if second_exists { format!(" SET {k2} y;") } else { String::new() }, serves, says, peer);
        if serves != peer { violations += 1; println!("[DEL {}] VIOLATION: the tombstone of {k1} reached neither gossip nor the persistence sink; the peer keeps serving it", label); }
    }

    // ---------------- observation 3: SET .. EXAT / PXAT / KEEPTTL: the delta carries no expiry
    {
        let now_s = std::time::SystemTime::now().duration_since(std::time::UNIX_EPOCH).unwrap().as_secs() as i64;
        for (label, cmds) in [
            ("EXAT now+100", vec![Command::Set { key: "e".into(), value: sds("v"), ex: None, px: None, exat: Some(now_s + 100), pxat: None, nx: false, xx: false, get: false, keepttl: false }]),
            ("PXAT now+100s", vec![Command::Set { key: "e".into(), value: sds("v"), ex: None, px: None, exat: None, pxat: Some((now_s + 100) * 1000), nx: false, xx: false, get: false, keepttl: false }]),
            ("EX 100 then KEEPTTL", vec![Command::setex("e".into(), 100, sds("v")),
                                           Command::Set { key: "e".into(), value: sds("w"), ex: None, px: None, exat: None, pxat: None, nx: false, xx: false, get: false, keepttl: true }]),
        ] {
            let a = Node::new(1); let b = Node::new(2);
            let mut sent = Vec::new();
            for cmd in cmds { let (reply, gossip, _sink) = a.run(cmd).await; println!("[TTL {}] A reply {}   gossip: {:?}", label, reply, gossip.iter().map(show_delta).collect::<Vec<_>>()); sent.extend(gossip); }
            b.st.apply_remote_deltas(sent); settle().await;
            let ta = show(&a.st.execute(Command::Ttl("e".into())).await); let tb = show(&b.st.execute(Command::Ttl("e".into())).await);
            println!("[TTL {}] A serves TTL e = {}   A's replication state says e = {}   peer B serves TTL e = {}", label, ta, a.state_says("e").await, tb);
            if (ta == ":-1") != (tb == ":-1") { violations += 1; println!("[TTL {}] VIOLATION: the key expires on A and never on B", label); }
        }
    }
    println!("violations: {}", violations);
}
