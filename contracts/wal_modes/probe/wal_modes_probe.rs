// How to run: rsync -a --exclude target --exclude .git /repo/ /var/tmp/wal_modes-repo/ ; cp this file to /var/tmp/wal_modes-repo/tests/ ;
//   cd /var/tmp/wal_modes-repo && RUSTC_WRAPPER= cargo test --offline --test wal_modes_probe -- --nocapture
// Measured on /repo as pinned:  failed tick: recovered 0 entries after shutdown+crash, fsync calls during shutdown 0
// With fix-candidate.patch:     failed tick: recovered 1 entries after shutdown+crash, fsync calls during shutdown 1
// Probe for unit wal_modes (observation, EverySecond policy): one transient fsync failure at a SyncTick resets
// entries_since_sync, so a later *graceful* Shutdown (healthy disk again) skips the final fsync; the write that
// write_durable acknowledged with Ok is then discarded by a crash right after the shutdown was answered.
use redis_sim::redis::SDS;
use redis_sim::replication::lattice::{LamportClock, ReplicaId};
use redis_sim::replication::state::{ReplicatedValue, ReplicationDelta};
use redis_sim::streaming::wal_actor::spawn_wal_actor;
use redis_sim::streaming::wal_config::{FsyncPolicy, WalConfig};
use redis_sim::streaming::wal_store::{InMemoryWalStore, WalError, WalFileWriter, WalStore};
use redis_sim::streaming::WalRotator;
use std::sync::atomic::{AtomicBool, AtomicUsize, Ordering};
use std::sync::Arc;
use std::time::Duration;

#[derive(Clone)]
struct FlakyStore { inner: InMemoryWalStore, fail_sync: Arc<AtomicBool>, syncs: Arc<AtomicUsize> }
struct FlakyWriter<W: WalFileWriter> { w: W, fail_sync: Arc<AtomicBool>, syncs: Arc<AtomicUsize> }
impl<W: WalFileWriter> WalFileWriter for FlakyWriter<W> {
    fn append(&mut self, data: &[u8]) -> Result<u64, WalError> { self.w.append(data) }
    fn sync(&mut self) -> Result<(), WalError> {
        self.syncs.fetch_add(1, Ordering::SeqCst);
        if self.fail_sync.load(Ordering::SeqCst) { return Err(WalError::FsyncFailed("injected".into())); }
        self.w.sync()
    }
    fn size(&self) -> u64 { self.w.size() }
}
impl WalStore for FlakyStore {
    type Writer = FlakyWriter<<InMemoryWalStore as WalStore>::Writer>;
    type Reader = <InMemoryWalStore as WalStore>::Reader;
    fn create(&self, name: &str) -> Result<Self::Writer, WalError> {
        Ok(FlakyWriter { w: self.inner.create(name)?, fail_sync: self.fail_sync.clone(), syncs: self.syncs.clone() })
    }
    fn open_read(&self, name: &str) -> Result<Self::Reader, WalError> { self.inner.open_read(name) }
    fn list(&self) -> Result<Vec<String>, WalError> { self.inner.list() }
    fn delete(&self, name: &str) -> Result<(), WalError> { self.inner.delete(name) }
    fn exists(&self, name: &str) -> Result<bool, WalError> { self.inner.exists(name) }
}

fn delta(key: &str, ts: u64) -> Arc<ReplicationDelta> {
    let rid = ReplicaId::new(1);
    let v = ReplicatedValue::with_value(SDS::from_str("v"), LamportClock { time: ts, replica_id: rid });
    Arc::new(ReplicationDelta::new(key.to_string(), v, rid))
}

async fn scenario(fail_first_tick: bool) -> (usize, usize) {
    let inner = InMemoryWalStore::new();
    let store = FlakyStore { inner: inner.clone(), fail_sync: Arc::new(AtomicBool::new(false)), syncs: Arc::new(AtomicUsize::new(0)) };
    let mut cfg = WalConfig::every_second(std::path::PathBuf::from("/tmp/unused"));
    assert_eq!(cfg.fsync_policy, FsyncPolicy::EverySecond);
    cfg.max_file_size = 1024 * 1024;
    let (h, task) = spawn_wal_actor(store.clone(), cfg).unwrap();
    h.write_durable(delta("k1", 100), 100).await.expect("acknowledged Ok");
    if fail_first_tick { store.fail_sync.store(true, Ordering::SeqCst); }
    h.sync_tick();
    tokio::time::sleep(Duration::from_millis(50)).await;
    store.fail_sync.store(false, Ordering::SeqCst);      // the disk is healthy again
    let syncs_before_shutdown = store.syncs.load(Ordering::SeqCst);
    h.shutdown().await;                                  // graceful shutdown, answered
    task.await.unwrap();
    let syncs_at_shutdown = store.syncs.load(Ordering::SeqCst) - syncs_before_shutdown;
    inner.simulate_crash();                              // a crash discards every byte not covered by a successful fsync
    let rot = WalRotator::new(inner.clone(), 1024 * 1024).unwrap();
    (rot.recover_all_entries().unwrap().len(), syncs_at_shutdown)
}

#[tokio::test]
async fn everysec_failed_tick_then_graceful_shutdown() {
    let (recovered, syncs) = scenario(false).await;
    println!("healthy tick : recovered {} entries after shutdown+crash, fsync calls during shutdown {}", recovered, syncs);
    let (recovered_f, syncs_f) = scenario(true).await;
    println!("failed tick  : recovered {} entries after shutdown+crash, fsync calls during shutdown {}", recovered_f, syncs_f);
}
