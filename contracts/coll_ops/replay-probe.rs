// Replay probe for C01 (unit coll_ops; execute_zadd is outside the Verus dialect, so this defect is shown by replay only):
// ZADD with XX on a key that does not exist must not create the key.
use redis_sim::redis::{Command, CommandExecutor, SDS};

#[test]
fn zadd_xx_on_absent_key_creates_nothing() {
    let mut ex = CommandExecutor::new();
    let r = ex.execute(&Command::ZAdd { key: "z".to_string(), pairs: vec![(1.0, SDS::from_str("a"))], nx: false, xx: true, gt: false, lt: false, ch: false });
    let e = ex.execute(&Command::Exists(vec!["z".to_string()]));
    let t = ex.execute(&Command::TypeOf("z".to_string()));
    let d = ex.execute(&Command::DbSize);
    eprintln!("ZADD z XX 1 a -> {:?}; EXISTS z -> {:?}; TYPE z -> {:?}; DBSIZE -> {:?}", r, e, t, d);
    assert_eq!(format!("{:?}", r), "Integer(0)");
    assert_eq!(format!("{:?}", e), "Integer(0)");
    assert_eq!(format!("{:?}", d), "Integer(0)");
}
