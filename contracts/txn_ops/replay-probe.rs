// Replay probes for C05 (unit txn_ops): WATCH / EXEC compare the physically stored value, not the visible one
use redis_sim::redis::{Command, CommandExecutor, RespValue, SDS};
use redis_sim::simulator::VirtualTime;

fn nil() -> String { format!("{:?}", RespValue::BulkString(None)) }

// txn_ops/CommandExecutor::execute_exec/ensures#2: the watched key expired between WATCH and EXEC -> its value changed
#[test]
fn exec_must_abort_when_watched_key_expired() {
    let mut ex = CommandExecutor::new();
    ex.set_time(VirtualTime::from_millis(1_000));
    ex.execute(&Command::setex("k".to_string(), 1, SDS::from_str("v")));
    ex.execute(&Command::Watch(vec!["k".to_string()]));
    ex.update_time_readonly(VirtualTime::from_millis(5_000)); // deadline passes; no sweep, nobody touches k
    ex.execute(&Command::Multi);
    ex.execute(&Command::set("other".to_string(), SDS::from_str("x")));
    let r = format!("{:?}", ex.execute(&Command::Exec));
    let k = format!("{:?}", ex.execute(&Command::Get("k".to_string())));
    let o = format!("{:?}", ex.execute(&Command::Get("other".to_string())));
    eprintln!("EXEC -> {}; GET k -> {}; GET other -> {}", r, k, o);
    assert_eq!(r, nil(), "k went from \"v\" to absent between WATCH and EXEC");
    assert_eq!(o, nil());
}
// txn_ops/CommandExecutor::execute_watch/ensures#3 and execute_exec/ensures#3: k does not exist at WATCH nor at EXEC
#[test]
fn exec_must_apply_when_watched_key_was_and_is_absent() {
    let mut ex = CommandExecutor::new();
    ex.set_time(VirtualTime::from_millis(1_000));
    ex.execute(&Command::setex("k".to_string(), 1, SDS::from_str("v")));
    ex.update_time_readonly(VirtualTime::from_millis(5_000)); // k no longer exists (not yet purged)
    ex.execute(&Command::Watch(vec!["k".to_string()]));
    let g = format!("{:?}", ex.execute(&Command::Get("k".to_string()))); // nil; lazily purges k
    ex.execute(&Command::Multi);
    ex.execute(&Command::set("other".to_string(), SDS::from_str("x")));
    let r = format!("{:?}", ex.execute(&Command::Exec));
    let o = format!("{:?}", ex.execute(&Command::Get("other".to_string())));
    eprintln!("GET k -> {}; EXEC -> {}; GET other -> {}", g, r, o);
    assert_ne!(r, nil(), "k was absent at WATCH and is absent at EXEC: nothing changed");
}
