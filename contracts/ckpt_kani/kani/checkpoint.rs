// @append-to: src/streaming/checkpoint.rs
// Kani harnesses for the fixed-size checkpoint header / footer (C14): the real byte-order code and the real
// std::io plumbing (Write for Vec<u8>, Read for Cursor<&[u8]>) that the Verus unit `checkpoint` reaches only
// through shims.  The header functions exercised here call no checksum.  CheckpointFooter::compute_checksum
// (crc32fast::Hasher) is STUBBED by a loop-free deterministic function of the two covered fields: the footer
// statements are relative to "some deterministic checksum of (data_checksum, data_size)", as `crc` is
// uninterpreted in the Verus unit.
#[cfg(kani)]
mod verif_kani_ckpt {
    use super::*;

    fn footer_ck_stub(f: &CheckpointFooter) -> u32 {
        f.data_checksum.rotate_left(7) ^ (f.data_size as u32) ^ ((f.data_size >> 32) as u32) ^ 0x9E37_79B9
    }
    fn le32(b: [u8; 4]) -> u32 {
        (b[0] as u32) | ((b[1] as u32) << 8) | ((b[2] as u32) << 16) | ((b[3] as u32) << 24)
    }
    fn le64(b: [u8; 8]) -> u64 {
        (b[0] as u64) | ((b[1] as u64) << 8) | ((b[2] as u64) << 16) | ((b[3] as u64) << 24)
            | ((b[4] as u64) << 32) | ((b[5] as u64) << 40) | ((b[6] as u64) << 48) | ((b[7] as u64) << 56)
    }

    // @harness: ckpt_header_bytes_roundtrip
    // @bound: none (every value of every header field); loop-free
    // @tier: quick
    // @complete: true
    #[kani::proof]
    fn ckpt_header_bytes_roundtrip() {
        let h = CheckpointHeader {
            magic: kani::any(),
            version: kani::any(),
            flags: kani::any(),
            key_count: kani::any(),
            timestamp_ms: kani::any(),
            last_segment_id: kani::any(),
            header_checksum: kani::any(),
        };
        let mut out: Vec<u8> = Vec::new();
        assert!(h.write_to(&mut out).is_ok());
        assert!(out.len() == CHECKPOINT_HEADER_SIZE);
        // documented layout
        assert!(out[0] == h.magic[0] && out[1] == h.magic[1] && out[2] == h.magic[2] && out[3] == h.magic[3]);
        assert!(out[4] == h.version && out[5] == h.flags && out[6] == 0 && out[7] == 0);
        assert!(le64([out[8], out[9], out[10], out[11], out[12], out[13], out[14], out[15]]) == h.key_count);
        assert!(le64([out[16], out[17], out[18], out[19], out[20], out[21], out[22], out[23]]) == h.timestamp_ms);
        assert!(le64([out[24], out[25], out[26], out[27], out[28], out[29], out[30], out[31]]) == h.last_segment_id);
        assert!(out[32] == 0 && out[37] == 0 && out[43] == 0);
        assert!(le32([out[44], out[45], out[46], out[47]]) == h.header_checksum);
        let mut cur = Cursor::new(&out[..]);
        match CheckpointHeader::read_from(&mut cur) {
            Ok(g) => {
                assert!(g.magic == h.magic && g.version == h.version && g.flags == h.flags);
                assert!(g.key_count == h.key_count && g.timestamp_ms == h.timestamp_ms && g.last_segment_id == h.last_segment_id);
                assert!(g.header_checksum == h.header_checksum);
            }
            Err(_) => assert!(false),
        }
        kani::cover!(true);
    }

    // @harness: ckpt_header_from_any_48_bytes
    // @bound: every 48-byte input; loop-free
    // @tier: quick
    // @complete: true
    #[kani::proof]
    fn ckpt_header_from_any_48_bytes() {
        let d: [u8; 48] = kani::any();
        let mut cur = Cursor::new(&d[..]);
        match CheckpointHeader::read_from(&mut cur) {
            Ok(g) => {
                assert!(g.magic == [d[0], d[1], d[2], d[3]] && g.version == d[4] && g.flags == d[5]);
                assert!(g.key_count == le64([d[8], d[9], d[10], d[11], d[12], d[13], d[14], d[15]]));
                assert!(g.timestamp_ms == le64([d[16], d[17], d[18], d[19], d[20], d[21], d[22], d[23]]));
                assert!(g.last_segment_id == le64([d[24], d[25], d[26], d[27], d[28], d[29], d[30], d[31]]));
                assert!(g.header_checksum == le32([d[44], d[45], d[46], d[47]]));
            }
            // 48 bytes always parse: read_from does not validate (validate() does)
            Err(_) => assert!(false),
        }
        kani::cover!(true);
    }

    // @harness: ckpt_footer_bytes_roundtrip
    // @bound: none (every data checksum and data size); loop-free; footer checksum function stubbed
    // @tier: quick
    // @complete: true
    #[kani::proof]
    #[kani::stub(CheckpointFooter::compute_checksum, footer_ck_stub)]
    fn ckpt_footer_bytes_roundtrip() {
        let f = CheckpointFooter::new(kani::any(), kani::any());
        let mut out: Vec<u8> = Vec::new();
        assert!(f.write_to(&mut out).is_ok());
        assert!(out.len() == 16);
        assert!(le32([out[0], out[1], out[2], out[3]]) == f.data_checksum);
        assert!(le64([out[4], out[5], out[6], out[7], out[8], out[9], out[10], out[11]]) == f.data_size);
        assert!(le32([out[12], out[13], out[14], out[15]]) == f.footer_checksum);
        let mut cur = Cursor::new(&out[..]);
        match CheckpointFooter::read_from(&mut cur) {
            Ok(g) => assert!(g.data_checksum == f.data_checksum && g.data_size == f.data_size && g.footer_checksum == f.footer_checksum),
            Err(_) => assert!(false),
        }
        kani::cover!(true);
    }

    // @harness: ckpt_footer_from_any_16_bytes
    // @bound: every 16-byte input; loop-free; footer checksum function stubbed
    // @tier: quick
    // @complete: true
    #[kani::proof]
    #[kani::stub(CheckpointFooter::compute_checksum, footer_ck_stub)]
    fn ckpt_footer_from_any_16_bytes() {
        let d: [u8; 16] = kani::any();
        let dc = le32([d[0], d[1], d[2], d[3]]);
        let ds = le64([d[4], d[5], d[6], d[7], d[8], d[9], d[10], d[11]]);
        let fc = le32([d[12], d[13], d[14], d[15]]);
        let want = footer_ck_stub(&CheckpointFooter { data_checksum: dc, data_size: ds, footer_checksum: 0 });
        let mut cur = Cursor::new(&d[..]);
        match CheckpointFooter::read_from(&mut cur) {
            // accepted exactly when the stored footer checksum is the checksum of the 12 bytes before it
            Ok(g) => assert!(fc == want && g.data_checksum == dc && g.data_size == ds && g.footer_checksum == fc),
            Err(_) => assert!(fc != want),
        }
        kani::cover!(true);
    }
}
