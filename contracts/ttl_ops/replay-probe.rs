// Replay probes for C01 (unit ttl_ops)
use redis_sim::redis::{Command, CommandExecutor, RespValue, SDS};

fn kv(ex: &mut CommandExecutor, k: &str, v: &str) { ex.execute(&Command::set(k.to_string(), SDS::from_str(v))); }

// ttl_ops/CommandExecutor::execute_expire/ensures#4: a non-positive timeout still has to pass NX/XX/GT/LT
#[test]
fn expire_nonpositive_must_respect_flags() {
    let mut ex = CommandExecutor::new();
    kv(&mut ex, "k", "v");
    // k has no TTL: XX cannot apply -> Redis replies 0 and keeps k
    let r = ex.execute(&Command::Expire { key: "k".to_string(), seconds: -1, nx: false, xx: true, gt: false, lt: false });
    let e = ex.execute(&Command::Exists(vec!["k".to_string()]));
    eprintln!("EXPIRE k -1 XX -> {:?}; EXISTS k -> {:?}", r, e);
    assert_eq!(format!("{:?}", r), "Integer(0)");
    assert_eq!(format!("{:?}", e), "Integer(1)");
}
#[test]
fn pexpire_nonpositive_must_respect_flags() {
    let mut ex = CommandExecutor::new();
    kv(&mut ex, "k", "v");
    // GT never applies to a key without TTL
    let r = ex.execute(&Command::PExpire { key: "k".to_string(), milliseconds: 0, nx: false, xx: false, gt: true, lt: false });
    let e = ex.execute(&Command::Exists(vec!["k".to_string()]));
    eprintln!("PEXPIRE k 0 GT -> {:?}; EXISTS k -> {:?}", r, e);
    assert_eq!(format!("{:?}", r), "Integer(0)");
    assert_eq!(format!("{:?}", e), "Integer(1)");
}
// ttl_ops/CommandExecutor::execute_ttl/safety: remaining_ms + 999 overflows
#[test]
fn ttl_of_far_future_deadline() {
    let mut ex = CommandExecutor::new();
    kv(&mut ex, "k", "v");
    let r = ex.execute(&Command::PExpire { key: "k".to_string(), milliseconds: i64::MAX, nx: false, xx: false, gt: false, lt: false });
    eprintln!("PEXPIRE k i64::MAX -> {:?}", r);
    let p = ex.execute(&Command::Pttl("k".to_string()));
    eprintln!("PTTL k -> {:?}", p);
    let t = ex.execute(&Command::Ttl("k".to_string()));
    eprintln!("TTL k -> {:?}", t);
    assert_eq!(format!("{:?}", t), "Integer(9223372036854776)");
}

fn ttl(ex: &mut CommandExecutor, k: &str) -> String { format!("{:?}", ex.execute(&Command::Ttl(k.to_string()))) }
fn get(ex: &mut CommandExecutor, k: &str) -> String { format!("{:?}", ex.execute(&Command::Get(k.to_string()))) }

// ttl_ops/CommandExecutor::execute_getset/ensures#4: GETSET discards the previous time to live
#[test]
fn getset_discards_ttl() {
    let mut ex = CommandExecutor::new();
    ex.execute(&Command::setex("k".to_string(), 100, SDS::from_str("old")));
    let r = ex.execute(&Command::GetSet("k".to_string(), SDS::from_str("new")));
    let t = ttl(&mut ex, "k");
    eprintln!("GETSET k new -> {:?}; TTL k -> {}", r, t);
    assert_eq!(t, "Integer(-1)");
}
// ttl_ops/CommandExecutor::execute_mset/ensures#3
#[test]
fn mset_discards_ttl() {
    let mut ex = CommandExecutor::new();
    ex.execute(&Command::setex("k".to_string(), 100, SDS::from_str("old")));
    let r = ex.execute(&Command::MSet(vec![("k".to_string(), SDS::from_str("new"))]));
    let t = ttl(&mut ex, "k");
    eprintln!("MSET k new -> {:?}; TTL k -> {}", r, t);
    assert_eq!(t, "Integer(-1)");
}
// ttl_ops/CommandExecutor::execute_batch_set/ensures#3
#[test]
fn batchset_discards_ttl() {
    let mut ex = CommandExecutor::new();
    ex.execute(&Command::setex("k".to_string(), 100, SDS::from_str("old")));
    let r = ex.execute(&Command::BatchSet(vec![("k".to_string(), SDS::from_str("new"))]));
    let t = ttl(&mut ex, "k");
    eprintln!("BATCHSET k new -> {:?}; TTL k -> {}", r, t);
    assert_eq!(t, "Integer(-1)");
}
// ttl_ops/CommandExecutor::execute_set/ensures#11: SET .. KEEPTTL on a key whose deadline has passed (not yet purged)
#[test]
fn set_keepttl_on_expired_key() {
    use redis_sim::simulator::VirtualTime;
    let mut ex = CommandExecutor::new();
    ex.set_time(VirtualTime::from_millis(1_000));
    ex.execute(&Command::setex("k".to_string(), 1, SDS::from_str("old")));
    ex.update_time_readonly(VirtualTime::from_millis(5_000)); // time passes, no eviction sweep yet
    let r = ex.execute(&Command::Set { key: "k".to_string(), value: SDS::from_str("new"), ex: None, px: None, exat: None, pxat: None, nx: false, xx: false, get: false, keepttl: true });
    let g = get(&mut ex, "k");
    eprintln!("SET k new KEEPTTL -> {:?}; GET k -> {}", r, g);
    assert_eq!(g, format!("{:?}", RespValue::BulkString(Some(b"new".to_vec()))));
}
// MSET onto a key whose deadline has passed (not yet purged): the key just written is invisible
#[test]
fn mset_on_expired_key() {
    use redis_sim::simulator::VirtualTime;
    let mut ex = CommandExecutor::new();
    ex.set_time(VirtualTime::from_millis(1_000));
    ex.execute(&Command::setex("k".to_string(), 1, SDS::from_str("old")));
    ex.update_time_readonly(VirtualTime::from_millis(5_000));
    let r = ex.execute(&Command::MSet(vec![("k".to_string(), SDS::from_str("new"))]));
    let g = get(&mut ex, "k");
    eprintln!("MSET k new -> {:?}; GET k -> {}", r, g);
    assert_eq!(g, format!("{:?}", RespValue::BulkString(Some(b"new".to_vec()))));
}

// ttl_ops/CommandExecutor::execute_msetnx/ensures#4
#[test]
fn msetnx_on_expired_key() {
    use redis_sim::simulator::VirtualTime;
    let mut ex = CommandExecutor::new();
    ex.set_time(VirtualTime::from_millis(1_000));
    ex.execute(&Command::setex("k".to_string(), 1, SDS::from_str("old")));
    ex.update_time_readonly(VirtualTime::from_millis(5_000));
    let r = ex.execute(&Command::MSetNx(vec![("k".to_string(), SDS::from_str("new"))]));
    let g = get(&mut ex, "k");
    eprintln!("MSETNX k new -> {:?}; GET k -> {}", r, g);
    assert_eq!(format!("{:?}", r), "Integer(1)");
    assert_eq!(g, format!("{:?}", RespValue::BulkString(Some(b"new".to_vec()))));
}
