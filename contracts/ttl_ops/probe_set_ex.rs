use redis_sim::redis::{Command, CommandExecutor, RespValue, SDS};
use redis_sim::simulator::VirtualTime;
#[test]
fn set_ex_at_limit_then_read_ttl() {
    let mut ex = CommandExecutor::new();
    ex.set_time(VirtualTime::from_millis(5000));
    let bytes = b"*5\r\n$3\r\nSET\r\n$1\r\nk\r\n$1\r\nv\r\n$2\r\nEX\r\n$16\r\n9223372036854775\r\n";
    let (v, _) = redis_sim::redis::RespParser::parse(bytes).unwrap();
    let cmd = Command::from_resp(&v).unwrap();
    let r = ex.execute(&cmd);
    eprintln!("SET k v EX 9223372036854775 -> {:?}", r);
    let p = std::panic::catch_unwind(std::panic::AssertUnwindSafe(|| ex.execute(&Command::Pttl("k".to_string()))));
    eprintln!("PTTL k -> {:?}", p.as_ref().map_err(|_| "PANIC"));
    let e = std::panic::catch_unwind(std::panic::AssertUnwindSafe(|| ex.execute(&Command::ExpireTime("k".to_string()))));
    eprintln!("EXPIRETIME k -> {:?}", e.as_ref().map_err(|_| "PANIC"));
    assert!(matches!(r, RespValue::Error(_)), "Redis rejects a time to live whose deadline does not fit");
}
