// Replay probes for C01 / C17 (unit string_key_ops): each test is a command sequence on the REAL CommandExecutor whose
// reply (or resulting keyspace) differs from Redis.  Run on a scratch copy of /repo:
//   cp replay-probe.rs <scratch>/tests/sko_probe.rs && cd <scratch> && RUSTC_WRAPPER= cargo test --offline --test sko_probe
use redis_sim::redis::{Command, CommandExecutor, RespValue, SDS};
use redis_sim::simulator::VirtualTime;

fn s(ex: &mut CommandExecutor, c: Command) -> String { format!("{:?}", ex.execute(&c)) }
fn bulk(b: &[u8]) -> String { format!("{:?}", RespValue::BulkString(Some(b.to_vec()))) }
fn set(ex: &mut CommandExecutor, k: &str, v: &str) { ex.execute(&Command::set(k.to_string(), SDS::from_str(v))); }

// string_key_ops/CommandExecutor::execute_getrange/ensures#2
// Redis (getrangeCommand): both offsets negative and start > end => "" (decided BEFORE the offsets are clamped to 0)
#[test]
fn getrange_both_negative_start_after_end() {
    let mut ex = CommandExecutor::new();
    set(&mut ex, "k", "abc");
    let r = s(&mut ex, Command::GetRange("k".to_string(), -5, -10));
    eprintln!("SET k abc; GETRANGE k -5 -10 -> {}   (Redis: \"\")", r);
    assert_eq!(r, bulk(b""));
}
// control: the ordinary cases agree
#[test]
fn getrange_controls() {
    let mut ex = CommandExecutor::new();
    set(&mut ex, "k", "This is a string");
    assert_eq!(s(&mut ex, Command::GetRange("k".to_string(), 0, 3)), bulk(b"This"));
    assert_eq!(s(&mut ex, Command::GetRange("k".to_string(), -3, -1)), bulk(b"ing"));
    assert_eq!(s(&mut ex, Command::GetRange("k".to_string(), 10, 100)), bulk(b"string"));
    assert_eq!(s(&mut ex, Command::GetRange("k".to_string(), -1, -5)), bulk(b""));
    assert_eq!(s(&mut ex, Command::GetRange("k".to_string(), -100, 3)), bulk(b"This"));
}

// string_key_ops/CommandExecutor::execute_setrange/ensures#3
// Redis (setrangeCommand): an EMPTY value changes nothing and replies the current length
#[test]
fn setrange_empty_value_on_existing_key_pads() {
    let mut ex = CommandExecutor::new();
    set(&mut ex, "k", "abc");
    let r = s(&mut ex, Command::SetRange("k".to_string(), 10, SDS::from_str("")));
    let l = s(&mut ex, Command::StrLen("k".to_string()));
    eprintln!("SET k abc; SETRANGE k 10 \"\" -> {}; STRLEN k -> {}   (Redis: 3, 3)", r, l);
    assert_eq!(r, "Integer(3)");
    assert_eq!(l, "Integer(3)");
}
#[test]
fn setrange_empty_value_on_absent_key_creates_it() {
    let mut ex = CommandExecutor::new();
    let r = s(&mut ex, Command::SetRange("k".to_string(), 5, SDS::from_str("")));
    let e = s(&mut ex, Command::Exists(vec!["k".to_string()]));
    eprintln!("SETRANGE k 5 \"\" (k absent) -> {}; EXISTS k -> {}   (Redis: 0, 0)", r, e);
    assert_eq!(r, "Integer(0)");
    assert_eq!(e, "Integer(0)");
}
// string_key_ops/CommandExecutor::execute_setrange/ensures#1
#[test]
fn setrange_empty_value_large_offset_is_not_an_error() {
    let mut ex = CommandExecutor::new();
    set(&mut ex, "k", "abc");
    let r = s(&mut ex, Command::SetRange("k".to_string(), 600_000_000, SDS::from_str("")));
    eprintln!("SET k abc; SETRANGE k 600000000 \"\" -> {}   (Redis: 3)", r);
    assert_eq!(r, "Integer(3)");
}

// string_key_ops/CommandExecutor::execute_del/ensures#1
// a key whose deadline has passed does not exist, whether or not the sweep has purged it: DEL must not count it
#[test]
fn del_counts_expired_unpurged_key() {
    let mut ex = CommandExecutor::new();
    ex.set_time(VirtualTime::from_millis(1_000));
    ex.execute(&Command::setex("k".to_string(), 1, SDS::from_str("v")));
    ex.update_time_readonly(VirtualTime::from_millis(5_000)); // time passes, no eviction sweep yet
    let e = s(&mut ex, Command::Exists(vec!["k".to_string()]));
    let r = s(&mut ex, Command::Del(vec!["k".to_string()]));
    eprintln!("SETEX k 1 v; (5 s pass); EXISTS k -> {}; DEL k -> {}   (Redis: 0, 0)", e, r);
    assert_eq!(e, "Integer(0)");
    assert_eq!(r, "Integer(0)");
}
// controls for DEL / EXISTS with duplicates
#[test]
fn del_exists_duplicates() {
    let mut ex = CommandExecutor::new();
    set(&mut ex, "k", "v");
    assert_eq!(s(&mut ex, Command::Exists(vec!["k".to_string(), "k".to_string(), "x".to_string()])), "Integer(2)");
    assert_eq!(s(&mut ex, Command::Del(vec!["k".to_string(), "k".to_string(), "x".to_string()])), "Integer(1)");
}

// observation (integer TEXT is uninterpreted in the unit): `str::parse::<i64>` accepts texts Redis' string2ll rejects
#[test]
fn incr_accepts_non_canonical_integers() {
    let mut ex = CommandExecutor::new();
    set(&mut ex, "a", "+5");
    set(&mut ex, "b", "007");
    set(&mut ex, "c", "-0");
    let a = s(&mut ex, Command::Incr("a".to_string()));
    let b = s(&mut ex, Command::Incr("b".to_string()));
    let c = s(&mut ex, Command::Incr("c".to_string()));
    eprintln!("SET a +5; INCR a -> {}; SET b 007; INCR b -> {}; SET c -0; INCR c -> {}   (Redis: ERR value is not an integer or out of range, three times)", a, b, c);
    assert!(a.starts_with("Error"), "{}", a);
    assert!(b.starts_with("Error"), "{}", b);
    assert!(c.starts_with("Error"), "{}", c);
}

// observation (KEYS replies are NOT under contract in this unit: the glob matcher is left out): Redis' glob syntax has
// `\x` = "match x literally"; the matcher treats the backslash as an ordinary character
#[test]
fn keys_backslash_escape() {
    let mut ex = CommandExecutor::new();
    set(&mut ex, "h*llo", "1");
    set(&mut ex, "hello", "2");
    let r = s(&mut ex, Command::Keys("h\\*llo".to_string()));
    eprintln!("SET h*llo 1; SET hello 2; KEYS h\\*llo -> {}   (Redis: [\"h*llo\"])", r);
    assert_eq!(r, format!("{:?}", RespValue::Array(Some(vec![RespValue::BulkString(Some(b"h*llo".to_vec()))]))));
}
