// Probe for unit watch_acl, obligation OptimizedConnectionHandler::check_acl_permission/safety (C17 "a command that fails
// changes nothing [and is answered by exactly one error reply]"; C04 one reply per command):
// `check_acl_permission` indexes `parts[0]` of `name.split_whitespace()` for `Command::Unknown(name)`; the command parser produces
// `Unknown("")` for an empty command name (`*1\r\n$0\r\n\r\n`) and `Unknown(" ")` for a blank one: the index panics, the connection
// task dies, the client gets no reply (and every later pipelined command of that connection is lost).
// Run on a scratch copy of the repository (never in /repo):
//   cp contracts/watch_acl/replay-probe.rs <copy>/tests/watch_acl_probe.rs
//   cd <copy> && RUSTC_WRAPPER= cargo test --offline --features verif-hooks --test watch_acl_probe -- --nocapture
#![cfg(feature = "verif-hooks")]
use redis_sim::production::{verif_serve_connection, ConnectionConfig, ShardedActorState};
use std::time::Duration;
use tokio::io::{AsyncReadExt, AsyncWriteExt};

fn show(b: &[u8]) -> String { String::from_utf8_lossy(b).replace('\r', "\\r").replace('\n', "\\n") }
fn cmd(words: &[&str]) -> Vec<u8> {
    let mut v = format!("*{}\r\n", words.len()).into_bytes();
    for w in words { v.extend_from_slice(format!("${}\r\n{}\r\n", w.len(), w).as_bytes()); }
    v
}
async fn say(client: &mut tokio::io::DuplexStream, bytes: &[u8]) -> Vec<u8> {
    let _ = client.write_all(bytes).await;
    let mut out = Vec::new();
    let mut buf = vec![0u8; 4096];
    loop {
        match tokio::time::timeout(Duration::from_millis(300), client.read(&mut buf)).await {
            Ok(Ok(n)) if n > 0 => out.extend_from_slice(&buf[..n]),
            _ => break,
        }
    }
    out
}
async fn one(name: &str) {
    let (mut client, server) = tokio::io::duplex(1 << 16);
    let state = ShardedActorState::with_shards(1);
    let task = tokio::spawn(async move { verif_serve_connection(server, state, ConnectionConfig::default()).await });
    println!("SET k v             -> {}", show(&say(&mut client, &cmd(&["SET", "k", "v"])).await));
    let mut piped = cmd(&[name]);
    piped.extend_from_slice(&cmd(&["GET", "k"]));
    let got = say(&mut client, &piped).await;
    println!("[{:?}] ; GET k   -> {}", name, show(&got));
    let _ = client.shutdown().await;
    let joined = tokio::time::timeout(Duration::from_secs(2), task).await;
    let panicked = matches!(&joined, Ok(Err(e)) if e.is_panic());
    println!("connection task panicked: {}", panicked);
    assert!(!panicked, "the connection task panicked on the command name {:?}", name);
    assert!(got.starts_with(b"-"), "a command with the name {:?} must be answered by one error reply, got: {}", name, show(&got));
    assert!(got.ends_with(b"$1\r\nv\r\n"), "the command after it must still be answered, got: {}", show(&got));
}

#[tokio::test]
async fn empty_command_name_gets_one_error_reply() { one("").await; }
#[tokio::test]
async fn blank_command_name_gets_one_error_reply() { one(" ").await; }
#[tokio::test]
async fn ordinary_unknown_command_gets_one_error_reply() { one("NOSUCHCMD").await; }
