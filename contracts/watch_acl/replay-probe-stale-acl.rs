// Probe for unit watch_acl (observation next to OptimizedConnectionHandler::user_has_unrestricted_keys; `acl` feature only):
// the gate of the paths that skip the per-key ACL checks reads the connection's CACHED copy of the user
// (`self.authenticated_user`), while check_acl_permission reads the user currently registered in the ACL manager ("the
// cached connection copy ... may be stale after ACL SETUSER modifications", its own comment).  After the user's key
// patterns have been narrowed, the cached copy still says `~*`: a plain GET / SET of a forbidden key takes the fast path
// and is executed, the same access through any other command is refused with NOPERM.
//   cp contracts/watch_acl/replay-probe-stale-acl.rs <copy>/tests/watch_acl_probe_stale.rs
//   cd <copy> && RUSTC_WRAPPER= cargo test --offline --features acl,verif-hooks --test watch_acl_probe_stale -- --nocapture
#![cfg(all(feature = "verif-hooks", feature = "acl"))]
use redis_sim::production::{verif_serve_connection, ConnectionConfig, ShardedActorState};
use std::time::Duration;
use tokio::io::{AsyncReadExt, AsyncWriteExt};

fn show(b: &[u8]) -> String { String::from_utf8_lossy(b).replace('\r', "\\r").replace('\n', "\\n") }
fn cmd(words: &[&str]) -> Vec<u8> {
    let mut v = format!("*{}\r\n", words.len()).into_bytes();
    for w in words { v.extend_from_slice(format!("${}\r\n{}\r\n", w.len(), w).as_bytes()); }
    v
}
async fn say(client: &mut tokio::io::DuplexStream, bytes: &[u8]) -> Vec<u8> {
    let _ = client.write_all(bytes).await;
    let mut out = Vec::new();
    let mut buf = vec![0u8; 4096];
    loop {
        match tokio::time::timeout(Duration::from_millis(300), client.read(&mut buf)).await {
            Ok(Ok(n)) if n > 0 => out.extend_from_slice(&buf[..n]),
            _ => break,
        }
    }
    out
}

#[tokio::test]
async fn narrowed_key_patterns_apply_to_the_fast_path_too() {
    let (mut client, server) = tokio::io::duplex(1 << 16);
    let state = ShardedActorState::with_shards(1);
    let task = tokio::spawn(async move { verif_serve_connection(server, state, ConnectionConfig::default()).await });
    println!("SET secret v                          -> {}", show(&say(&mut client, &cmd(&["SET", "secret", "v"])).await));
    println!("ACL SETUSER bob on >pw ~* +@all       -> {}", show(&say(&mut client, &cmd(&["ACL", "SETUSER", "bob", "on", ">pw", "~*", "+@all"])).await));
    println!("AUTH bob pw                           -> {}", show(&say(&mut client, &cmd(&["AUTH", "bob", "pw"])).await));
    println!("ACL SETUSER bob resetkeys ~allowed:*  -> {}", show(&say(&mut client, &cmd(&["ACL", "SETUSER", "bob", "resetkeys", "~allowed:*"])).await));
    let slow = say(&mut client, &cmd(&["EXISTS", "secret"])).await;
    println!("EXISTS secret (regular path)          -> {}", show(&slow));
    let fast_get = say(&mut client, &cmd(&["GET", "secret"])).await;
    println!("GET secret    (fast path)             -> {}", show(&fast_get));
    let fast_set = say(&mut client, &cmd(&["SET", "secret", "overwritten"])).await;
    println!("SET secret .. (fast path)             -> {}", show(&fast_set));
    let _ = client.shutdown().await;
    let _ = tokio::time::timeout(Duration::from_secs(2), task).await;
    assert!(slow.starts_with(b"-NOPERM"), "setup: the regular path must refuse the key, got {}", show(&slow));
    assert!(fast_get.starts_with(b"-NOPERM"), "GET of a key the user may no longer access was answered: {}", show(&fast_get));
    assert!(fast_set.starts_with(b"-NOPERM"), "SET of a key the user may no longer access was executed: {}", show(&fast_set));
}
