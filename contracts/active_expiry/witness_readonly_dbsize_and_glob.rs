//! Witness for active_expiry/CommandExecutor::execute_readonly/ensures#5 (C17 "reply equals what execute replies") and for the
//! stated deviations D1-D4 of the KEYS matcher.  Integration test of crate redis_sim (no Cargo change):
//!   RUSTC_WRAPPER= cargo test --offline --test verif_active_expiry_witness -- --nocapture
use redis_sim::redis::{Command, CommandExecutor, RespValue, SDS};

#[test]
fn dbsize_through_readonly_entry() {
    let mut ex = CommandExecutor::new();
    ex.execute(&Command::set("a".to_string(), SDS::new(b"1".to_vec())));
    ex.execute(&Command::set("b".to_string(), SDS::new(b"2".to_vec())));
    let rw = ex.execute(&Command::DbSize);
    let ro = ex.execute_readonly(&Command::DbSize);
    println!("execute(DBSIZE)          -> {:?}", rw);
    println!("execute_readonly(DBSIZE) -> {:?}", ro);
    // what ReplicatedShardedState::execute (arm Command::DbSize) does with the per-shard replies
    let total: i64 = vec![ro.clone()].into_iter().filter_map(|r| if let RespValue::Integer(n) = r { Some(n) } else { None }).sum();
    println!("replicated DBSIZE (sum of Integer replies) -> {}   (2 keys stored)", total);
    assert!(matches!(rw, RespValue::Integer(2)));
    assert!(matches!(ro, RespValue::Integer(2)), "execute_readonly(DBSIZE) must answer like execute");
}

#[test]
fn keys_deviations() {
    let mut ex = CommandExecutor::new();
    for k in ["*", "ab", "a", "m", "-", "]x"] {
        ex.execute(&Command::set(k.to_string(), SDS::new(b"v".to_vec())));
    }
    let show = |ex: &mut CommandExecutor, pat: &str, redis: &str| {
        let r = ex.execute(&Command::Keys(pat.to_string()));
        let mut got: Vec<String> = match r { RespValue::Array(Some(v)) => v.into_iter().map(|x| match x { RespValue::BulkString(Some(b)) => String::from_utf8(b).unwrap(), _ => "?".into() }).collect(), _ => vec![] };
        got.sort();
        println!("KEYS {:8} -> {:?}   (Redis: {})", pat, got, redis);
    };
    show(&mut ex, "\\*", "[\"*\"]                 D1 escape");
    show(&mut ex, "[a", "[\"a\"]                 D2 unterminated class");
    show(&mut ex, "[z-a]", "[\"a\", \"m\"]            D3 reversed range");
    show(&mut ex, "[a-]x]", "[\"a\"] (range a..], then x)   D4");
    show(&mut ex, "[a-c]*", "[\"a\", \"ab\"]           conforming");
}
