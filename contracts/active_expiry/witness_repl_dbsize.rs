use redis_sim::production::ReplicatedShardedState;
use redis_sim::replication::ReplicationConfig;
use redis_sim::redis::{Command, RespValue, SDS};
#[tokio::test]
async fn replicated_dbsize_counts_keys() {
    let st = ReplicatedShardedState::new(ReplicationConfig { enabled: true, replica_id: 1, ..Default::default() });
    for k in ["a", "b", "c"] {
        let r = st.execute(Command::set(k.to_string(), SDS::new(b"v".to_vec()))).await;
        println!("SET {} -> {:?}", k, r);
    }
    let r = st.execute(Command::DbSize).await;
    println!("DBSIZE -> {:?}", r);
    assert!(matches!(r, RespValue::Integer(3)), "DBSIZE on the replicated node must count the 3 keys, got {:?}", r);
}
