// @append-to: src/streaming/wal.rs
// Kani harnesses for the WAL entry codec (C10, C14).  Appended to a scratch copy of wal.rs by
// /verif/engine/kani_run.py; a child module sees the private items of the file.
//
// crc32fast::hash is STUBBED (its SIMD/table code is irrelevant to the framing and very slow in CBMC)
// by a loop-free deterministic function of the length and of the first and last byte.  Every
// statement below that involves a checksum is therefore relative to "some deterministic checksum
// function", exactly as the Verus unit wal_codec treats `crc` (uninterpreted).
#[cfg(kani)]
mod verif_kani_wal {
    use super::*;

    fn crc_stub(buf: &[u8]) -> u32 {
        let n = buf.len() as u32;
        if buf.is_empty() {
            0x9E37_79B9
        } else {
            n.wrapping_mul(0x0100_0193) ^ ((buf[0] as u32) << 8) ^ (buf[buf.len() - 1] as u32)
        }
    }

    // The little-endian spec functions of the Verus units (le32 / le64 / to_le32 / to_le64), verbatim.
    fn le32(b: [u8; 4]) -> u32 {
        (b[0] as u32) | ((b[1] as u32) << 8) | ((b[2] as u32) << 16) | ((b[3] as u32) << 24)
    }
    fn le64(b: [u8; 8]) -> u64 {
        (b[0] as u64) | ((b[1] as u64) << 8) | ((b[2] as u64) << 16) | ((b[3] as u64) << 24)
            | ((b[4] as u64) << 32) | ((b[5] as u64) << 40) | ((b[6] as u64) << 48) | ((b[7] as u64) << 56)
    }
    fn to_le32(x: u32) -> [u8; 4] {
        [(x & 0xff) as u8, ((x >> 8) & 0xff) as u8, ((x >> 16) & 0xff) as u8, ((x >> 24) & 0xff) as u8]
    }
    fn to_le64(x: u64) -> [u8; 8] {
        [(x & 0xff) as u8, ((x >> 8) & 0xff) as u8, ((x >> 16) & 0xff) as u8, ((x >> 24) & 0xff) as u8,
         ((x >> 32) & 0xff) as u8, ((x >> 40) & 0xff) as u8, ((x >> 48) & 0xff) as u8, ((x >> 56) & 0xff) as u8]
    }

    // @harness: le_shims_match_std
    // @bound: none (loop-free, all 2^32 / 2^64 values and all byte arrays)
    // @tier: quick
    // @complete: true
    #[kani::proof]
    fn le_shims_match_std() {
        // exactly the assumed contracts of vshim::{u32,u64}_from_le_bytes and VLe32/VLe64::v_to_le_bytes
        let b4: [u8; 4] = kani::any();
        let b8: [u8; 8] = kani::any();
        let x4: u32 = kani::any();
        let x8: u64 = kani::any();
        assert!(u32::from_le_bytes(b4) == le32(b4));
        assert!(u64::from_le_bytes(b8) == le64(b8));
        assert!(x4.to_le_bytes() == to_le32(x4));
        assert!(x8.to_le_bytes() == to_le64(x8));
        kani::cover!(true);
    }

    // @harness: wal_header_roundtrip_len0
    // @bound: payload length 0 (header only): encodes to 16 bytes and is refused by decode; timestamp over all of u64; loop-free
    // @tier: quick
    // @complete: true
    #[kani::proof]
    #[kani::stub(crc32fast::hash, crc_stub)]
    fn wal_header_roundtrip_len0() {
        let timestamp: u64 = kani::any();
        let data: Vec<u8> = Vec::new();
        let checksum = crc32fast::hash(&data);
        let e = WalEntry { data, timestamp, checksum };
        assert!(e.validate());
        let bytes = e.encode();
        assert!(bytes.len() == 16 && bytes.len() == e.disk_size());
        // header layout, bit-precise, with the real to_le_bytes
        assert!(bytes[0] == 0 && bytes[1] == 0 && bytes[2] == 0 && bytes[3] == 0);
        let ts = to_le64(timestamp);
        assert!(bytes[4] == ts[0] && bytes[5] == ts[1] && bytes[6] == ts[2] && bytes[7] == ts[3]
            && bytes[8] == ts[4] && bytes[9] == ts[5] && bytes[10] == ts[6] && bytes[11] == ts[7]);
        let ck = to_le32(checksum);
        assert!(bytes[12] == ck[0] && bytes[13] == ck[1] && bytes[14] == ck[2] && bytes[15] == ck[3]);
        // and back: an entry with NO payload is not an entry (a zero-filled region must not decode as one - the CRC-32
        // of no bytes is 0); the real decoder refuses it for every stamp
        assert!(WalEntry::decode(&bytes).is_none());
        kani::cover!(true);
    }

    // @harness: wal_decode_any_header
    // @bound: every 16-byte input (2^128 headers) is refused; loop-free
    // @tier: quick
    // @complete: true
    #[kani::proof]
    #[kani::stub(crc32fast::hash, crc_stub)]
    fn wal_decode_any_header() {
        let h: [u8; 16] = kani::any();
        // only an entry with an empty payload would fit into 16 bytes, and an entry is never empty: every 16-byte
        // input is refused (in particular sixteen zero bytes)
        assert!(WalEntry::decode(&h).is_none());
        kani::cover!(true);
    }

    // @harness: wal_roundtrip_payload_le8_tail3
    // @bound: payload 1..=8 bytes (all contents, all timestamps), followed by a 3-byte tail of arbitrary content; unwind 10
    // @tier: quick
    // @complete: false
    #[kani::proof]
    #[kani::unwind(10)]
    #[kani::stub(crc32fast::hash, crc_stub)]
    fn wal_roundtrip_payload_le8_tail3() {
        let payload: [u8; 8] = kani::any();
        let len: usize = kani::any();
        kani::assume(1 <= len && len <= 8);
        let tail: [u8; 3] = kani::any();
        let timestamp: u64 = kani::any();
        let data = payload[..len].to_vec();
        let checksum = crc_stub(&data);
        let e = WalEntry { data, timestamp, checksum };
        let mut bytes = e.encode();
        assert!(bytes.len() == 16 + len);
        bytes.extend_from_slice(&tail);
        match WalEntry::decode(&bytes) {
            Some((d, n)) => {
                assert!(n == 16 + len);
                assert!(d.timestamp == timestamp);
                assert!(d.checksum == checksum);
                assert!(d.data.len() == len);
                let mut i = 0;
                while i < len {
                    assert!(d.data[i] == payload[i]);
                    i += 1;
                }
            }
            None => assert!(false),
        }
        kani::cover!(len == 8);
    }

    // @harness: wal_roundtrip_payload_le8
    // @bound: payload 1..=8 bytes, tail <= 4 bytes (all contents, all timestamps); unwind 10
    // @tier: thorough
    // @complete: false
    #[kani::proof]
    #[kani::unwind(10)]
    #[kani::stub(crc32fast::hash, crc_stub)]
    fn wal_roundtrip_payload_le8() {
        let payload: [u8; 8] = kani::any();
        let len: usize = kani::any();
        kani::assume(1 <= len && len <= 8);
        let tail: [u8; 4] = kani::any();
        let tail_len: usize = kani::any();
        kani::assume(tail_len <= 4);
        let timestamp: u64 = kani::any();
        let data = payload[..len].to_vec();
        let checksum = crc_stub(&data);
        let e = WalEntry { data, timestamp, checksum };
        let mut bytes = e.encode();
        assert!(bytes.len() == 16 + len);
        bytes.extend_from_slice(&tail[..tail_len]);
        match WalEntry::decode(&bytes) {
            Some((d, n)) => {
                assert!(n == 16 + len);
                assert!(d.timestamp == timestamp);
                assert!(d.checksum == checksum);
                assert!(d.data.len() == len);
                let mut i = 0;
                while i < len {
                    assert!(d.data[i] == payload[i]);
                    i += 1;
                }
            }
            None => assert!(false),
        }
        kani::cover!(len == 8 && tail_len == 4);
    }

    // @harness: wal_decode_total_le24
    // @bound: every input of at most 24 bytes; unwind 10
    // @tier: quick
    // @complete: false
    #[kani::proof]
    #[kani::unwind(10)]
    #[kani::stub(crc32fast::hash, crc_stub)]
    fn wal_decode_total_le24() {
        let buf: [u8; 24] = kani::any();
        let len: usize = kani::any();
        kani::assume(len <= 24);
        // no panic, no out-of-range access, no overflow (Kani checks them all) ...
        match WalEntry::decode(&buf[..len]) {
            Some((d, n)) => {
                // ... and whatever is returned lies inside the input and passed the checksum
                assert!(n <= len && n == 16 + d.data.len());
                assert!(d.checksum == crc_stub(&d.data));
                assert!(d.checksum == le32([buf[12], buf[13], buf[14], buf[15]]));
                let mut i = 0;
                while i < d.data.len() {
                    assert!(d.data[i] == buf[16 + i]);
                    i += 1;
                }
            }
            None => {}
        }
        kani::cover!(len == 24);
    }
}
