// Probes for unit sync_protocol (run against the real crate)
use redis_sim::redis::{Command, SDS};
use redis_sim::replication::anti_entropy::{AntiEntropyConfig, AntiEntropyManager, StateDigest};
use redis_sim::replication::lattice::{GCounter, LamportClock, ReplicaId};
use redis_sim::replication::state::{CrdtValue, ReplicatedValue};
use redis_sim::simulator::multi_node::MultiNodeSimulation;
use std::collections::HashMap;

fn digest(r: ReplicaId) -> StateDigest {
    StateDigest::from_state(&HashMap::new(), r, 0, 4)
}

// D1: should_sync(peer, now) with now < last sync time: `current_time - last_sync` on u64
#[test]
fn d1_should_sync_clock_behind_last_sync() {
    let r1 = ReplicaId::new(1);
    let r2 = ReplicaId::new(2);
    let mut m = AntiEntropyManager::new(r1, AntiEntropyConfig::default());
    let _ = m.create_sync_request(r2, digest(r1), None, 100); // synced at t = 100
    let res = std::panic::catch_unwind(std::panic::AssertUnwindSafe(|| m.should_sync(r2, 50)));
    match res {
        Err(_) => println!("D1 should_sync(peer, 50) after a sync at 100: PANIC (attempt to subtract with overflow)"),
        Ok(b) => println!("D1 should_sync(peer, 50) after a sync at 100, interval 1000: returned {} (wrapped difference = {})", b, 50u64.wrapping_sub(100)),
    }
    let res = std::panic::catch_unwind(std::panic::AssertUnwindSafe(|| m.peers_needing_sync(50)));
    match res {
        Err(_) => println!("D1 peers_needing_sync(50) after a sync at 100: PANIC (attempt to subtract with overflow)"),
        Ok(v) => println!("D1 peers_needing_sync(50) after a sync at 100, interval 1000: {:?}", v),
    }
}

// D2: check_key_convergence compares only the lossy-UTF-8 rendering of a live LWW string payload
#[test]
fn d2_weak_oracle() {
    // (a) a counter of value 1 on node 0, nothing on node 1
    let mut sim = MultiNodeSimulation::new(2, 1);
    let r1 = ReplicaId::new(1);
    let mut g = GCounter::new();
    g.increment(r1);
    sim.nodes[0].replica_state.replicated_keys.insert("k".to_string(), ReplicatedValue::with_crdt(CrdtValue::GCounter(g), r1));
    println!("D2a counter on node 0, key absent on node 1: check_key_convergence = {}  values = {:?}", sim.check_key_convergence("k"), sim.get_all_values("k"));
    // (b) tombstone on node 0, absent on node 1
    let mut sim = MultiNodeSimulation::new(2, 1);
    sim.execute(1, 0, Command::set("k".into(), SDS::from_str("v")));
    sim.execute(1, 0, Command::del("k".into()));
    println!("D2b tombstone on node 0, key absent on node 1: check_key_convergence = {}", sim.check_key_convergence("k"));
    // (c) same payload, different stamps (two independent writes of the same string): a later merge picks by stamp
    let mut sim = MultiNodeSimulation::new(2, 1);
    sim.execute(1, 0, Command::set("k".into(), SDS::from_str("v")));
    sim.execute(1, 1, Command::set("k".into(), SDS::from_str("v")));
    let t0 = sim.nodes[0].replica_state.replicated_keys["k"].timestamp;
    let t1 = sim.nodes[1].replica_state.replicated_keys["k"].timestamp;
    println!("D2c same payload, stamps {:?} vs {:?}: check_key_convergence = {}", t0, t1, sim.check_key_convergence("k"));
    // (d) different non-UTF-8 payloads
    let mut sim = MultiNodeSimulation::new(2, 1);
    sim.execute(1, 0, Command::set("k".into(), SDS::new(vec![0xff])));
    sim.execute(1, 1, Command::set("k".into(), SDS::new(vec![0xfe])));
    println!("D2d payloads [0xff] vs [0xfe]: check_key_convergence = {}  values = {:?}", sim.check_key_convergence("k"), sim.get_all_values("k"));
}

// D3: converge() returns true whatever happened
#[test]
fn d3_converge_always_true() {
    let mut sim = MultiNodeSimulation::new(2, 1);
    sim.partition(0, 1);
    sim.execute(1, 0, Command::set("k".into(), SDS::from_str("v")));
    let r = sim.converge(5);
    println!("D3 nodes partitioned: converge(5) = {}  check_key_convergence = {}  values = {:?}", r, sim.check_key_convergence("k"), sim.get_all_values("k"));
}

// D4: a queued message whose endpoints were partitioned after it was sent blocks every later delivery (head-of-line)
#[test]
fn d4_head_of_line_blocking() {
    let mut sim = MultiNodeSimulation::new(3, 7);
    sim.execute(1, 0, Command::set("a".into(), SDS::from_str("1")));
    sim.gossip_round(); // 0->1 and 0->2 queued with a delay of 1..10 ms, nothing delivered yet (time has not advanced)
    println!("D4 queue after first round: {:?}", sim.message_queue.iter().map(|m| (m.from, m.to)).collect::<Vec<_>>());
    sim.partition(0, 1); // the head of the queue (0->1) is now undeliverable
    sim.execute(2, 2, Command::set("b".into(), SDS::from_str("2"))); // node 2 is connected to both
    let _ = sim.converge(50);
    println!("D4 after 50 rounds (500 ms): queue = {:?}", sim.message_queue.iter().map(|m| (m.from, m.to)).collect::<Vec<_>>());
    println!("D4 key a (written on 0; 0-2 connected): {:?}", sim.get_all_values("a"));
    println!("D4 key b (written on 2; connected to 0 and 1): {:?}", sim.get_all_values("b"));
}
