// Probe for unit sharded_ctor (C03 frame): a ShardedActorState with ZERO shards can be built - every field of ShardConfig is
// `pub`, and the constructors compute `initial_shards.max(min_shards).min(max_shards)` without a lower bound - and the first
// keyed command then divides by zero in hash_key / hash_key_bytes (`% num_shards`; in a debug build their debug_assert fires).
//
// Run on a scratch copy of the repository (never in /repo):
//   cp contracts/sharded_ctor/probe-zero-shards.rs <copy>/tests/sharded_ctor_probe.rs
//   cd <copy> && RUSTC_WRAPPER= cargo test --offline --release --test sharded_ctor_probe -- --nocapture --test-threads=1
// Expected on the pinned tree: both `zero_shards_*` tests report `panicked: true` (release: "attempt to calculate the remainder
// with a divisor of zero").  With fix-candidate.patch: one shard is built and the commands are answered.
use redis_sim::production::{PerformanceConfig, ShardConfig, ShardedActorState};
use redis_sim::redis::Command;

fn zero_cap() -> ShardConfig {
    // "no upper limit configured" is a natural reading of max_shards = 0
    ShardConfig { initial_shards: 4, min_shards: 1, max_shards: 0, ..ShardConfig::default() }
}
fn zero_min() -> ShardConfig {
    ShardConfig { initial_shards: 0, min_shards: 0, ..ShardConfig::default() }
}

async fn drive(config: ShardConfig) -> (usize, bool) {
    let state = ShardedActorState::with_config(config);
    let n = state.num_shards();
    let s2 = state.clone();
    // the command runs in its own task so that the panic is observable as a JoinError
    let h = tokio::spawn(async move { s2.execute(&Command::Get("k".to_string())).await });
    let panicked = match h.await { Ok(_) => false, Err(e) => e.is_panic() };
    (n, panicked)
}

#[tokio::test]
async fn zero_shards_through_max_shards_0() {
    let (n, panicked) = drive(zero_cap()).await;
    println!("PROBE max_shards=0: num_shards() = {n}, GET k panicked: {panicked}");
    assert!(n > 0, "a state with 0 shards was built (GET panicked: {panicked})");
}

#[tokio::test]
async fn zero_shards_through_initial_0_min_0() {
    let (n, panicked) = drive(zero_min()).await;
    println!("PROBE initial=0,min=0: num_shards() = {n}, GET k panicked: {panicked}");
    assert!(n > 0, "a state with 0 shards was built (GET panicked: {panicked})");
}

#[tokio::test]
async fn fast_path_too() {
    let state = ShardedActorState::with_config(zero_cap());
    let s2 = state.clone();
    let h = tokio::spawn(async move { s2.fast_set(bytes::Bytes::from_static(b"k"), bytes::Bytes::from_static(b"v")).await });
    let panicked = match h.await { Ok(_) => false, Err(e) => e.is_panic() };
    println!("PROBE fast_set on {} shards panicked: {panicked}", state.num_shards());
    assert!(!panicked);
}

// the perf-config path: an UNVALIDATED PerformanceConfig with num_shards = 0 is raised to 1 (ShardConfig::with_shards sets
// min_shards = 1), 512 is capped to 256: with_perf_config alone never builds 0 shards
#[tokio::test]
async fn perf_config_path_is_clamped() {
    let mut p = PerformanceConfig::default();
    p.num_shards = 0;
    assert_eq!(ShardedActorState::with_perf_config(&p).num_shards(), 1);
    p.num_shards = 512;
    assert_eq!(ShardedActorState::with_perf_config(&p).num_shards(), 256);
}
