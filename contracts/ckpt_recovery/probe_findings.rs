//! HOW TO RUN: copy /verif/replay to a scratch dir, add this file as src/ckpt_findings.rs, `mod ckpt_findings;` and the dispatch line
//!   "ckpt_findings" => ckpt_findings::search(&pid, &oid, seed),   in src/main.rs; then `verif-replay C11 ckpt_findings/A 1` (header vs manifest entry)
//!   and `verif-replay C11 ckpt_findings/B 1` (checkpoint before the first segment).
//! Throw-away probes for unit ckpt_recovery (NOT part of the standing battery): scenarios that only use public API of the crate.
use crate::deltas::lc;
use crate::Found;
use redis_sim::redis::SDS;
use redis_sim::replication::lattice::ReplicaId;
use redis_sim::replication::state::{ReplicatedValue, ReplicationDelta};
use redis_sim::streaming::{CheckpointConfig, CheckpointInfo, CheckpointManager, CheckpointReader, InMemoryObjectStore, ManifestManager, ObjectStore, RecoveryManager, StreamingPersistence, WriteBufferConfig};
use std::collections::HashMap;
use std::sync::Arc;

fn set(key: &str, t: u64) -> ReplicationDelta { ReplicationDelta::new(key.to_string(), ReplicatedValue::with_value(SDS::from_str(&format!("{}@{}", key, t)), lc(t, 1)), ReplicaId(1)) }

/// A: the manifest entry says last_segment_id = 2, the checkpoint object's own (checksummed) header says 0 and holds segment 0 only
async fn header_vs_manifest() -> Option<Found> {
    let store = InMemoryObjectStore::new();
    let prefix = "t".to_string();
    let mut p = StreamingPersistence::new(Arc::new(store.clone()), prefix.clone(), 1, WriteBufferConfig::test()).await.ok()?;
    let mut ids = Vec::new();
    for (k, t) in [("a", 10u64), ("b", 20), ("c", 30)] { let _ = p.push(set(k, t)); ids.push(p.flush().await.ok()?.segment?.id); }
    let mm = ManifestManager::new(store.clone(), &prefix);
    let cm = CheckpointManager::new(Arc::new(store.clone()), prefix.clone(), mm.clone(), CheckpointConfig::test());
    let mut state = HashMap::new(); state.insert("a".to_string(), set("a", 10).value);
    let res = cm.create_checkpoint(state, ids[0]).await.ok()?;          // the object: state of segment 0, header last_segment_id = 0
    let mut m = mm.load().await.ok()?;
    m.checkpoint = Some(CheckpointInfo { key: res.key.clone(), timestamp_ms: res.timestamp_ms, key_count: 99, last_segment_id: ids[2] });   // the manifest entry: 2 (and a wrong key count)
    m.version += 1;
    mm.save(&m).await.ok()?;
    let bytes = store.get(&res.key).await.ok()?;
    let hdr_last = CheckpointReader::open(&bytes).ok()?.last_segment_id();
    let rm = RecoveryManager::new(store.clone(), &prefix, 1);
    match rm.recover_with_progress(|_| {}).await {
        Ok(r) => Some(Found { input: format!("segments {:?} hold SET a@10, SET b@20, SET c@30; checkpoint object {} holds {{a}} and its header says last_segment_id = {}; the manifest entry for it says last_segment_id = {}, key_count = 99", ids, res.key, hdr_last, ids[2]),
            observed: format!("recover_with_progress -> Ok: checkpoint of {} keys, {} deltas (segments skipped: {}) - b and c are gone", r.checkpoint_state.map(|s| s.len()).unwrap_or(0), r.deltas.len(), r.stats.segments_skipped),
            required: "the object is not the checkpoint the manifest describes: recovery fails (or loads every segment above the header's own last_segment_id)".into() }),
        Err(_) => None,
    }
}

/// B: a checkpoint taken before the first flush can only say last_segment_id = 0, which is also the id of the first segment
async fn checkpoint_before_first_segment() -> Option<Found> {
    let store = InMemoryObjectStore::new();
    let prefix = "t".to_string();
    let mut p = StreamingPersistence::new(Arc::new(store.clone()), prefix.clone(), 1, WriteBufferConfig::test()).await.ok()?;
    let mm = ManifestManager::new(store.clone(), &prefix);
    let cm = CheckpointManager::new(Arc::new(store.clone()), prefix.clone(), mm.clone(), CheckpointConfig::test());
    let res = cm.create_checkpoint(HashMap::new(), 0).await.ok()?;      // nothing persisted yet: an empty checkpoint "covering" nothing
    let mut m = mm.load_or_create(1).await.ok()?;
    m.checkpoint = Some(CheckpointInfo { key: res.key.clone(), timestamp_ms: res.timestamp_ms, key_count: res.key_count, last_segment_id: res.last_segment_id });
    m.version += 1;
    mm.save(&m).await.ok()?;
    let _ = p.push(set("first", 5));
    let flushed = std::panic::AssertUnwindSafe(p.flush());
    let fr = futures_lite_catch(flushed).await;
    let seg_id = match fr { Ok(Ok(r)) => r.segment.map(|s| s.id), Ok(Err(e)) => return Some(Found { input: "empty checkpoint (last_segment_id 0) installed before the first flush".into(), observed: format!("flush failed: {}", e), required: "flush succeeds".into() }), Err(msg) => return Some(Found { input: "empty checkpoint (last_segment_id 0) installed before the first flush; then SET first@5 is pushed and flushed".into(), observed: format!("flush panicked: {}", msg), required: "flush succeeds and the update is recoverable".into() }) };
    let rm = RecoveryManager::new(store.clone(), &prefix, 1);
    let r = rm.recover_with_progress(|_| {}).await.ok()?;
    if r.deltas.is_empty() {
        return Some(Found { input: format!("empty checkpoint (last_segment_id 0) installed before the first flush; then SET first@5 is flushed into segment id {:?}", seg_id), observed: format!("recovery: checkpoint of {} keys, {} deltas, {} segments skipped - the update is gone", r.checkpoint_state.map(|s| s.len()).unwrap_or(0), r.deltas.len(), r.stats.segments_skipped), required: "SET first@5 is recovered".into() });
    }
    None
}

async fn futures_lite_catch<F: std::future::Future + std::panic::UnwindSafe>(f: F) -> Result<F::Output, String> {
    use std::panic::catch_unwind;
    // poll the future to completion on the current runtime, catching a panic of any poll
    let mut f = Box::pin(f);
    std::future::poll_fn(move |cx| {
        let r = catch_unwind(std::panic::AssertUnwindSafe(|| f.as_mut().poll(cx)));
        match r { Ok(std::task::Poll::Ready(v)) => std::task::Poll::Ready(Ok(v)), Ok(std::task::Poll::Pending) => std::task::Poll::Pending, Err(e) => std::task::Poll::Ready(Err(e.downcast_ref::<String>().cloned().or_else(|| e.downcast_ref::<&str>().map(|s| s.to_string())).unwrap_or_else(|| "panic".into()))) }
    }).await
}

pub fn search(_pid: &str, oid: &str, _seed: u64) -> Option<Found> {
    let rt = tokio::runtime::Builder::new_current_thread().enable_all().build().ok()?;
    let which = oid.to_string();
    rt.block_on(async move {
        if which.ends_with("/B") { checkpoint_before_first_segment().await } else { header_vs_manifest().await }
    })
}
