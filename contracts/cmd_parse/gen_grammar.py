# Table from which grammar_fixed.vt, dispatch.vt and ../cmd_parse2/dispatch.vt were generated (hand-written from the Redis command
# documentation and the Command enum).  Re-run after editing the table: python3 gen_grammar.py
# Generates the per-command grammar functions of the fixed-shape commands from a hand-written table.
# entry: (NAMES, arity-violated predicate over n, arity error text, [extractions], constructor, optional list of (after_index, cond, errtext))
# extraction kinds: s=x_string b=x_sds i=x_integer l=x_i64 u=x_u64 f=x_float  S=x_strings(from..n) B=x_sdss(from..n)
import sys
WN = lambda c: "ERR wrong number of arguments for '%s' command" % c
T = []
def simple(names, bad, err, ex, ctor, checks=None): T.append(('simple', names, bad, err, ex, ctor, checks or {}))
def const(names, ctor): T.append(('const', names, ctor))
def custom(names, fn): T.append(('custom', names, fn))
def opened(names): T.append(('open', names))

custom('PING', 'g_ping')
const('INFO', 'Info'); const('TIME', 'Time'); const('DBSIZE', 'DbSize')
custom('CONFIG', 'g_config')
simple('SELECT', 'n != 2', WN('select'), ['u1'], 'Select(a1)', {1: ('a1 > 15', 'ERR DB index is out of range')})
simple('ECHO', 'n != 2', WN('echo'), ['b1'], 'Echo(a1)')
custom('AUTH', 'g_auth')
custom('ACL', 'g_acl')
const('FLUSHDB', 'FlushDb'); const('FLUSHALL', 'FlushAll'); const('MULTI', 'Multi'); const('EXEC', 'Exec'); const('DISCARD', 'Discard')
simple('WATCH', 'n < 2', 'WATCH requires at least 1 argument', ['S1'], 'Watch(a1)')
const('UNWATCH', 'Unwatch')
custom('EVAL', 'g_eval'); custom('EVALSHA', 'g_evalsha'); custom('SCRIPT', 'g_script')
simple('GET', 'n != 2', WN('get'), ['s1'], 'Get(a1)')
custom('SET', 'g_set')
simple('SETEX', 'n != 4', 'SETEX requires 3 arguments', ['s1', 'i2', 'b3'],
       'Set { key: a1, value: a3, ex: Some(a2 as i64), px: None, exat: None, pxat: None, nx: false, xx: false, get: false, keepttl: false }')
simple('SETNX', 'n != 3', 'SETNX requires 2 arguments', ['s1', 'b2'], 'SetNx(a1, a2)')
simple('DEL', 'n < 2', 'DEL requires at least 1 argument', ['S1'], 'Del(a1)')
simple('EXISTS', 'n < 2', 'EXISTS requires at least 1 argument', ['S1'], 'Exists(a1)')
simple('TYPE', 'n != 2', 'TYPE requires 1 argument', ['s1'], 'TypeOf(a1)')
simple('KEYS', 'n != 2', 'KEYS requires 1 argument', ['s1'], 'Keys(a1)')
custom('EXPIRE', 'g_expire'); custom('PEXPIRE', 'g_pexpire')
simple('EXPIREAT', 'n != 3', 'EXPIREAT requires 2 arguments', ['s1', 'i2'], 'ExpireAt(a1, a2 as i64)')
simple('PEXPIREAT', 'n != 3', 'PEXPIREAT requires 2 arguments', ['s1', 'i2'], 'PExpireAt(a1, a2 as i64)')
simple('TTL', 'n != 2', 'TTL requires 1 argument', ['s1'], 'Ttl(a1)')
simple('PTTL', 'n != 2', 'PTTL requires 1 argument', ['s1'], 'Pttl(a1)')
simple('PERSIST', 'n != 2', 'PERSIST requires 1 argument', ['s1'], 'Persist(a1)')
simple('INCR', 'n != 2', WN('incr'), ['s1'], 'Incr(a1)')
simple('DECR', 'n != 2', WN('decr'), ['s1'], 'Decr(a1)')
simple('INCRBY', 'n != 3', WN('incrby'), ['s1', 'i2'], 'IncrBy(a1, a2 as i64)')
simple('DECRBY', 'n != 3', WN('decrby'), ['s1', 'i2'], 'DecrBy(a1, a2 as i64)')
simple('APPEND', 'n != 3', 'APPEND requires 2 arguments', ['s1', 'b2'], 'Append(a1, a2)')
simple('GETSET', 'n != 3', 'GETSET requires 2 arguments', ['s1', 'b2'], 'GetSet(a1, a2)')
simple('STRLEN', 'n != 2', 'STRLEN requires 1 argument', ['s1'], 'StrLen(a1)')
simple('MGET', 'n < 2', 'MGET requires at least 1 argument', ['S1'], 'MGet(a1)')
custom('MSET', 'g_mset'); custom('MSETNX', 'g_msetnx')
# LPUSH / RPUSH / SADD: the two parsers DISAGREE on the arity error text (finding F2); Redis: "ERR wrong number of arguments for 'lpush' command"
simple('LPUSH', 'n < 3', WN('lpush'), ['s1', 'B2'], 'LPush(a1, a2)')
simple('RPUSH', 'n < 3', WN('rpush'), ['s1', 'B2'], 'RPush(a1, a2)')
simple('LPOP', 'n != 2', 'LPOP requires 1 argument', ['s1'], 'LPop(a1)')
simple('RPOP', 'n != 2', 'RPOP requires 1 argument', ['s1'], 'RPop(a1)')
simple('LRANGE', 'n != 4', 'LRANGE requires 3 arguments', ['s1', 'i2', 'i3'], 'LRange(a1, a2, a3)')
simple('LLEN', 'n != 2', 'LLEN requires 1 argument', ['s1'], 'LLen(a1)')
simple('LINDEX', 'n != 3', 'LINDEX requires 2 arguments', ['s1', 'i2'], 'LIndex(a1, a2)')
simple('LSET', 'n != 4', 'LSET requires 3 arguments', ['s1', 'i2', 'b3'], 'LSet(a1, a2, a3)')
simple('LTRIM', 'n != 4', 'LTRIM requires 3 arguments', ['s1', 'i2', 'i3'], 'LTrim(a1, a2, a3)')
simple('RPOPLPUSH', 'n != 3', 'RPOPLPUSH requires 2 arguments', ['s1', 's2'], 'RPopLPush(a1, a2)')
custom('LMOVE', 'g_lmove')
simple('SADD', 'n < 3', WN('sadd'), ['s1', 'B2'], 'SAdd(a1, a2)')
simple('SMEMBERS', 'n != 2', 'SMEMBERS requires 1 argument', ['s1'], 'SMembers(a1)')
simple('SISMEMBER', 'n != 3', 'SISMEMBER requires 2 arguments', ['s1', 'b2'], 'SIsMember(a1, a2)')
simple('SREM', 'n < 3', 'SREM requires at least 2 arguments', ['s1', 'B2'], 'SRem(a1, a2)')
simple('SCARD', 'n != 2', 'SCARD requires 1 argument', ['s1'], 'SCard(a1)')
custom('SPOP', 'g_spop')
custom('HSET', 'g_hset')
simple('HGET', 'n != 3', 'HGET requires 2 arguments', ['s1', 'b2'], 'HGet(a1, a2)')
simple('HGETALL', 'n != 2', 'HGETALL requires 1 argument', ['s1'], 'HGetAll(a1)')
simple('HINCRBY', 'n != 4', 'HINCRBY requires 3 arguments', ['s1', 'b2', 'l3'], 'HIncrBy(a1, a2, a3)')
simple('HDEL', 'n < 3', 'HDEL requires at least 2 arguments', ['s1', 'B2'], 'HDel(a1, a2)')
simple('HKEYS', 'n != 2', 'HKEYS requires 1 argument', ['s1'], 'HKeys(a1)')
simple('HVALS', 'n != 2', 'HVALS requires 1 argument', ['s1'], 'HVals(a1)')
simple('HLEN', 'n != 2', 'HLEN requires 1 argument', ['s1'], 'HLen(a1)')
simple('HEXISTS', 'n != 3', 'HEXISTS requires 2 arguments', ['s1', 'b2'], 'HExists(a1, a2)')
custom('ZADD', 'g_zadd'); custom('ZRANGE', 'g_zrange'); custom('ZREVRANGE', 'g_zrevrange')
simple('ZSCORE', 'n != 3', 'ZSCORE requires 2 arguments', ['s1', 'b2'], 'ZScore(a1, a2)')
simple('ZREM', 'n < 3', 'ZREM requires at least 2 arguments', ['s1', 'B2'], 'ZRem(a1, a2)')
simple('ZRANK', 'n != 3', 'ZRANK requires 2 arguments', ['s1', 'b2'], 'ZRank(a1, a2)')
simple('ZCARD', 'n != 2', 'ZCARD requires 1 argument', ['s1'], 'ZCard(a1)')
simple('ZCOUNT', 'n != 4', 'ZCOUNT requires 3 arguments', ['s1', 's2', 's3'], 'ZCount(a1, a2, a3)')
custom('ZRANGEBYSCORE', 'g_zrangebyscore'); custom('SCAN', 'g_scan'); custom('HSCAN', 'g_hscan'); custom('ZSCAN', 'g_zscan')
custom('FUNCTION', 'g_function'); custom('COMMAND', 'g_command'); custom('CLIENT', 'g_client'); custom('OBJECT', 'g_object'); custom('DEBUG', 'g_debug')
simple(['GETRANGE', 'SUBSTR'], 'n != 4', 'GETRANGE requires 3 arguments', ['s1', 'i2', 'i3'], 'GetRange(a1, a2, a3)')
simple('SETRANGE', 'n != 4', 'SETRANGE requires 3 arguments', ['s1', 'i2', 'b3'], 'SetRange(a1, a2 as usize, a3)', {2: ('a2 < 0', 'ERR offset is out of range')})
custom('SETBIT', 'g_setbit'); custom('GETBIT', 'g_getbit'); custom('GETEX', 'g_getex')
simple('GETDEL', 'n != 2', 'GETDEL requires 1 argument', ['s1'], 'GetDel(a1)')
simple('INCRBYFLOAT', 'n != 3', WN('incrbyfloat'), ['s1', 'f2'], 'IncrByFloat(a1, a2)', {2: ('f_nan(a2) || f_inf(a2)', 'ERR increment would produce NaN or Infinity')})
simple('PSETEX', 'n != 4', 'PSETEX requires 3 arguments', ['s1', 'i2', 'b3'],
       'Set { key: a1, value: a3, ex: None, px: Some(a2 as i64), exat: None, pxat: None, nx: false, xx: false, get: false, keepttl: false }')
simple('EXPIRETIME', 'n != 2', 'EXPIRETIME requires 1 argument', ['s1'], 'ExpireTime(a1)')
simple('PEXPIRETIME', 'n != 2', 'PEXPIRETIME requires 1 argument', ['s1'], 'PExpireTime(a1)')
simple('UNLINK', 'n < 2', 'UNLINK requires at least 1 argument', ['S1'], 'Del(a1)')
simple('WAIT', 'n != 3', 'WAIT requires 2 arguments', ['l1', 'l2'], 'Wait(a1, a2)')
custom('SORT', 'g_sort')
const('RANDOMKEY', 'RandomKey')
simple('RENAME', 'n != 3', WN('rename'), ['s1', 's2'], 'Rename(a1, a2)')
simple('RENAMENX', 'n != 3', WN('renamenx'), ['s1', 's2'], 'RenameNx(a1, a2)')

XF = {'s': 'x_string(e[%d])', 'b': 'x_sds(e[%d])', 'i': 'x_integer(e[%d])', 'l': 'x_i64(e[%d])', 'u': 'x_u64(e[%d])', 'f': 'x_float(e[%d])',
      'S': 'x_strings(e, %d, n)', 'B': 'x_sdss(e, %d, n)'}
fns = []; chain = []
for t in T:
    names = t[1] if isinstance(t[1], list) else [t[1]]
    cond = ' || '.join('k == Kw::%s' % x for x in names)
    if t[0] == 'const':
        chain.append('    %sif %s { G::Cmd(ACmd::%s) }' % ('else ' if chain else '', cond, t[2])); continue
    if t[0] == 'custom':
        chain.append('    %sif %s { %s(e) }' % ('else ' if chain else '', cond, t[2])); continue
    _, _, bad, err, ex, ctor, checks = t
    fn = 'g_' + names[0].lower()
    chain.append('    %sif %s { %s(e) }' % ('else ' if chain else '', cond, fn))
    lines = ['pub open spec fn %s(e: Seq<El>) -> G {' % fn, '    let n = e.len() as int;', '    if %s { G::Err("%s"@) } else {' % (bad, err)]
    close = 1
    for x in ex:
        k, pos = x[0], int(x[1:])
        lines.append('    match %s { X::Err(m) => G::Err(m), X::Ok(a%d) =>' % (XF[k] % pos, pos)); close += 1
        if pos in checks:
            c, m = checks[pos]
            lines.append('    if %s { G::Err("%s"@) } else {' % (c, m)); close += 1
    lines.append('    G::Cmd(ACmd::%s)' % ctor)
    lines.append('    ' + '}' * close)
    lines.append('}')
    fns.append('\n'.join(lines))
import sys
LOOPS={'g_expire','g_getex','g_hscan','g_hset','g_mset','g_msetnx','g_pexpire','g_scan','g_set','g_sort','g_zadd','g_zrangebyscore','g_zscan'}
def dispatch(unit):
    out=["// the dispatch on the command keyword (kw_of of the upper-cased command name); G::Open = this unit makes no statement about","// the command (it is under contract in the sibling unit named in the comment)","pub open spec fn g_named(name: Seq<char>, e: Seq<El>) -> G {","    let k = kw_of(name);"]
    first=True
    for t in T:
        names = t[1] if isinstance(t[1], list) else [t[1]]
        cond = ' || '.join('k == Kw::%s' % x for x in names)
        if t[0]=='const': body='G::Cmd(ACmd::%s)'%t[2]; grp=1
        elif t[0]=='custom': body='%s(e)'%t[2]; grp=(3 if t[2] in LOOPS else 2)
        else: body='g_%s(e)'%names[0].lower(); grp=1
        if grp!=unit: body='G::Open /* %s */'%('unit cmd_parse' if grp==1 else 'unit cmd_parse2' if grp==2 else 'not under contract')
        out.append('    %sif %s { %s }'%('' if first else 'else ',cond,body)); first=False
    out.append('    else { %s }'%('G::Cmd(ACmd::Unknown(name))' if unit==1 else 'G::Open /* unit cmd_parse */'))
    out.append('}')
    return '\n'.join(out)+'\n'
open('/verif/contracts/cmd_parse/grammar_fixed.vt','w').write('// ---- fixed-shape commands (one function per command) ----\n'+'\n'.join(fns)+'\n')
open('/verif/contracts/cmd_parse/dispatch.vt','w').write(dispatch(1))
import os
os.makedirs('/verif/contracts/cmd_parse2',exist_ok=True)
open('/verif/contracts/cmd_parse2/dispatch.vt','w').write(dispatch(2))
