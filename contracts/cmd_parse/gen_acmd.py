# Generates acmd.vt (ACmd + cview) from `enum Command` of /repo/src/redis/command.rs: python3 gen_acmd.py > acmd.vt
import re,sys
src=open('/repo/src/redis/command.rs').read()
st=src.index('pub enum Command {')
i=src.index('{',st); d=0
for j in range(i,len(src)):
    if src[j]=='{': d+=1
    elif src[j]=='}':
        d-=1
        if d==0: break
body=src[i+1:j]
body=re.sub(r'//[^\n]*','',body)
# split variants at depth 0 commas
vars_=[];cur='';d=0
for c in body:
    if c in '({<': d+=1
    if c in ')}>': d-=1
    if c==',' and d==0:
        vars_.append(cur.strip());cur=''
    else: cur+=c
if cur.strip(): vars_.append(cur.strip())
def split0(s):
    out=[];cur='';d=0
    for c in s:
        if c in '(<{': d+=1
        if c in ')>}': d-=1
        if c==',' and d==0: out.append(cur.strip());cur=''
        else: cur+=c
    if cur.strip(): out.append(cur.strip())
    return out
TY={'String':('Seq<char>','{0}@'),'SDS':('Seq<u8>','{0}@'),
 'Vec<String>':('Seq<Seq<char>>','strs({0}@)'),'Vec<SDS>':('Seq<Seq<u8>>','sdss({0}@)'),
 'Vec<(String, SDS)>':('Seq<(Seq<char>, Seq<u8>)>','kvs({0}@)'),
 'Vec<(SDS, SDS)>':('Seq<(Seq<u8>, Seq<u8>)>','fvs({0}@)'),
 'Vec<(f64, SDS)>':('Seq<(f64, Seq<u8>)>','sms({0}@)'),
 'Option<String>':('Option<Seq<char>>','ostr({0})'),'Option<SDS>':('Option<Seq<u8>>','osds({0})')}
def ty(t):
    t=re.sub(r'\s+',' ',t.strip())
    if t in TY: return TY[t]
    assert re.match(r'^(i64|u64|u8|u32|usize|isize|bool|f64|Option<(i64|usize|u32|\(isize, usize\))>)$',t),t
    return (t,'{0}')
enum=[];view=[]
for v in vars_:
    m=re.match(r'(\w+)\s*\{(.*)\}$',v,re.S)
    if m:
        name=m.group(1);fs=split0(m.group(2))
        fl=[];vl=[];names=[]
        for f in fs:
            fn,ft=[x.strip() for x in f.split(':',1)]
            a,b=ty(ft);fl.append('%s: %s'%(fn,a));vl.append('%s: %s'%(fn,b.format(fn)));names.append(fn)
        enum.append('    %s { %s },'%(name,', '.join(fl)))
        view.append('        Command::%s { %s } => ACmd::%s { %s },'%(name,', '.join(names),name,', '.join(vl)))
        continue
    m=re.match(r'(\w+)\s*\((.*)\)$',v,re.S)
    if m:
        name=m.group(1);fs=split0(m.group(2))
        al=[];vl=[];names=[]
        for k,ft in enumerate(fs):
            a,b=ty(ft);al.append(a);n='a%d'%k;names.append(n);vl.append(b.format(n))
        enum.append('    %s(%s),'%(name,', '.join(al)))
        view.append('        Command::%s(%s) => ACmd::%s(%s),'%(name,', '.join(names),name,', '.join(vl)))
        continue
    assert re.match(r'^\w+$',v),v
    enum.append('    %s,'%v)
    view.append('        Command::%s => ACmd::%s,'%(v,v))
print('''// ===================== the abstract command =====================
// ACmd mirrors `enum Command` (src/redis/command.rs) variant by variant with specification types: String -> its characters,
// SDS -> its bytes, Vec -> Seq, numbers / flags / f64 unchanged.  cview is the abstraction function (exhaustive match, no
// wildcard: a new variant of Command does not compile until it is given a view).
pub enum ACmd {''')
print('\n'.join(enum))
print('''}
pub open spec fn strs(v: Seq<String>) -> Seq<Seq<char>> { Seq::new(v.len(), |i: int| v[i]@) }
pub open spec fn sdss(v: Seq<SDS>) -> Seq<Seq<u8>> { Seq::new(v.len(), |i: int| v[i]@) }
pub open spec fn kvs(v: Seq<(String, SDS)>) -> Seq<(Seq<char>, Seq<u8>)> { Seq::new(v.len(), |i: int| (v[i].0@, v[i].1@)) }
pub open spec fn fvs(v: Seq<(SDS, SDS)>) -> Seq<(Seq<u8>, Seq<u8>)> { Seq::new(v.len(), |i: int| (v[i].0@, v[i].1@)) }
pub open spec fn sms(v: Seq<(f64, SDS)>) -> Seq<(f64, Seq<u8>)> { Seq::new(v.len(), |i: int| (v[i].0, v[i].1@)) }
pub open spec fn ostr(o: Option<String>) -> Option<Seq<char>> { match o { Some(s) => Some(s@), None => None } }
pub open spec fn osds(o: Option<SDS>) -> Option<Seq<u8>> { match o { Some(s) => Some(s@), None => None } }
pub open spec fn cview(c: Command) -> ACmd {
    match c {''')
print('\n'.join(view))
print('''    }
}''')
