//! Probe for unit cmd_parse (C16): runs BOTH real command parsers on the same frame and prints both results.
//! Build as a bin crate with `redis-sim = { path = "<repo>", default-features = false }` and `bytes = "1.5"`.
use bytes::Bytes;
use redis_sim::redis::{Command, RespValue, RespValueZeroCopy};
use std::panic::catch_unwind;

fn frame(parts: &[&[u8]]) -> (RespValue, RespValueZeroCopy) {
    let a = RespValue::Array(Some(parts.iter().map(|p| RespValue::BulkString(Some(p.to_vec()))).collect()));
    let b = RespValueZeroCopy::Array(Some(parts.iter().map(|p| RespValueZeroCopy::BulkString(Some(Bytes::copy_from_slice(p)))).collect()));
    (a, b)
}
fn show<T: std::fmt::Debug>(r: std::thread::Result<Result<T, String>>) -> String {
    match r { Ok(Ok(c)) => format!("Ok({:?})", c), Ok(Err(e)) => format!("Err({:?})", e), Err(_) => "PANIC".to_string() }
}
fn run(parts: &[&[u8]]) -> bool {
    let (a, b) = frame(parts);
    let ra = show(catch_unwind(|| Command::from_resp(&a)));
    let rb = show(catch_unwind(|| Command::from_resp_zero_copy(&b)));
    let text: Vec<String> = parts.iter().map(|p| String::from_utf8_lossy(p).into_owned()).collect();
    let same = ra == rb && ra != "PANIC";
    println!("{:40} from_resp           -> {}\n{:40} from_resp_zero_copy -> {}{}", text.join(" "), ra, "", rb, if same { "" } else if ra == rb { "   BOTH PANIC" } else { "   DIFFER" });
    same
}
fn main() {
    std::panic::set_hook(Box::new(|i| eprintln!("  panic: {}", i)));
    let mut bad = 0;
    let frames: Vec<Vec<&[u8]>> = vec![
        vec![b"ACL", b"HELP"], vec![b"ACL", b"LOAD"], vec![b"ACL", b"SAVE"], vec![b"ACL", b"NOPE"],
        vec![b"LPUSH", b"k"], vec![b"RPUSH", b"k"], vec![b"SADD", b"k"], vec![b"SREM", b"k"],
        vec![b"SCAN", b"0", b"MATCH"], vec![b"SCAN", b"0", b"COUNT"], vec![b"HSCAN", b"h", b"0", b"MATCH"], vec![b"ZSCAN", b"z", b"0", b"COUNT"],
        vec![b"EVAL", b"return 1", b"-1"], vec![b"EVALSHA", b"abc", b"-1"], vec![b"EVAL", b"return 1", b"-3", b"a"],
        vec![b"GET", b"k"], vec![b"get", b"\xff"], vec![b"SET", b"k", b"v", b"ex", b"9223372036854775808"],
    ];
    for f in &frames { if !run(f) { bad += 1; } }
    println!("{bad} frames on which the two parsers differ or panic");
}
