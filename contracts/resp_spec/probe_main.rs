use bytes::BytesMut;
use redis_sim::redis::{RespCodec, RespParser};

fn show(name: &str, input: &[u8]) {
    let mut b = BytesMut::from(input);
    let r = RespCodec::parse(&mut b);
    println!("{name}: RespCodec::parse({:?}) = {:?}  (buffer left: {} bytes)", String::from_utf8_lossy(input), r, b.len());
    let r2 = RespParser::parse(input);
    println!("{name}: RespParser::parse = {:?}", r2);
}

fn main() {
    let arg = std::env::args().nth(1).unwrap_or_default();
    if arg == "nest" {
        let depth: usize = std::env::args().nth(2).unwrap().parse().unwrap();
        let stack: usize = std::env::args().nth(3).unwrap().parse().unwrap();
        let mut input = Vec::new();
        for _ in 0..depth { input.extend_from_slice(b"*1\r\n"); }
        input.extend_from_slice(b":1\r\n");
        println!("input: {} bytes, nesting depth {}, thread stack {} bytes", input.len(), depth, stack);
        let h = std::thread::Builder::new().stack_size(stack).spawn(move || {
            let mut b = BytesMut::from(&input[..]);
            let r = RespCodec::parse(&mut b);
            println!("RespCodec::parse returned ok={}", r.is_ok());
        }).unwrap();
        h.join().unwrap();
        return;
    }
    // D1: a CR that is not followed by LF
    show("D1", b"+a\rb\r\n+OK\r\n");
    show("D1b", b"*1\rX\n$4\r\nPING\r\n");
    // D2: the two bytes after a bulk payload are not inspected
    show("D2", b"$3\r\nabcXY+OK\r\n");
    // more D1 shapes: CR at the very end (LF may still come), fragments of a frame with a lone CR in a status line
    show("D1c", b"+a\r");
    show("D1d", b":12\rX\r\n+OK\r\n");
    show("D1e", b"$3\rX\r\nabc\r\n");
    // sanity
    show("ok", b"*2\r\n$3\r\nGET\r\n$1\r\nk\r\n");
}
