// @append-to: src/redis/data/list.rs
// @debug-assertions: off
// (debug assertions off: RedisList::set / rpush compare `to_string()` renderings inside cfg(debug_assertions) blocks;
//  that formatting code alone keeps CBMC busy for > 6 min on a 1-element list.  The release build has none of it.)
// NOT REACHED by Kani: RedisList::trim.  `iter().skip().take().cloned().collect::<VecDeque<_>>()` did not finish
// in 15 min (cadical) / 5 min (kissat) even for a 1-element list, with debug assertions off.  No trim harness is kept.
// Kani harnesses for RedisList::{range, get, set} (C01) against a specification written from
// the Redis command documentation, NOT from the code:
//   LRANGE/LTRIM: "offsets are zero-based ... can also be negative numbers indicating offsets starting at
//     the end of the list (-1 is the last element) ... Out of range indexes will not produce an error. If
//     start is larger than the end of the list, an empty list is returned. If stop is larger than the
//     actual end of the list, Redis will treat it like the last element of the list."  An empty range
//     (start > stop) is empty; LTRIM with an empty range removes the whole list.
//   LINDEX: negative indices count from the tail; out of range -> nil.
//   LSET: "An error is returned for out of range indexes"; otherwise only that element changes.
// BOUNDED: list length <= 4 (elements are distinct 1-byte inline strings); the indices range over the
// whole isize domain.  The spec arithmetic is done in i128 so that it cannot overflow.
#[cfg(kani)]
mod verif_kani_list {
    use super::*;

    const MAXN: usize = 4;

    fn elem(tag: u8) -> SDS {
        let mut data = [0u8; 23];
        data[0] = tag;
        SDS::Inline { len: 1, data }
    }
    fn tag(s: &SDS) -> u8 {
        match s {
            SDS::Inline { len, data } => if *len == 1 { data[0] } else { 254 },
            SDS::Heap(_) => 255,
        }
    }
    // the list [0, 1, .., n-1]
    fn mk(n: usize) -> RedisList {
        let mut items = VecDeque::new();
        let mut i = 0;
        while i < n {
            items.push_back(elem(i as u8));
            i += 1;
        }
        RedisList { items }
    }
    // Redis index normalisation for LRANGE / LTRIM: Some((first, last)) of the selected elements, None if empty
    fn spec_window(n: usize, start: isize, stop: isize) -> Option<(usize, usize)> {
        let n = n as i128;
        let mut s = start as i128;
        let mut e = stop as i128;
        if s < 0 { s += n; }
        if s < 0 { s = 0; }
        if e < 0 { e += n; }
        if e >= n { e = n - 1; }
        if s >= n || s > e { None } else { Some((s as usize, e as usize)) }
    }
    // Redis index normalisation for LINDEX / LSET
    fn spec_index(n: usize, index: isize) -> Option<usize> {
        let n = n as i128;
        let i = if index < 0 { n + index as i128 } else { index as i128 };
        if i < 0 || i >= n { None } else { Some(i as usize) }
    }


    fn check_range(n: usize, start: isize, stop: isize) {
        let l = mk(n);
        let r = l.range(start, stop);
        assert!(l.len() == n);
        match spec_window(n, start, stop) {
            None => assert!(r.is_empty()),
            Some((s, e)) => {
                assert!(r.len() == e - s + 1);
                let mut k = 0;
                while k < r.len() {
                    assert!(tag(&r[k]) as usize == s + k);
                    k += 1;
                }
            }
        }
        // the drop glue of the containers is not under test (and dominates CBMC's time)
        std::mem::forget(r);
        std::mem::forget(l);
    }
    fn check_get(n: usize, index: isize) {
        let l = mk(n);
        match (spec_index(n, index), l.get(index)) {
            (None, None) => {}
            (Some(i), Some(v)) => assert!(tag(v) as usize == i),
            _ => assert!(false),
        }
        std::mem::forget(l);
    }
    fn check_set(n: usize, index: isize) {
        let mut l = mk(n);
        let res = l.set(index, elem(99));
        assert!(l.len() == n);
        let target = spec_index(n, index);
        assert!(res.is_ok() == target.is_some());
        let mut k = 0;
        while k < n {
            let want = if target == Some(k) { 99 } else { k as u8 };
            assert!(tag(&l.items[k]) == want);
            k += 1;
        }
        std::mem::forget(res);
        std::mem::forget(l);
    }

    // @harness: list_get_matches_lindex
    // @bound: list length <= 4 (symbolic); index over all of isize; unwind 6
    // @tier: quick
    // @complete: false
    #[kani::proof]
    #[kani::unwind(6)]
    fn list_get_matches_lindex() {
        let n: usize = kani::any();
        kani::assume(n <= MAXN);
        let index: isize = kani::any();
        check_get(n, index);
        kani::cover!(n == MAXN && index == -4);
    }

    // @harness: list_range_len0
    // @bound: LRANGE on the list of length 0; start, stop over all of isize; unwind 6
    // @tier: thorough
    // @complete: false
    #[kani::proof]
    #[kani::unwind(6)]
    fn list_range_len0() {
        let start: isize = kani::any();
        let stop: isize = kani::any();
        check_range(0, start, stop);
        kani::cover!(start == 0 && stop == -1);
    }

    // @harness: list_range_len1
    // @bound: LRANGE on the list of length 1; start, stop over all of isize; unwind 6
    // @tier: thorough
    // @complete: false
    #[kani::proof]
    #[kani::unwind(6)]
    fn list_range_len1() {
        let start: isize = kani::any();
        let stop: isize = kani::any();
        check_range(1, start, stop);
        kani::cover!(start == 0 && stop == -1);
    }

    // @harness: list_range_len2
    // @bound: LRANGE on the list of length 2; start, stop over all of isize; unwind 6
    // @tier: thorough
    // @complete: false
    #[kani::proof]
    #[kani::unwind(6)]
    fn list_range_len2() {
        let start: isize = kani::any();
        let stop: isize = kani::any();
        check_range(2, start, stop);
        kani::cover!(start == 0 && stop == -1);
    }

    // @harness: list_range_len3
    // @bound: LRANGE on the list of length 3; start, stop over all of isize; unwind 6
    // @tier: thorough
    // @complete: false
    #[kani::proof]
    #[kani::unwind(6)]
    fn list_range_len3() {
        let start: isize = kani::any();
        let stop: isize = kani::any();
        check_range(3, start, stop);
        kani::cover!(start == 0 && stop == -1);
    }

    // @harness: list_range_len4
    // @bound: LRANGE on the list of length 4; start, stop over all of isize; unwind 6
    // @tier: quick
    // @complete: false
    #[kani::proof]
    #[kani::unwind(6)]
    fn list_range_len4() {
        let start: isize = kani::any();
        let stop: isize = kani::any();
        check_range(4, start, stop);
        kani::cover!(start == 0 && stop == -1);
    }






    // @harness: list_set_len1
    // @bound: LSET on the list of length 1; index over all of isize; unwind 6
    // @tier: quick
    // @complete: false
    #[kani::proof]
    #[kani::unwind(6)]
    fn list_set_len1() {
        let index: isize = kani::any();
        check_set(1, index);
        kani::cover!(index == -1);
    }

    // @harness: list_set_len2
    // @bound: LSET on the list of length 2; index over all of isize; unwind 6
    // @tier: quick
    // @complete: false
    #[kani::proof]
    #[kani::unwind(6)]
    fn list_set_len2() {
        let index: isize = kani::any();
        check_set(2, index);
        kani::cover!(index == -1);
    }

    // @harness: list_set_len3
    // @bound: LSET on the list of length 3; index over all of isize; unwind 6
    // @tier: quick
    // @complete: false
    #[kani::proof]
    #[kani::unwind(6)]
    fn list_set_len3() {
        let index: isize = kani::any();
        check_set(3, index);
        kani::cover!(index == -1);
    }

    // @harness: list_set_len4
    // @bound: LSET on the list of length 4; index over all of isize; unwind 6
    // @tier: quick
    // @complete: false
    #[kani::proof]
    #[kani::unwind(6)]
    fn list_set_len4() {
        let index: isize = kani::any();
        check_set(4, index);
        kani::cover!(index == -1);
    }
}
