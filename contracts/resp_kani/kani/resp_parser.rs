// @append-to: src/redis/resp.rs
#[cfg(kani)]
mod verif_kani_resp_parser {
    use super::*;

    const ALPHABET: [u8; 18] = [
        b'+', b'-', b':', b'$', b'*', b'\r', b'\n', b'0', b'1', b'2', b'3', b'4', b'5', b'6', b'7', b'8', b'9', b'a',
    ];
    fn any_sym() -> u8 {
        let i: usize = kani::any();
        kani::assume(i < ALPHABET.len());
        ALPHABET[i]
    }
    fn any_input<const N: usize>() -> [u8; N] {
        let mut a = [0u8; N];
        let mut k = 0;
        while k < N {
            a[k] = any_sym();
            k += 1;
        }
        a
    }
    fn fmt_format_stub(_args: core::fmt::Arguments<'_>) -> String { String::new() }
    fn fmt_write_stub(_out: &mut dyn core::fmt::Write, _args: core::fmt::Arguments<'_>) -> core::fmt::Result { Ok(()) }
    fn fmt_pad_stub<'a>(_f: &mut core::fmt::Formatter<'a>, _s: &str) -> core::fmt::Result where 'a: 'a { Ok(()) }

    // the dispatcher of RespParser::parse restricted to the four non-recursive frame types
    fn parse_scalar(input: &[u8]) -> Option<Result<(RespValue, usize), String>> {
        match input[0] {
            b'+' => Some(RespParser::parse_simple_string(input)),
            b'-' => Some(RespParser::parse_error(input)),
            b':' => Some(RespParser::parse_integer(input)),
            b'$' => Some(RespParser::parse_bulk_string(input)),
            _ => None,
        }
    }

    // @harness: h_parser_probe
    // @bound: probe
    // @tier: quick
    // @complete: false
    #[kani::proof]
    #[kani::unwind(8)]
    #[kani::stub(alloc::fmt::format, fmt_format_stub)]
    #[kani::stub(core::fmt::write, fmt_write_stub)]
    #[kani::stub(core::fmt::Formatter::pad, fmt_pad_stub)]
    fn h_parser_probe() {
        let buf = any_input::<6>();
        if let Some(Ok((_, n))) = parse_scalar(&buf[..]) {
            assert!(0 < n && n <= 6);
        }
    }
}
