// @append-to: src/redis/resp.rs
// Kani harnesses for RespParser (C15 bounded stand-ins): totality / no over-read / prefix-stability.
// Appended to a scratch copy of resp.rs by /verif/engine/kani_run.py (child module: sees private fns).
//
// INPUT SPACE: byte strings over the 18-symbol alphabet `+ - : $ * \r \n 0-9 a`.  Rationale (not proved): every
// other byte value is handled like `a` by the decoder - it is neither a type byte, nor CR/LF, nor a digit/sign
// (bytes >= 0x80 become U+FFFD in from_utf8_lossy, which parse::<i64> rejects exactly like `a`).
//
// SCOPE (measured): only the four non-recursive frame types.  `RespParser::parse` with arrays does not finish
// even for length 3-4 (the drop glue of the recursive value type inside parse_array is unwound to the bound at
// every level); arrays are covered, unboundedly, by the Verus unit resp_codec (totality, no over-read) only.
// The encoder round trip does not finish either (format! must stay real there).
//
// STUBS (all stated):
//  * String::from_utf8_lossy -> Cow::Borrowed of the same bytes (exactly its documented result on valid UTF-8;
//    the alphabet is ASCII);
//  * alloc::fmt::format, core::fmt::write, Formatter::pad -> produce nothing: the TEXT of error messages built
//    with format!/to_string() is empty.  Only Ok/Err is observed.
#[cfg(kani)]
mod verif_kani_resp_parser {
    use super::*;

    const ALPHABET: [u8; 18] = [
        b'+', b'-', b':', b'$', b'*', b'\r', b'\n', b'0', b'1', b'2', b'3', b'4', b'5', b'6', b'7', b'8', b'9', b'a',
    ];
    fn any_sym() -> u8 {
        let i: usize = kani::any();
        kani::assume(i < ALPHABET.len());
        ALPHABET[i]
    }
    fn any_input<const N: usize>() -> [u8; N] {
        let mut a = [0u8; N];
        let mut k = 0;
        while k < N {
            a[k] = any_sym();
            k += 1;
        }
        a
    }
    fn fmt_format_stub(_args: core::fmt::Arguments<'_>) -> String { String::new() }
    fn fmt_write_stub(_out: &mut dyn core::fmt::Write, _args: core::fmt::Arguments<'_>) -> core::fmt::Result { Ok(()) }
    fn fmt_pad_stub<'a>(_f: &mut core::fmt::Formatter<'a>, _s: &str) -> core::fmt::Result where 'a: 'a { Ok(()) }

    // The alphabet is ASCII: String::from_utf8_lossy returns exactly Cow::Borrowed(the same bytes as str)
    // for valid UTF-8 (std docs); skip its chunk-iteration loops.
    fn lossy_ascii_stub(v: &[u8]) -> Cow<'_, str> {
        Cow::Borrowed(unsafe { core::str::from_utf8_unchecked(v) })
    }

    // the dispatcher of RespParser::parse restricted to the four non-recursive frame types
    fn parse_scalar(input: &[u8]) -> Option<Result<(RespValue, usize), String>> {
        match input[0] {
            b'+' => Some(RespParser::parse_simple_string(input)),
            b'-' => Some(RespParser::parse_error(input)),
            b':' => Some(RespParser::parse_integer(input)),
            b'$' => Some(RespParser::parse_bulk_string(input)),
            _ => None,
        }
    }

    // For every k in 1..=N: decode the first k bytes (no panic is Kani's default check), no over-read,
    // and prefix-stability against the decoding of all N bytes:
    //   full = Ok((v, n))  ==>  every strict prefix of s[..n] is an error ("need more"), and every
    //   s[..k] with k >= n (i.e. s[..n] ++ t) decodes to the same value and the same n.
    fn check_scalars<const N: usize>() {
        let buf = any_input::<N>();
        let full = parse_scalar(&buf[..]);
        if let Some(Ok((_, n))) = &full {
            assert!(0 < *n && *n <= N);
        }
        kani::cover!(matches!(&full, Some(Ok(_)))); // some input of this length is a complete frame
        let mut k = 1;
        while k < N {
            let part = parse_scalar(&buf[..k]);
            if let Some(Ok((_, m))) = &part {
                assert!(0 < *m && *m <= k);
            }
            if let Some(Ok((v, n))) = &full {
                if k < *n {
                    assert!(matches!(&part, Some(Err(_))));
                } else {
                    match &part {
                        Some(Ok((pv, pn))) => assert!(*pn == *n && scalar_eq(pv, v)),
                        _ => assert!(false),
                    }
                }
            }
            core::mem::forget(part); // RespValue is a recursive type: its drop glue would be unwound to the full bound
            k += 1;
        }
        core::mem::forget(full);
    }
    // equality of two non-array values (the derived PartialEq recurses through Array)
    fn scalar_eq(a: &RespValue, b: &RespValue) -> bool {
        match (a, b) {
            (RespValue::SimpleString(x), RespValue::SimpleString(y)) => x.as_bytes() == y.as_bytes(),
            (RespValue::Error(x), RespValue::Error(y)) => x.as_bytes() == y.as_bytes(),
            (RespValue::Integer(x), RespValue::Integer(y)) => x == y,
            (RespValue::BulkString(None), RespValue::BulkString(None)) => true,
            (RespValue::BulkString(Some(x)), RespValue::BulkString(Some(y))) => x == y,
            _ => false,
        }
    }

    // @harness: h_parser_scalars_n5
    // @bound: all byte strings of length 1..=5 over the 18-symbol alphabet; scalar frame types (+ - : $) via the real parse_* fns; unwind 7; measured CBMC time ~75-85 s (machine under load)
    // @tier: quick
    // @complete: false
    // @props: C15
    #[kani::proof]
    #[kani::unwind(7)]
    #[kani::stub(alloc::string::String::from_utf8_lossy, lossy_ascii_stub)]
    #[kani::stub(alloc::fmt::format, fmt_format_stub)]
    #[kani::stub(core::fmt::write, fmt_write_stub)]
    #[kani::stub(core::fmt::Formatter::pad, fmt_pad_stub)]
    fn h_parser_scalars_n5() {
        check_scalars::<5>();
    }
    // @harness: h_parser_scalars_n6
    // @bound: all byte strings of length 1..=6 over the 18-symbol alphabet; scalar frame types (+ - : $) via the real parse_* fns; unwind 8; measured CBMC time ~115 s (machine under load)
    // @tier: thorough
    // @complete: false
    // @props: C15
    #[kani::proof]
    #[kani::unwind(8)]
    #[kani::stub(alloc::string::String::from_utf8_lossy, lossy_ascii_stub)]
    #[kani::stub(alloc::fmt::format, fmt_format_stub)]
    #[kani::stub(core::fmt::write, fmt_write_stub)]
    #[kani::stub(core::fmt::Formatter::pad, fmt_pad_stub)]
    fn h_parser_scalars_n6() {
        check_scalars::<6>();
    }
    // @harness: h_parser_scalars_n8
    // @bound: all byte strings of length 1..=8 over the 18-symbol alphabet; scalar frame types (+ - : $) via the real parse_* fns; unwind 10; measured CBMC time ~300 s (machine under load)
    // @tier: thorough
    // @complete: false
    // @props: C15
    #[kani::proof]
    #[kani::unwind(10)]
    #[kani::stub(alloc::string::String::from_utf8_lossy, lossy_ascii_stub)]
    #[kani::stub(alloc::fmt::format, fmt_format_stub)]
    #[kani::stub(core::fmt::write, fmt_write_stub)]
    #[kani::stub(core::fmt::Formatter::pad, fmt_pad_stub)]
    fn h_parser_scalars_n8() {
        check_scalars::<8>();
    }
    // @harness: h_parser_scalars_n10
    // @bound: all byte strings of length 1..=10 over the 18-symbol alphabet; scalar frame types (+ - : $) via the real parse_* fns; unwind 12; measured CBMC time ~845 s (close to the 900 s thorough limit) (machine under load)
    // @tier: manual
    // @complete: false
    // @props: C15
    #[kani::proof]
    #[kani::unwind(12)]
    #[kani::stub(alloc::string::String::from_utf8_lossy, lossy_ascii_stub)]
    #[kani::stub(alloc::fmt::format, fmt_format_stub)]
    #[kani::stub(core::fmt::write, fmt_write_stub)]
    #[kani::stub(core::fmt::Formatter::pad, fmt_pad_stub)]
    fn h_parser_scalars_n10() {
        check_scalars::<10>();
    }
}
