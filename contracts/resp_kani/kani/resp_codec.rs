// @append-to: src/redis/resp_optimized.rs
#[cfg(kani)]
mod verif_kani_resp_codec {
    use super::*;

    const ALPHABET: [u8; 18] = [
        b'+', b'-', b':', b'$', b'*', b'\r', b'\n', b'0', b'1', b'2', b'3', b'4', b'5', b'6', b'7', b'8', b'9', b'a',
    ];
    fn any_sym() -> u8 {
        let i: usize = kani::any();
        kani::assume(i < ALPHABET.len());
        ALPHABET[i]
    }
    fn any_input<const N: usize>() -> ([u8; N], usize) {
        let mut a = [0u8; N];
        let mut k = 0;
        while k < N {
            a[k] = any_sym();
            k += 1;
        }
        let len: usize = kani::any();
        kani::assume(len <= N);
        (a, len)
    }

    // @harness: h_codec_total_n4
    // @bound: probe
    // @tier: quick
    // @complete: false
    #[kani::proof]
    #[kani::unwind(8)]
    fn h_codec_total_n4() {
        let (buf, len) = any_input::<4>();
        let s = &buf[..len];
        if let Ok((_, n)) = RespCodec::try_parse(s) {
            assert!(0 < n && n <= len);
        }
    }
}
