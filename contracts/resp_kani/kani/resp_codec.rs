// @append-to: src/redis/resp_optimized.rs
// Kani harnesses for RespCodec (C15 bounded stand-ins): totality / no over-read / prefix-stability.
// Appended to a scratch copy of resp_optimized.rs by /verif/engine/kani_run.py (child module: sees private fns).
//
// INPUT SPACE: byte strings over the 18-symbol alphabet `+ - : $ * \r \n 0-9 a`.  Rationale (not proved): every
// other byte value is handled like `a` by the decoder - it is neither a type byte, nor CR/LF, nor a digit/sign.
// (Bytes >= 0x80 additionally make from_utf8 fail on length/integer lines, which is an Err like `a` gives.)
//
// SCOPE (measured): only the four non-recursive frame types; try_parse/parse with arrays and the encoder round
// trip do not finish under CBMC (recursive drop glue, BytesMut, integer formatting) - see resp_parser.rs.
//
// STUBS (all stated; needed to make CBMC terminate, measured):
//  * memchr::memchr -> byte loop returning the first index (the crate's runtime CPU dispatch uses cpuid inline asm);
//  * bytes::Bytes::copy_from_slice -> Bytes::from_static(leaked copy): same contents, no shared-vtable/atomics;
//  * core::str::from_utf8 -> unchecked conversion (exact on the ASCII alphabet);
//  * alloc::fmt::format, core::fmt::write, Formatter::pad -> produce nothing: the TEXT of error messages built with
//    format!/to_string() is empty.  Only Ok/Err and the literal "Incomplete" sentinel (a plain str copy, not
//    stubbed) are observed.
#[cfg(kani)]
mod verif_kani_resp_codec {
    use super::*;
    // rustc resolves this `use` to the memchr crate the code links against (a second `memchr` crate lives in the
    // std sysroot, and that is the one a plain `memchr::…` path in kani::stub would name)
    use memchr::memchr as dep_memchr;

    const ALPHABET: [u8; 18] = [
        b'+', b'-', b':', b'$', b'*', b'\r', b'\n', b'0', b'1', b'2', b'3', b'4', b'5', b'6', b'7', b'8', b'9', b'a',
    ];
    fn any_sym() -> u8 {
        let i: usize = kani::any();
        kani::assume(i < ALPHABET.len());
        ALPHABET[i]
    }
    fn any_input<const N: usize>() -> [u8; N] {
        let mut a = [0u8; N];
        let mut k = 0;
        while k < N {
            a[k] = any_sym();
            k += 1;
        }
        a
    }

    fn fmt_format_stub(_args: core::fmt::Arguments<'_>) -> String { String::new() }
    fn fmt_write_stub(_out: &mut dyn core::fmt::Write, _args: core::fmt::Arguments<'_>) -> core::fmt::Result { Ok(()) }
    fn fmt_pad_stub<'a>(_f: &mut core::fmt::Formatter<'a>, _s: &str) -> core::fmt::Result where 'a: 'a { Ok(()) }
    fn from_utf8_ascii_stub(v: &[u8]) -> Result<&str, core::str::Utf8Error> {
        Ok(unsafe { core::str::from_utf8_unchecked(v) })
    }
    fn memchr_stub(needle: u8, haystack: &[u8]) -> Option<usize> {
        let mut i = 0;
        while i < haystack.len() {
            if haystack[i] == needle {
                return Some(i);
            }
            i += 1;
        }
        None
    }
    fn bytes_copy_stub(data: &[u8]) -> Bytes {
        Bytes::from_static(Box::leak(data.to_vec().into_boxed_slice()))
    }

    // the dispatcher of RespCodec::try_parse restricted to the four non-recursive frame types
    fn parse_scalar(input: &[u8]) -> Option<Result<(RespValueZeroCopy, usize), String>> {
        match input[0] {
            b'+' => Some(RespCodec::parse_simple_string(input)),
            b'-' => Some(RespCodec::parse_error(input)),
            b':' => Some(RespCodec::parse_integer(input)),
            b'$' => Some(RespCodec::parse_bulk_string(input)),
            _ => None,
        }
    }
    // equality of two non-array values (the derived PartialEq recurses through Array)
    fn scalar_eq(a: &RespValueZeroCopy, b: &RespValueZeroCopy) -> bool {
        match (a, b) {
            (RespValueZeroCopy::SimpleString(x), RespValueZeroCopy::SimpleString(y)) => x[..] == y[..],
            (RespValueZeroCopy::Error(x), RespValueZeroCopy::Error(y)) => x[..] == y[..],
            (RespValueZeroCopy::Integer(x), RespValueZeroCopy::Integer(y)) => x == y,
            (RespValueZeroCopy::BulkString(None), RespValueZeroCopy::BulkString(None)) => true,
            (RespValueZeroCopy::BulkString(Some(x)), RespValueZeroCopy::BulkString(Some(y))) => x[..] == y[..],
            _ => false,
        }
    }
    fn is_incomplete(r: &Option<Result<(RespValueZeroCopy, usize), String>>) -> bool {
        match r {
            // == "Incomplete", spelled out (str equality is a memcmp loop of 10 > the unwind bound)
            Some(Err(e)) => {
                let b = e.as_bytes();
                b.len() == 10 && b[0] == b'I' && b[1] == b'n' && b[2] == b'c' && b[3] == b'o' && b[4] == b'm'
                    && b[5] == b'p' && b[6] == b'l' && b[7] == b'e' && b[8] == b't' && b[9] == b'e'
            }
            _ => false,
        }
    }

    // For every k in 1..=N: decode the first k bytes (no panic is Kani's default check), no over-read, and
    // prefix-stability against the decoding of all N bytes:
    //   full = Ok((v, n))  ==>  every strict prefix of s[..n] yields Err("Incomplete"), and every s[..k] with
    //   k >= n (i.e. s[..n] ++ t) decodes to the same value and the same n.
    fn check_scalars<const N: usize>() {
        let buf = any_input::<N>();
        let full = parse_scalar(&buf[..]);
        if let Some(Ok((_, n))) = &full {
            assert!(0 < *n && *n <= N);
        }
        kani::cover!(matches!(&full, Some(Ok(_)))); // some input of this length is a complete frame
        let mut k = 1;
        while k < N {
            let part = parse_scalar(&buf[..k]);
            if let Some(Ok((_, m))) = &part {
                assert!(0 < *m && *m <= k);
            }
            if let Some(Ok((v, n))) = &full {
                if k < *n {
                    assert!(is_incomplete(&part));
                } else {
                    match &part {
                        Some(Ok((pv, pn))) => assert!(*pn == *n && scalar_eq(pv, v)),
                        _ => assert!(false),
                    }
                }
            }
            core::mem::forget(part); // the value type is recursive: its drop glue would be unwound to the full bound
            k += 1;
        }
        core::mem::forget(full);
    }

    // @harness: h_codec_scalars_n4
    // @bound: all byte strings of length 1..=4 over the 18-symbol alphabet; scalar frame types (+ - : $) via the real parse_* fns; unwind 6; measured CBMC time ~87 s (machine under load)
    // @tier: quick
    // @complete: false
    // @props: C15
    #[kani::proof]
    #[kani::unwind(6)]
    #[kani::stub(dep_memchr, memchr_stub)]
    #[kani::stub(bytes::Bytes::copy_from_slice, bytes_copy_stub)]
    #[kani::stub(core::str::from_utf8, from_utf8_ascii_stub)]
    #[kani::stub(alloc::fmt::format, fmt_format_stub)]
    #[kani::stub(core::fmt::write, fmt_write_stub)]
    #[kani::stub(core::fmt::Formatter::pad, fmt_pad_stub)]
    fn h_codec_scalars_n4() {
        check_scalars::<4>();
    }
    // @harness: h_codec_scalars_n5
    // @bound: all byte strings of length 1..=5 over the 18-symbol alphabet; scalar frame types (+ - : $) via the real parse_* fns; unwind 7; measured CBMC time ~145 s (machine under load)
    // @tier: thorough
    // @complete: false
    // @props: C15
    #[kani::proof]
    #[kani::unwind(7)]
    #[kani::stub(dep_memchr, memchr_stub)]
    #[kani::stub(bytes::Bytes::copy_from_slice, bytes_copy_stub)]
    #[kani::stub(core::str::from_utf8, from_utf8_ascii_stub)]
    #[kani::stub(alloc::fmt::format, fmt_format_stub)]
    #[kani::stub(core::fmt::write, fmt_write_stub)]
    #[kani::stub(core::fmt::Formatter::pad, fmt_pad_stub)]
    fn h_codec_scalars_n5() {
        check_scalars::<5>();
    }
    // @harness: h_codec_scalars_n7
    // @bound: all byte strings of length 1..=7 over the 18-symbol alphabet; scalar frame types (+ - : $) via the real parse_* fns; unwind 9; measured CBMC time ~405 s before the CR-LF pair rule made find_crlf a loop; now beyond the 900 s limit: manual tier
    // @tier: manual
    // @complete: false
    // @props: C15
    #[kani::proof]
    #[kani::unwind(9)]
    #[kani::stub(dep_memchr, memchr_stub)]
    #[kani::stub(bytes::Bytes::copy_from_slice, bytes_copy_stub)]
    #[kani::stub(core::str::from_utf8, from_utf8_ascii_stub)]
    #[kani::stub(alloc::fmt::format, fmt_format_stub)]
    #[kani::stub(core::fmt::write, fmt_write_stub)]
    #[kani::stub(core::fmt::Formatter::pad, fmt_pad_stub)]
    fn h_codec_scalars_n7() {
        check_scalars::<7>();
    }
    // @harness: h_codec_scalars_n8
    // @bound: all byte strings of length 1..=8 over the 18-symbol alphabet; scalar frame types (+ - : $) via the real parse_* fns; unwind 10; measured CBMC time ~685 s before the CR-LF pair rule made find_crlf a loop; now beyond the 900 s limit: manual tier
    // @tier: manual
    // @complete: false
    // @props: C15
    #[kani::proof]
    #[kani::unwind(10)]
    #[kani::stub(dep_memchr, memchr_stub)]
    #[kani::stub(bytes::Bytes::copy_from_slice, bytes_copy_stub)]
    #[kani::stub(core::str::from_utf8, from_utf8_ascii_stub)]
    #[kani::stub(alloc::fmt::format, fmt_format_stub)]
    #[kani::stub(core::fmt::write, fmt_write_stub)]
    #[kani::stub(core::fmt::Formatter::pad, fmt_pad_stub)]
    fn h_codec_scalars_n8() {
        check_scalars::<8>();
    }
}
