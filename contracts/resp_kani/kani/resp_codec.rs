// @append-to: src/redis/resp_optimized.rs
#[cfg(kani)]
mod verif_kani_resp_codec {
    use super::*;
    // rustc resolves this `use` to the crate the code under test links against (a second `memchr`
    // lives in the std sysroot and is what a plain `memchr::…` stub path would name)
    use memchr::memchr as dep_memchr;

    const ALPHABET: [u8; 18] = [
        b'+', b'-', b':', b'$', b'*', b'\r', b'\n', b'0', b'1', b'2', b'3', b'4', b'5', b'6', b'7', b'8', b'9', b'a',
    ];
    fn any_sym() -> u8 {
        let i: usize = kani::any();
        kani::assume(i < ALPHABET.len());
        ALPHABET[i]
    }
    fn any_input<const N: usize>() -> ([u8; N], usize) {
        let mut a = [0u8; N];
        let mut k = 0;
        while k < N {
            a[k] = any_sym();
            k += 1;
        }
        let len: usize = kani::any();
        kani::assume(len <= N);
        (a, len)
    }

    // ---- stubs (error-message rendering only; see file header)
    fn fmt_format_stub(_args: core::fmt::Arguments<'_>) -> String { String::new() }
    fn fmt_write_stub(_out: &mut dyn core::fmt::Write, _args: core::fmt::Arguments<'_>) -> core::fmt::Result { Ok(()) }
    fn fmt_pad_stub<'a>(_f: &mut core::fmt::Formatter<'a>, _s: &str) -> core::fmt::Result where 'a: 'a { Ok(()) }

    // memchr crate (runtime CPU-feature dispatch uses inline asm, unsupported by Kani): first index of the byte, by a loop
    fn memchr_stub(needle: u8, haystack: &[u8]) -> Option<usize> {
        let mut i = 0;
        while i < haystack.len() {
            if haystack[i] == needle {
                return Some(i);
            }
            i += 1;
        }
        None
    }

    unsafe fn memchr_raw_stub(needle: u8, start: *const u8, end: *const u8) -> Option<*const u8> {
        let mut p = start;
        while p < end {
            if *p == needle {
                return Some(p);
            }
            p = p.add(1);
        }
        None
    }

    // the alphabet is ASCII, so UTF-8 validation always succeeds: skip its loop
    fn from_utf8_ascii_stub(v: &[u8]) -> Result<&str, core::str::Utf8Error> {
        Ok(unsafe { core::str::from_utf8_unchecked(v) })
    }

    // @harness: h_codec_total_n4
    // @bound: probe
    // @tier: quick
    // @complete: false
    #[kani::proof]
    #[kani::unwind(4)]
    #[kani::stub(core::str::from_utf8, from_utf8_ascii_stub)]
    #[kani::stub(dep_memchr, memchr_stub)]
    #[kani::stub(alloc::fmt::format, fmt_format_stub)]
    #[kani::stub(core::fmt::write, fmt_write_stub)]
    #[kani::stub(core::fmt::Formatter::pad, fmt_pad_stub)]
    fn h_codec_total_n4() {
        let (buf, _len) = any_input::<2>();
        let s = &buf[..];
        kani::assume(s[0] != b'*');
        if let Ok((_, n)) = RespCodec::try_parse(s) {
            assert!(0 < n && n <= 2);
        }
    }

    // @harness: h_probe_memchr
    // @bound: probe
    // @tier: quick
    // @complete: false
    #[kani::proof]
    #[kani::unwind(8)]
    #[kani::stub(dep_memchr, memchr_stub)]
    fn h_probe_memchr() {
        let (buf, len) = any_input::<4>();
        let r = memchr::memchr(b'\r', &buf[..len]);
        if let Some(i) = r { assert!(buf[i] == b'\r'); }
        let r2 = RespCodec::find_crlf(&buf[..len]);
        if let Some(i) = r2 { assert!(buf[i] == b'\r'); }
    }
}
