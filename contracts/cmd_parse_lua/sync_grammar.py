# Regenerates grammar_resp_opts.vt from ../cmd_parse_opts/grammar_loops.vt (the grammar BOTH RESP parsers are verified against in unit
# cmd_parse_opts): the sections SET, EXPIRE, HSET (inside the MSET section), ZADD, ZRANGEBYSCORE, entry names g_X -> r_X (because
# ../cmd_parse/grammar_opts.vt, included here for LMOVE / ZRANGE / .., already defines g_X as G::Open).  Run: python3 sync_grammar.py
import re, os
here = os.path.dirname(os.path.abspath(__file__))
src = open(os.path.join(here, '../cmd_parse_opts/grammar_loops.vt')).read()
parts = re.split(r'(?m)^(?=// ===== )', src)
keep = []
for p in parts[1:]:
    head = p.split('\n', 1)[0]
    if head.startswith(('// ===== SET ', '// ===== EXPIRE ', '// ===== ZADD ', '// ===== ZRANGEBYSCORE ')):
        keep.append(p)
    elif head.startswith('// ===== MSET '):
        keep.append('// ===== HSET key field value [field value ...] =====\n' + p[p.index('pub open spec fn fv_pairs'):])
txt = ''.join(keep)
for a, b in [('g_set(', 'r_set('), ('g_expire(', 'r_expire('), ('g_hset(', 'r_hset('), ('g_zadd(', 'r_zadd('), ('g_zrangebyscore(', 'r_zrangebyscore('), ('g_expire_like(', 'r_expire_like(')]:
    txt = txt.replace(a, b)
txt = re.sub(r'pub open spec fn g_pexpire\(e: Seq<El>\) -> G \{[^\n]*\n', '', txt)
hdr = '''// ===================== RESP grammar of the five option-loop commands the Lua parser supports =====================
// G::Open in units cmd_parse / cmd_parse2.  The text below is COPIED (sync_grammar.py) from ../cmd_parse_opts/grammar_loops.vt (sections
// SET, EXPIRE, HSET, ZADD, ZRANGEBYSCORE; the unit that verifies BOTH RESP parsers against it), only the entry names differ: g_X -> r_X,
// because ../cmd_parse/grammar_opts.vt (included here for LMOVE, ZRANGE, ..) already defines g_X as G::Open and a file cannot be included
// in part.  ASSUMPTION of this unit: the RESP parsers compute these functions (discharged by unit cmd_parse_opts when it verifies);
// every divergence reported against them is ALSO exhibited on the real code by probe_lua.rs.
'''
open(os.path.join(here, 'grammar_resp_opts.vt'), 'w').write(hdr + txt)
