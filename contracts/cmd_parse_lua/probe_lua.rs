//! Probe for unit cmd_parse_lua (C16): the SAME command through the two entry paths of the real code.
//!   direct : Command::from_resp(frame of bulk strings) -> CommandExecutor::execute           (what a client's command does)
//!   lua    : CommandExecutor::execute(EVAL "return redis.pcall(ARGV[1], .., ARGV[n])" 0 args) (redis.pcall -> parse_lua_command_bytes)
//! on two executors prepared by the same setup commands; prints both replies and the keyspace afterwards (check commands).
//! Build as a bin crate with `redis-sim = { path = "<repo>" }` (default features: lua).
use redis_sim::redis::{Command, CommandExecutor, RespValue, SDS};

fn frame(parts: &[&[u8]]) -> RespValue {
    RespValue::Array(Some(parts.iter().map(|p| RespValue::BulkString(Some(p.to_vec()))).collect()))
}
fn show(v: &RespValue) -> String {
    match v {
        RespValue::SimpleString(s) => format!("+{}", s),
        RespValue::Error(e) => format!("-{}", e),
        RespValue::Integer(i) => format!(":{}", i),
        RespValue::BulkString(Some(b)) => format!("\"{}\"", String::from_utf8_lossy(b)),
        RespValue::BulkString(None) => "nil".to_string(),
        RespValue::Array(Some(a)) => format!("[{}]", a.iter().map(show).collect::<Vec<_>>().join(", ")),
        RespValue::Array(None) => "nil-array".to_string(),
    }
}
fn direct(ex: &mut CommandExecutor, parts: &[&[u8]]) -> String {
    match Command::from_resp(&frame(parts)) {
        Ok(c) => show(&ex.execute(&c)),
        Err(e) => format!("-{} (parse error)", e),
    }
}
fn via_lua(ex: &mut CommandExecutor, parts: &[&[u8]]) -> String {
    match std::panic::catch_unwind(std::panic::AssertUnwindSafe(|| via_lua_inner(ex, parts))) { Ok(s) => s, Err(_) => "PANIC".to_string() }
}
fn via_lua_inner(ex: &mut CommandExecutor, parts: &[&[u8]]) -> String {
    let argv: Vec<String> = (1..=parts.len()).map(|i| format!("ARGV[{}]", i)).collect();
    let script = format!("return redis.pcall({})", argv.join(", "));
    let cmd = Command::Eval { script, keys: vec![], args: parts.iter().map(|p| SDS::new(p.to_vec())).collect() };
    show(&ex.execute(&cmd))
}
fn text(parts: &[&[u8]]) -> String { parts.iter().map(|p| String::from_utf8_lossy(p).into_owned()).collect::<Vec<_>>().join(" ") }
/// returns true when the two paths agree (same reply up to the error text, same keyspace)
fn case(tag: &str, setup: &[&[&[u8]]], cmd: &[&[u8]], checks: &[&[&[u8]]]) -> bool {
    let mut a = CommandExecutor::new();
    let mut b = CommandExecutor::new();
    for s in setup { direct(&mut a, s); direct(&mut b, s); }
    let ra = direct(&mut a, cmd);
    let rb = via_lua(&mut b, cmd);
    let mut same = ra == rb || (ra.starts_with('-') && rb.starts_with('-'));
    println!("{:4} {}\n       direct -> {}\n       lua    -> {}", tag, text(cmd), ra, rb);
    for c in checks {
        let ca = direct(&mut a, c);
        let cb = direct(&mut b, c);
        if ca != cb { same = false; }
        println!("       then {:28} direct-side -> {:24} lua-side -> {}", text(c), ca, cb);
    }
    println!("       {}", if same { "same" } else { "DIFFER" });
    same
}
fn main() {
    std::panic::set_hook(Box::new(|i| println!("       panic: {}", i.to_string().replace('\n', " "))));
    let mut bad = 0;
    let mut run = |tag: &str, setup: &[&[&[u8]]], cmd: &[&[u8]], checks: &[&[&[u8]]]| { if !case(tag, setup, cmd, checks) { bad += 1; } };
    // controls: commands on which the unit proves agreement
    run("ok", &[&[b"SET", b"k", b"5"]], &[b"incrby", b"k", b"10"], &[&[b"GET", b"k"]]);
    run("ok", &[], &[b"INCRBY", b"k", b"9223372036854775808"], &[&[b"GET", b"k"]]);
    run("ok", &[], &[b"LPUSH", b"l", b"a", b"\xff\xfe", b""], &[&[b"LRANGE", b"l", b"0", b"-1"]]);
    run("ok", &[], &[b"HSET", b"h", b"f", b"1", b"g", b"2"], &[&[b"HGET", b"h", b"f"], &[b"HGET", b"h", b"g"], &[b"HLEN", b"h"]]);
    run("ok", &[], &[b"GET"], &[]);
    run("ok", &[&[b"RPUSH", b"a", b"1", b"2"]], &[b"LMOVE", b"a", b"b", b"left", b"Right"], &[&[b"LRANGE", b"b", b"0", b"-1"]]);
    // L1
    run("L1", &[&[b"ZADD", b"z", b"1", b"a", b"2", b"b"]], &[b"ZRANGE", b"z", b"0", b"-1", b"WITHSCORES"], &[]);
    // L2
    run("L2", &[&[b"SET", b"k", b"v"], &[b"EXPIRE", b"k", b"100"]], &[b"EXPIRE", b"k", b"200", b"GT"], &[&[b"TTL", b"k"]]);
    run("L2", &[&[b"SET", b"k", b"v"]], &[b"EXPIRE", b"k", b"100", b"NX"], &[&[b"TTL", b"k"]]);
    // L3
    run("L3", &[&[b"SET", b"k", b"v", b"EX", b"100"]], &[b"SET", b"k", b"w", b"KEEPTTL"], &[&[b"GET", b"k"], &[b"TTL", b"k"]]);
    run("L3", &[], &[b"SET", b"k", b"w", b"EXAT", b"99999999999"], &[&[b"GET", b"k"]]);
    run("L3", &[], &[b"SET", b"k", b"w", b"PXAT", b"99999999999000"], &[&[b"GET", b"k"]]);
    run("L3", &[], &[b"SET", b"k", b"w", b"NX", b"XX"], &[&[b"GET", b"k"]]);
    run("L3", &[&[b"SET", b"k", b"v"]], &[b"SET", b"k", b"w", b"NX", b"XX"], &[&[b"GET", b"k"]]);
    run("L3", &[&[b"SET", b"k", b"v", b"EX", b"100"]], &[b"SET", b"k", b"w", b"EX", b"5", b"PX", b"7"], &[&[b"GET", b"k"], &[b"PTTL", b"k"]]);
    // L4
    run("L4", &[&[b"ZADD", b"z", b"1", b"a", b"2", b"b"]], &[b"ZADD", b"z", b"nan", b"m"], &[&[b"ZCARD", b"z"], &[b"ZSCORE", b"z", b"m"], &[b"ZRANGE", b"z", b"0", b"-1"], &[b"ZRANGEBYSCORE", b"z", b"-inf", b"+inf"], &[b"ZRANK", b"z", b"b"]]);
    // L5
    run("L5", &[&[b"ZADD", b"z", b"1", b"a", b"2", b"b", b"3", b"c"]], &[b"ZRANGEBYSCORE", b"z", b"-inf", b"+inf", b"LIMIT", b"1", b"-1"], &[]);
    run("L5", &[&[b"ZADD", b"z", b"1", b"a", b"2", b"b", b"3", b"c"]], &[b"ZRANGEBYSCORE", b"z", b"-inf", b"+inf", b"LIMIT", b"0", b"18446744073709551615"], &[]);
    // L6: commands the executor implements that redis.call cannot reach (the Lua parser has no arm)
    for c in [&[&b"MGET"[..], b"k"][..], &[b"HLEN", b"h"], &[b"APPEND", b"k", b"x"], &[b"SETNX", b"k", b"x"], &[b"DECRBY", b"k", b"1"], &[b"PEXPIRE", b"k", b"1"],
              &[b"PTTL", b"k"], &[b"PERSIST", b"k"], &[b"LINDEX", b"l", b"0"], &[b"SCARD", b"s"], &[b"HEXISTS", b"h", b"f"], &[b"ZRANK", b"z", b"a"],
              &[b"ZREVRANGE", b"z", b"0", b"-1"], &[b"STRLEN", b"k"], &[b"KEYS", b"k*"], &[b"SETEX", b"k", b"10", b"v"], &[b"GETDEL", b"k"], &[b"UNLINK", b"k"]] {
        run("L6", &[&[b"SET", b"k", b"1"], &[b"HSET", b"h", b"f", b"1"], &[b"RPUSH", b"l", b"a"], &[b"SADD", b"s", b"a"], &[b"ZADD", b"z", b"1", b"a"]], c, &[]);
    }
    println!("{bad} cases on which the two entry paths differ");
}
