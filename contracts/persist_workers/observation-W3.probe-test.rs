// Probe for unit persist_workers (C12), observation W3: the two legacy background workers perform a final flush on shutdown,
// but `run` returns `()`: when that flush fails nobody is told (stderr only).  The updates are NOT discarded - they stay buffered.
//   RUSTC_WRAPPER= cargo test --offline --test verif_persist_workers_probe -- --nocapture
use redis_sim::io::simulation::SimulatedRng;
use redis_sim::redis::SDS;
use redis_sim::replication::lattice::{LamportClock, ReplicaId};
use redis_sim::replication::state::{ReplicatedValue, ReplicationDelta};
use redis_sim::streaming::{
    FlushWorker, InMemoryObjectStore, ObjectStore, PersistenceWorker, SimulatedObjectStore,
    SimulatedStoreConfig, StreamingPersistence, WriteBuffer, WriteBufferConfig,
};
use std::sync::Arc;
use std::time::Duration;

fn make_delta(key: &str, value: &str, ts: u64) -> ReplicationDelta {
    let replica_id = ReplicaId::new(1);
    let clock = LamportClock { time: ts, replica_id };
    ReplicationDelta::new(key.to_string(), ReplicatedValue::with_value(SDS::from_str(value), clock), replica_id)
}

fn failing_puts(inner: InMemoryObjectStore) -> SimulatedObjectStore<InMemoryObjectStore, SimulatedRng> {
    SimulatedObjectStore::new(inner, SimulatedRng::new(7), SimulatedStoreConfig { put_fail_prob: 1.0, ..SimulatedStoreConfig::no_faults() })
}

fn quiet_config() -> WriteBufferConfig {
    let mut c = WriteBufferConfig::test();
    c.flush_interval = Duration::from_secs(3600); // no periodic flush: only the final one
    c
}

#[tokio::test]
async fn flush_worker_final_flush_failure() {
    let inner = InMemoryObjectStore::new();
    let buffer = Arc::new(WriteBuffer::new(Arc::new(failing_puts(inner.clone())), "t".to_string(), quiet_config()));
    for i in 0..3 { buffer.push(make_delta(&format!("k{}", i), "v", i)).unwrap(); }
    let (worker, handle) = FlushWorker::new(buffer.clone());
    let task = tokio::spawn(worker.run());
    tokio::time::sleep(Duration::from_millis(120)).await; // two ticks: should_flush says no
    assert_eq!(buffer.pending_count(), 3);
    handle.shutdown();
    let returned: () = task.await.unwrap(); // the only thing a caller gets
    let written = inner.exists("t/segment-00000000.seg").await.unwrap();
    eprintln!("FlushWorker: run returned {:?}; pending_count = {}; segment written = {}; total_segments_written = {}",
        returned, buffer.pending_count(), written, buffer.stats().total_segments_written);
    // W2/W3 as proved: the final flush was attempted, failed, and kept everything ...
    assert_eq!(buffer.pending_count(), 3);
    assert!(!written);
    // ... and the caller of run() has no value to tell that from success.
}

#[tokio::test]
async fn persistence_worker_final_flush_failure() {
    let inner = InMemoryObjectStore::new();
    let p = StreamingPersistence::new(Arc::new(failing_puts(inner.clone())), "t".to_string(), 1, quiet_config()).await.unwrap();
    let p = Arc::new(tokio::sync::Mutex::new(p));
    for i in 0..3 { p.lock().await.push(make_delta(&format!("k{}", i), "v", i)).unwrap(); }
    let (worker, handle) = PersistenceWorker::new(p.clone());
    let task = tokio::spawn(worker.run());
    tokio::time::sleep(Duration::from_millis(120)).await;
    handle.shutdown();
    let returned: () = task.await.unwrap();
    let g = p.lock().await;
    let manifest_exists = inner.exists("t/manifest.json").await.unwrap();
    eprintln!("PersistenceWorker: run returned {:?}; pending_count = {}; manifest written = {}; flush_errors = {}",
        returned, g.pending_count(), manifest_exists, g.stats().flush_errors);
    assert_eq!(g.pending_count(), 3);
    assert!(!manifest_exists);
    // the error of the FINAL flush is not even counted (flush_errors counts only the periodic ones)
    assert_eq!(g.stats().flush_errors, 0);
}
