// Replay probes for C01 (unit list_ops): execute_rpoplpush/ensures#4 and execute_lmove/ensures#4
// rotating a ONE-element list onto itself must keep the key's time to live
use redis_sim::redis::{Command, CommandExecutor, SDS};

fn s(ex: &mut CommandExecutor, c: Command) -> String { format!("{:?}", ex.execute(&c)) }

#[test]
fn rpoplpush_same_key_keeps_ttl() {
    let mut ex = CommandExecutor::new();
    s(&mut ex, Command::RPush("k".to_string(), vec![SDS::from_str("a")]));
    s(&mut ex, Command::expire("k".to_string(), 100));
    let r = s(&mut ex, Command::RPopLPush("k".to_string(), "k".to_string()));
    let t = s(&mut ex, Command::Ttl("k".to_string()));
    let l = s(&mut ex, Command::LRange("k".to_string(), 0, -1));
    eprintln!("RPOPLPUSH k k -> {}; TTL k -> {}; LRANGE k 0 -1 -> {}", r, t, l);
    assert_eq!(t, "Integer(100)");
}
#[test]
fn lmove_same_key_keeps_ttl() {
    let mut ex = CommandExecutor::new();
    s(&mut ex, Command::RPush("k".to_string(), vec![SDS::from_str("a")]));
    s(&mut ex, Command::expire("k".to_string(), 100));
    let r = s(&mut ex, Command::LMove { source: "k".to_string(), dest: "k".to_string(), wherefrom: "LEFT".to_string(), whereto: "RIGHT".to_string() });
    let t = s(&mut ex, Command::Ttl("k".to_string()));
    eprintln!("LMOVE k k LEFT RIGHT -> {}; TTL k -> {}", r, t);
    assert_eq!(t, "Integer(100)");
}
// control: two elements
#[test]
fn rpoplpush_same_key_two_elements() {
    let mut ex = CommandExecutor::new();
    s(&mut ex, Command::RPush("k".to_string(), vec![SDS::from_str("a"), SDS::from_str("b")]));
    s(&mut ex, Command::expire("k".to_string(), 100));
    s(&mut ex, Command::RPopLPush("k".to_string(), "k".to_string()));
    assert_eq!(s(&mut ex, Command::Ttl("k".to_string())), "Integer(100)");
}
