// @append-to: src/redis/data/skiplist.rs
// BOUNDED stand-in (Kani) for the contracts that unit `zset_container` (Verus) ASSUMES for the contract-only `SkipList`:
//   new / len / insert / remove_with_score / rank / range / rev_range over the abstract value "the (member, score) pairs
//   reached by walking level 0 from the header", which must be strictly sorted by (score, member bytes).
// The specification side (`Model`) is written from those contracts, NOT from the code: a sorted array of (member, score).
// BOUNDS: at most 3 elements are ever linked; members are the empty string or one byte (4 distinct members: "", 0x01,
// 0x02, 0x03 - the empty member exercises "a proper prefix sorts first"); scores range over the 6 values
// -inf, -1.5, -0.0, 0.0, 1.0, +inf (both zeros: IEEE == identifies them, the stored bits must be kept); node levels
// range over 1..=3 of the 32.  States are those REACHABLE by `new`, up to 3 `insert`s and at most one
// `remove_with_score` (not arbitrary arena contents).
// RANDOM LEVELS: `SkipList::random_level` (xorshift + float compare) is replaced through `#[kani::stub]` by
// `any_level`, which returns a nondeterministic level in 1..=3 (kani::any()), so every combination of tower heights within
// the bound is explored, including those the fixed seed would never produce; the generator itself is not under test.
#[cfg(kani)]
mod verif_kani_skiplist {
    use super::*;

    const MAXN: usize = 3;
    const MAXL: usize = 3;

    fn any_level(_sl: &mut SkipList) -> usize {
        let l: usize = kani::any();
        kani::assume(l >= 1 && l <= MAXL);
        l
    }
    fn score_of(c: u8) -> f64 {
        match c { 0 => f64::NEG_INFINITY, 1 => -1.5, 2 => -0.0, 3 => 0.0, 4 => 1.0, _ => f64::INFINITY }
    }
    fn any_score() -> f64 { let c: u8 = kani::any(); kani::assume(c < 6); score_of(c) }
    // member code 0 = "", code c in 1..=3 = the one byte c: memcmp order == numeric order of the codes
    fn any_code() -> u8 { let c: u8 = kani::any(); kani::assume(c <= 3); c }
    fn member_of(c: u8) -> Vec<u8> { if c == 0 { Vec::new() } else { vec![c] } }
    fn code_of(m: &[u8]) -> u8 { if m.len() == 0 { 0 } else if m.len() == 1 { m[0] } else { 255 } }

    // ---- the specification: a strictly sorted array of (member code, score)
    #[derive(Clone, Copy)]
    struct Model { n: usize, e: [(u8, f64); MAXN + 1] }
    // Redis order: score ascending, equal scores (IEEE ==) by member bytes
    fn lt(a: (u8, f64), b: (u8, f64)) -> bool { a.1 < b.1 || (a.1 == b.1 && a.0 < b.0) }
    impl Model {
        fn new() -> Model { Model { n: 0, e: [(0, 0.0); MAXN + 1] } }
        fn lacks(&self, c: u8) -> bool { let mut i = 0; while i < self.n { if self.e[i].0 == c { return false; } i += 1; } true }
        // index of the element with this member and an IEEE-equal score
        fn find(&self, c: u8, s: f64) -> Option<usize> {
            let mut i = 0;
            while i < self.n { if self.e[i].0 == c && self.e[i].1 == s { return Some(i); } i += 1; }
            None
        }
        fn insert(&mut self, x: (u8, f64)) {
            let mut p = 0;
            while p < self.n && lt(self.e[p], x) { p += 1; }
            let mut i = self.n;
            while i > p { self.e[i] = self.e[i - 1]; i -= 1; }
            self.e[p] = x;
            self.n += 1;
        }
        fn remove(&mut self, p: usize) {
            let mut i = p;
            while i + 1 < self.n { self.e[i] = self.e[i + 1]; i += 1; }
            self.n -= 1;
        }
    }
    // the abstract value of the real list (level-0 walk) equals the model, pair by pair, scores bit for bit
    fn same(sl: &SkipList, m: &Model) {
        assert!(sl.len() == m.n);
        let mut cur = sl.nodes[0].as_ref().unwrap().levels[0].forward;
        let mut k = 0;
        while k < m.n {
            let idx = match cur { Some(i) => i, None => { assert!(false); return; } };
            let node = sl.nodes[idx].as_ref().unwrap();
            assert!(code_of(&node.member) == m.e[k].0);
            assert!(node.score.to_bits() == m.e[k].1.to_bits());
            cur = node.levels[0].forward;
            k += 1;
        }
        assert!(cur.is_none());
    }
    // a reachable state: n <= max_n inserts of distinct members, then possibly one removal
    fn build(max_n: usize, with_removal: bool) -> (SkipList, Model) {
        let mut sl = SkipList::new();
        let mut m = Model::new();
        let n: usize = kani::any();
        kani::assume(n <= max_n);
        let mut i = 0;
        while i < n {
            let c = any_code();
            kani::assume(m.lacks(c));
            let s = any_score();
            sl.insert(member_of(c), s);
            m.insert((c, s));
            i += 1;
        }
        if with_removal && n > 0 && kani::any() {
            let p: usize = kani::any();
            kani::assume(p < m.n);
            let (c, s) = m.e[p];
            let r = sl.remove_with_score(member_of(c), s);
            assert!(r);
            m.remove(p);
        }
        (sl, m)
    }

    // @harness: skiplist_insert_links_at_sorted_position
    // @bound: <= 2 elements before the call (reachable states incl. one removal), 4 members, 6 scores, levels 1..=3; unwind 34
    // @tier: quick
    // @complete: false
    // @props: C01
    #[kani::proof]
    #[kani::unwind(34)]
    #[kani::stub(SkipList::random_level, any_level)]
    fn skiplist_insert_links_at_sorted_position() {
        let (mut sl, mut m) = build(MAXN - 1, true);
        same(&sl, &m);
        let c = any_code();
        kani::assume(m.lacks(c));
        let s = any_score();
        let r = sl.insert(member_of(c), s);
        assert!(r);
        m.insert((c, s));
        same(&sl, &m);
        std::mem::forget(sl);
    }

    // @harness: skiplist_remove_with_score_unlinks_exactly_the_match
    // @bound: <= 3 elements, 4 members, 6 scores, levels 1..=3; unwind 34
    // @tier: quick
    // @complete: false
    // @props: C01
    #[kani::proof]
    #[kani::unwind(34)]
    #[kani::stub(SkipList::random_level, any_level)]
    fn skiplist_remove_with_score_unlinks_exactly_the_match() {
        let (mut sl, mut m) = build(MAXN, false);
        let c = any_code();
        let s = any_score();
        let r = sl.remove_with_score(member_of(c), s);
        match m.find(c, s) {
            Some(p) => { assert!(r); m.remove(p); }
            None => assert!(!r),
        }
        same(&sl, &m);
        // the update path of RedisSortedSet::add: re-insert the member with another score
        if r {
            let s2 = any_score();
            assert!(sl.insert(member_of(c), s2));
            m.insert((c, s2));
            same(&sl, &m);
        }
        std::mem::forget(sl);
    }

    // @harness: skiplist_rank_is_the_position
    // @bound: <= 3 elements (reachable states incl. one removal), 4 members, 6 scores, levels 1..=3; unwind 34
    // @tier: quick
    // @complete: false
    // @props: C01
    #[kani::proof]
    #[kani::unwind(34)]
    #[kani::stub(SkipList::random_level, any_level)]
    fn skiplist_rank_is_the_position() {
        let (sl, m) = build(MAXN, true);
        let c = any_code();
        let s = any_score();
        let r = sl.rank(member_of(c), s);
        match (m.find(c, s), r) {
            (Some(p), Some(q)) => assert!(p == q),
            (None, None) => {}
            _ => assert!(false),
        }
        std::mem::forget(sl);
    }

    // elements start..=end of the model (end clamped), empty when start > end or start out of range
    fn check_window(r: &Vec<(&[u8], f64)>, m: &Model, start: usize, end: usize, reversed: bool) {
        if start > end || start >= m.n {
            assert!(r.is_empty());
        } else {
            let e = if end < m.n - 1 { end } else { m.n - 1 };
            assert!(r.len() == e - start + 1);
            let mut k = 0;
            while k < r.len() {
                let src = if reversed { m.n - 1 - (start + k) } else { start + k };
                assert!(code_of(r[k].0) == m.e[src].0);
                assert!(r[k].1.to_bits() == m.e[src].1.to_bits());
                k += 1;
            }
        }
    }

    // @harness: skiplist_range_is_the_subsequence
    // @bound: <= 3 elements (reachable states incl. one removal), start / end over all of usize; unwind 34
    // @tier: quick
    // @complete: false
    // @props: C01
    #[kani::proof]
    #[kani::unwind(34)]
    #[kani::stub(SkipList::random_level, any_level)]
    fn skiplist_range_is_the_subsequence() {
        let (sl, m) = build(MAXN, true);
        let start: usize = kani::any();
        let end: usize = kani::any();
        let r = sl.range(start, end);
        check_window(&r, &m, start, end, false);
        std::mem::forget(r);
        std::mem::forget(sl);
    }

    // @harness: skiplist_rev_range_is_the_reversed_subsequence
    // @bound: <= 3 elements (reachable states incl. one removal), start / end over all of usize; unwind 34
    // @tier: quick
    // @complete: false
    // @props: C01
    #[kani::proof]
    #[kani::unwind(34)]
    #[kani::stub(SkipList::random_level, any_level)]
    fn skiplist_rev_range_is_the_reversed_subsequence() {
        let (sl, m) = build(MAXN, true);
        let start: usize = kani::any();
        let end: usize = kani::any();
        let r = sl.rev_range(start, end);
        check_window(&r, &m, start, end, true);
        std::mem::forget(r);
        std::mem::forget(sl);
    }
}
