// @append-to: src/redis/data/skiplist.rs
// BOUNDED stand-in (Kani) for the contracts that unit `zset_container` (Verus) ASSUMES for the contract-only `SkipList`:
//   len / insert / remove_with_score / rank / range / rev_range over the abstract value "the (member, score) pairs reached by
//   walking level 0 from the header", which must be strictly sorted by (score, member bytes).
// The specification side (`Model`) is written from those contracts, NOT from the code: a sorted array of (member, score).
// BOUNDS (what CBMC can do on this arena - see NOT REACHED below): the STATE before the operation under test is one of a
// few CONCRETE reachable states of 2 or 3 elements (built by real `insert` / `remove_with_score` calls with fixed members,
// scores and tower heights 1..=3: ties on the score, both zeros, an infinite score, a freed slot); the ARGUMENTS of the
// operation under test are symbolic (kani::any()): any of the 4 members "", 0x01, 0x02, 0x03 (the empty member exercises
// "a proper prefix sorts first"), any of the 6 scores -inf, -1.5, -0.0, 0.0, 1.0, +inf (IEEE == identifies the zeros, the
// stored bits must be kept), start / end of range / rev_range over 0..=5 and usize::MAX.
// RANDOM LEVELS: `SkipList::random_level` (xorshift + float compare) is replaced through `#[kani::stub]` by `next_level`,
// which returns the value the harness has put into `rng_state` just before the call (tower heights 1..=3, fixed per call
// site).  The level generator itself is not under test (it only decides heights).
// The empty list is built by `fresh()` exactly as `SkipList::new()` builds it EXCEPT that the header tower has 3 levels
// instead of SKIPLIST_MAXLEVEL = 32 (the 32-iteration initialisation forces unwind 33 on every loop of the harness); with
// heights <= 3 the code may only touch header levels 0..=2 - an access above would be an index panic, which Kani reports.
// STATUS (measured on the pinned tree, 16 shared cores): NO harness of this file finished within 240 s - CBMC times out
// in symbolic execution even for ONE concrete state (three real `insert` calls) plus one operation with symbolic arguments
// (nested Vec<Option<SkipListNode>> / Vec<SkipListLevel> / Vec<u8> arena with `expect` on every access).  The harnesses
// are therefore tier `thorough`, are NOT in any baseline and prove nothing so far; they are kept as the statement of the
// bounded check to run with a larger budget.  The contracts are backed by the replay driver only.
// NOT REACHED by Kani (measured): the same harnesses over SYMBOLIC states - 3 inserts of symbolic (member, score) with
// symbolic heights 1..=3, or with fixed heights, or 2 inserts with heights 1..=2 - did not finish: symbolic execution alone
// took 85 .. 295 s and the solver ran out of the 400 s budget (one run reached 48 GB of memory and was killed).  Symbolic
// states, `SkipList::new()` and long runs with the real level generator are covered by the replay driver
// replay/src/zset_container.rs (differential, whole-state check after every operation), not by Kani.
#[cfg(kani)]
mod verif_kani_skiplist {
    use super::*;

    const MAXN: usize = 3;
    const MAXL: usize = 3;

    // the stub of random_level: the height the harness asked for
    fn next_level(sl: &mut SkipList) -> usize { sl.rng_state as usize }
    fn insert_at_level(sl: &mut SkipList, member: Vec<u8>, score: f64, level: usize) -> bool {
        assert!(level >= 1 && level <= MAXL);
        sl.rng_state = level as u64;
        sl.insert(member, score)
    }
    fn score_of(c: u8) -> f64 {
        match c { 0 => f64::NEG_INFINITY, 1 => -1.5, 2 => -0.0, 3 => 0.0, 4 => 1.0, _ => f64::INFINITY }
    }
    fn any_score() -> f64 { let c: u8 = kani::any(); kani::assume(c < 6); score_of(c) }
    // member code 0 = "", code c in 1..=3 = the one byte c: memcmp order == numeric order of the codes
    fn any_code() -> u8 { let c: u8 = kani::any(); kani::assume(c <= 3); c }
    fn member_of(c: u8) -> Vec<u8> { if c == 0 { Vec::new() } else { vec![c] } }
    fn code_of(m: &[u8]) -> u8 { if m.len() == 0 { 0 } else if m.len() == 1 { m[0] } else { 255 } }

    // ---- the specification: a strictly sorted array of (member code, score)
    #[derive(Clone, Copy)]
    struct Model { n: usize, e: [(u8, f64); MAXN + 1] }
    // Redis order: score ascending, equal scores (IEEE ==) by member bytes
    fn lt(a: (u8, f64), b: (u8, f64)) -> bool { a.1 < b.1 || (a.1 == b.1 && a.0 < b.0) }
    impl Model {
        fn new() -> Model { Model { n: 0, e: [(0, 0.0); MAXN + 1] } }
        fn lacks(&self, c: u8) -> bool { let mut i = 0; while i < self.n { if self.e[i].0 == c { return false; } i += 1; } true }
        // index of the element with this member and an IEEE-equal score
        fn find(&self, c: u8, s: f64) -> Option<usize> {
            let mut i = 0;
            while i < self.n { if self.e[i].0 == c && self.e[i].1 == s { return Some(i); } i += 1; }
            None
        }
        fn insert(&mut self, x: (u8, f64)) {
            let mut p = 0;
            while p < self.n && lt(self.e[p], x) { p += 1; }
            let mut i = self.n;
            while i > p { self.e[i] = self.e[i - 1]; i -= 1; }
            self.e[p] = x;
            self.n += 1;
        }
        fn remove(&mut self, p: usize) {
            let mut i = p;
            while i + 1 < self.n { self.e[i] = self.e[i + 1]; i += 1; }
            self.n -= 1;
        }
    }
    // the abstract value of the real list (level-0 walk) equals the model, pair by pair, scores bit for bit
    fn same(sl: &SkipList, m: &Model) {
        assert!(sl.len() == m.n);
        let mut cur = sl.nodes[0].as_ref().unwrap().levels[0].forward;
        let mut k = 0;
        while k < m.n {
            let idx = match cur { Some(i) => i, None => { assert!(false); return; } };
            let node = sl.nodes[idx].as_ref().unwrap();
            assert!(code_of(&node.member) == m.e[k].0);
            assert!(node.score.to_bits() == m.e[k].1.to_bits());
            cur = node.levels[0].forward;
            k += 1;
        }
        assert!(cur.is_none());
    }
    // `SkipList::new()` with a 3-level header (see the file comment)
    fn fresh() -> SkipList {
        let header = SkipListNode {
            member: Vec::new(),
            score: 0.0,
            levels: vec![
                SkipListLevel { forward: None, span: 0 },
                SkipListLevel { forward: None, span: 0 },
                SkipListLevel { forward: None, span: 0 },
            ],
            backward: None,
        };
        SkipList { nodes: vec![Some(header)], free_slots: Vec::new(), tail: None, level: 1, length: 0, rng_state: 0x853c49e6748fea9b }
    }
    // a CONCRETE reachable state: one real insert per (member code, score code, tower height), then, if asked, the real
    // removal of the element at position `remove_at` of the sorted sequence
    fn build(script: &[(u8, u8, usize)], remove_at: Option<usize>) -> (SkipList, Model) {
        let mut sl = fresh();
        let mut m = Model::new();
        let mut i = 0;
        while i < script.len() {
            let (c, sc, level) = script[i];
            let s = score_of(sc);
            assert!(m.lacks(c));
            let r = insert_at_level(&mut sl, member_of(c), s, level);
            assert!(r);
            m.insert((c, s));
            i += 1;
        }
        if let Some(p) = remove_at {
            let (c, s) = m.e[p];
            let r = sl.remove_with_score(member_of(c), s);
            assert!(r);
            m.remove(p);
        }
        same(&sl, &m);
        (sl, m)
    }
    // S1: distinct scores incl. a zero and +inf, heights 2,1,3;  S2: three-way tie on the score (order by member), heights 1,3,2
    // S3: -0.0 and 0.0 (IEEE-equal, ordered by member) and -inf, heights 3,1,2;  S4: S1 after the removal of its middle element
    const S1: [(u8, u8, usize); 3] = [(2, 3, 2), (0, 5, 1), (3, 1, 3)];
    const S2: [(u8, u8, usize); 3] = [(3, 4, 1), (1, 4, 3), (2, 4, 2)];
    const S3: [(u8, u8, usize); 3] = [(1, 3, 3), (2, 2, 1), (0, 0, 2)];
    const S12: [(u8, u8, usize); 2] = [(2, 3, 2), (3, 1, 3)];
    fn any_index() -> usize { let i: usize = kani::any(); kani::assume(i <= 5 || i == usize::MAX); i }

    fn check_insert(script: &[(u8, u8, usize)], remove_at: Option<usize>, level: usize) {
        let (mut sl, mut m) = build(script, remove_at);
        let c = any_code();
        kani::assume(m.lacks(c));
        let s = any_score();
        let r = insert_at_level(&mut sl, member_of(c), s, level);
        assert!(r);
        m.insert((c, s));
        same(&sl, &m);
        std::mem::forget(sl);
    }
    // @harness: skiplist_insert_links_at_sorted_position
    // @bound: concrete states S12 (2 elements), S1 / S2 / S3 after one removal (2 elements, a freed slot); the inserted (member, score) symbolic: the one or two absent members x 6 scores; heights 1, 2, 3; unwind 6
    // @tier: thorough
    // @complete: false
    // @props: C01
    #[kani::proof]
    #[kani::unwind(6)]
    #[kani::stub(SkipList::random_level, next_level)]
    fn skiplist_insert_links_at_sorted_position() {
        check_insert(&S12, None, 1);
        check_insert(&S1, Some(1), 2);
        check_insert(&S2, Some(0), 3);
        check_insert(&S3, Some(2), 2);
    }

    fn check_remove(script: &[(u8, u8, usize)]) {
        let (mut sl, mut m) = build(script, None);
        let c = any_code();
        let s = any_score();
        let r = sl.remove_with_score(member_of(c), s);
        match m.find(c, s) {
            Some(p) => { assert!(r); m.remove(p); }
            None => assert!(!r),
        }
        same(&sl, &m);
        // the update path of RedisSortedSet::add: re-insert the member with another score
        if r {
            let s2 = any_score();
            assert!(insert_at_level(&mut sl, member_of(c), s2, 2));
            m.insert((c, s2));
            same(&sl, &m);
        }
        std::mem::forget(sl);
    }
    // @harness: skiplist_remove_with_score_unlinks_exactly_the_match
    // @bound: concrete states S1, S2, S3 (3 elements); the (member, score) to remove symbolic: 4 members x 6 scores, present or not; if removed, re-inserted with any of the 6 scores; unwind 6
    // @tier: thorough
    // @complete: false
    // @props: C01
    #[kani::proof]
    #[kani::unwind(6)]
    #[kani::stub(SkipList::random_level, next_level)]
    fn skiplist_remove_with_score_unlinks_exactly_the_match() {
        check_remove(&S1);
        check_remove(&S2);
        check_remove(&S3);
    }

    fn check_rank(script: &[(u8, u8, usize)], remove_at: Option<usize>) {
        let (sl, m) = build(script, remove_at);
        let c = any_code();
        let s = any_score();
        let r = sl.rank(member_of(c), s);
        match (m.find(c, s), r) {
            (Some(p), Some(q)) => assert!(p == q),
            (None, None) => {}
            _ => assert!(false),
        }
        std::mem::forget(sl);
    }
    // @harness: skiplist_rank_is_the_position
    // @bound: concrete states S1, S2, S3 (3 elements) and S1 after one removal; the (member, score) asked for symbolic: 4 members x 6 scores; unwind 6
    // @tier: thorough
    // @complete: false
    // @props: C01
    #[kani::proof]
    #[kani::unwind(6)]
    #[kani::stub(SkipList::random_level, next_level)]
    fn skiplist_rank_is_the_position() {
        check_rank(&S1, None);
        check_rank(&S2, None);
        check_rank(&S3, None);
        check_rank(&S1, Some(1));
    }

    // elements start..=end of the model (end clamped), empty when start > end or start out of range
    fn check_window(r: &Vec<(&[u8], f64)>, m: &Model, start: usize, end: usize, reversed: bool) {
        if start > end || start >= m.n {
            assert!(r.is_empty());
        } else {
            let e = if end < m.n - 1 { end } else { m.n - 1 };
            assert!(r.len() == e - start + 1);
            let mut k = 0;
            while k < r.len() {
                let src = if reversed { m.n - 1 - (start + k) } else { start + k };
                assert!(code_of(r[k].0) == m.e[src].0);
                assert!(r[k].1.to_bits() == m.e[src].1.to_bits());
                k += 1;
            }
        }
    }
    fn check_range(script: &[(u8, u8, usize)], remove_at: Option<usize>, reversed: bool) {
        let (sl, m) = build(script, remove_at);
        let start = any_index();
        let end = any_index();
        let r = if reversed { sl.rev_range(start, end) } else { sl.range(start, end) };
        check_window(&r, &m, start, end, reversed);
        std::mem::forget(r);
        std::mem::forget(sl);
    }
    // @harness: skiplist_range_is_the_subsequence
    // @bound: concrete states S1, S3 (3 elements) and S2 after one removal (2 elements); start, end symbolic in 0..=5 and usize::MAX; unwind 6
    // @tier: thorough
    // @complete: false
    // @props: C01
    #[kani::proof]
    #[kani::unwind(6)]
    #[kani::stub(SkipList::random_level, next_level)]
    fn skiplist_range_is_the_subsequence() {
        check_range(&S1, None, false);
        check_range(&S3, None, false);
        check_range(&S2, Some(1), false);
    }

    // @harness: skiplist_rev_range_is_the_reversed_subsequence
    // @bound: concrete states S2, S3 (3 elements) and S1 after one removal (2 elements); start, end symbolic in 0..=5 and usize::MAX; unwind 6
    // @tier: thorough
    // @complete: false
    // @props: C01
    #[kani::proof]
    #[kani::unwind(6)]
    #[kani::stub(SkipList::random_level, next_level)]
    fn skiplist_rev_range_is_the_reversed_subsequence() {
        check_range(&S2, None, true);
        check_range(&S3, None, true);
        check_range(&S1, Some(0), true);
    }
}
