// Probe for unit zset_container (C01): NaN scores entering the sorted-set container.  Copy to
// <scratch copy of /repo>/tests/zz_probe_zc.rs and run
//   RUSTC_WRAPPER= cargo test --offline --no-default-features --test zz_probe_zc -- --nocapture --test-threads 1
// Both tests FAIL on /repo @7ef1f75 (ZADD z nan a is parsed; in this debug build the first ZADD already panics in
// RedisSortedSet::verify_invariants) and PASS with fix-candidate.patch applied.  Release build (no debug assertions), observed
// with the same commands: ZADD z nan a -> 1; ZADD z 1 b -> 1; ZRANK z a -> nil; ZREM z a -> 1; ZCARD z -> 1; ZRANGE z 0 -1 -> [a, b].
// The container's contract (unit.vt: RedisSortedSet::add requires !nan(score)) excludes NaN: Redis rejects it at the parser.
use redis_sim::redis::{Command, CommandExecutor, RespParser, RespValue, SDS};

fn s(ex: &mut CommandExecutor, c: Command) -> String { format!("{:?}", ex.execute(&c)) }
fn cmd(parts: &[&str]) -> Result<Command, String> {
    let v = RespValue::Array(Some(parts.iter().map(|p| RespValue::BulkString(Some(p.as_bytes().to_vec()))).collect()));
    Command::from_resp(&v)
}

#[test]
fn zadd_nan_is_rejected_by_the_parser() {
    let r = cmd(&["ZADD", "z", "nan", "a"]);
    eprintln!("parse ZADD z nan a -> {:?}", r);
    assert!(r.is_err(), "Redis: ERR value is not a valid float");
}

#[test]
fn zadd_nan_twice_keeps_map_and_skiplist_in_sync() {
    let mut ex = CommandExecutor::new();
    let c = match cmd(&["ZADD", "z", "nan", "a"]) { Ok(c) => c, Err(e) => { eprintln!("rejected: {}", e); return; } };
    let r1 = std::panic::catch_unwind(std::panic::AssertUnwindSafe(|| s(&mut ex, c.clone())));
    let r2 = std::panic::catch_unwind(std::panic::AssertUnwindSafe(|| s(&mut ex, c.clone())));
    eprintln!("ZADD z nan a -> {:?}; again -> {:?}", r1, r2);
    let card = s(&mut ex, Command::ZCard("z".to_string()));
    let rg = s(&mut ex, Command::ZRange("z".to_string(), 0, -1, false));
    let rem = s(&mut ex, Command::ZRem("z".to_string(), vec![SDS::from_str("a")]));
    let rg2 = s(&mut ex, Command::ZRange("z".to_string(), 0, -1, false));
    eprintln!("ZCARD z -> {}; ZRANGE z 0 -1 -> {}; ZREM z a -> {}; ZRANGE z 0 -1 -> {}", card, rg, rem, rg2);
    assert!(r1.is_ok() && r2.is_ok());
    assert_eq!(card, "Integer(1)");
}
