// Probe for C01 (unit zset_container, RedisSortedSet::range_by_score): ZRANGEBYSCORE .. LIMIT with a negative offset.
// Copy to <scratch copy of /repo>/tests/zz_probe_zrbs_limit.rs and run
//   RUSTC_WRAPPER= cargo test --offline --test zz_probe_zrbs_limit -- --nocapture --test-threads 1
// Redis (t_zset.c, genericZrangebyscoreCommand: `while (ln && offset--)` walks off the end for offset < 0, then
// `while (ln && limit--)`): a negative offset selects NOTHING; a negative count means "all elements from the offset"
// (documented: "A negative count returns all elements from the offset").
// On /repo @3ffd2f7 `negative_offset_selects_nothing*` FAIL (the offset is clamped to 0: the reply is [a, b]);
// the controls pass before and after; with fix-candidate-zrbs-limit.patch applied all of them PASS.
use redis_sim::redis::{Command, CommandExecutor, RedisSortedSet, RespParser, SDS};

fn s(ex: &mut CommandExecutor, c: &Command) -> String { format!("{:?}", ex.execute(c)) }
fn bulk(x: &str) -> String { format!("BulkString(Some({:?}))", x.as_bytes()) }
fn arr(items: &[String]) -> String { format!("Array(Some([{}]))", items.join(", ")) }
fn setup() -> CommandExecutor {
    let mut ex = CommandExecutor::new();
    ex.execute(&Command::ZAdd {
        key: "z".to_string(),
        pairs: vec![(1.0, SDS::from_str("a")), (2.0, SDS::from_str("b")), (3.0, SDS::from_str("c"))],
        nx: false, xx: false, gt: false, lt: false, ch: false,
    });
    ex
}
// the command as a client sends it, through the real RESP parser and command parser
fn wire(args: &[&str]) -> Command {
    let mut f = format!("*{}\r\n", args.len());
    for a in args { f.push_str(&format!("${}\r\n{}\r\n", a.len(), a)); }
    let (v, _) = RespParser::parse(f.as_bytes()).expect("frame");
    Command::from_resp(&v).expect("command")
}

#[test]
fn negative_offset_selects_nothing() {
    let mut ex = setup();
    let c = wire(&["ZRANGEBYSCORE", "z", "-inf", "+inf", "LIMIT", "-1", "2"]);
    let r = s(&mut ex, &c);
    eprintln!("ZADD z 1 a 2 b 3 c; ZRANGEBYSCORE z -inf +inf LIMIT -1 2 -> {}", r);
    assert_eq!(r, arr(&[]));                         // defect: [a, b]
}
#[test]
fn negative_offset_selects_nothing_in_the_container() {
    let mut z = RedisSortedSet::new();
    z.add(SDS::from_str("a"), 1.0);
    z.add(SDS::from_str("b"), 2.0);
    z.add(SDS::from_str("c"), 3.0);
    let r = z.range_by_score("-inf", "+inf", true, Some((-5, 1))).expect("bounds parse");
    eprintln!("range_by_score(-inf, +inf, WITHSCORES, LIMIT -5 1) -> {} item(s)", r.len());
    assert_eq!(r.len(), 0);                          // defect: 1 item (a, 1)
}
// controls (pass before and after)
#[test]
fn negative_count_means_all_from_the_offset() {
    let mut ex = setup();
    let c = wire(&["ZRANGEBYSCORE", "z", "-inf", "+inf", "LIMIT", "1", "-1"]);
    let r = s(&mut ex, &c);
    eprintln!("ZRANGEBYSCORE z -inf +inf LIMIT 1 -1 -> {}", r);
    assert_eq!(r, arr(&[bulk("b"), bulk("c")]));
}
#[test]
fn limit_drops_offset_and_keeps_count() {
    let mut ex = setup();
    let r = s(&mut ex, &wire(&["ZRANGEBYSCORE", "z", "(1", "+inf", "LIMIT", "1", "5"]));
    assert_eq!(r, arr(&[bulk("c")]));
    let r = s(&mut ex, &wire(&["ZRANGEBYSCORE", "z", "-inf", "+inf", "LIMIT", "0", "2"]));
    assert_eq!(r, arr(&[bulk("a"), bulk("b")]));
    let r = s(&mut ex, &wire(&["ZRANGEBYSCORE", "z", "-inf", "+inf", "LIMIT", "3", "2"]));
    assert_eq!(r, arr(&[]));
}
