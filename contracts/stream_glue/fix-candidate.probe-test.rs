// Replay probe for C12 (stream_glue/WriteBuffer::flush/ensures#6): append to src/streaming/write_buffer.rs and run
//   RUSTC_WRAPPER= cargo test --offline --lib streaming::write_buffer::verif_c12_wb
// Unfixed tree: FAILS at "seed .. step ..: an accepted update vanished" (push; flush() -> Err; pending_count() == 0, no object written).
// With fix-candidate.patch applied: passes.
#[cfg(test)]
mod verif_c12_wb_probe {
    use super::*;
    use crate::io::simulation::SimulatedRng;
    use crate::redis::SDS;
    use crate::replication::lattice::{LamportClock, ReplicaId};
    use crate::replication::state::ReplicatedValue;
    use crate::streaming::{InMemoryObjectStore, SimulatedObjectStore, SimulatedStoreConfig};

    fn make_delta(key: &str, value: &str, ts: u64) -> ReplicationDelta {
        let replica_id = ReplicaId::new(1);
        let clock = LamportClock { time: ts, replica_id };
        ReplicationDelta::new(key.to_string(), ReplicatedValue::with_value(SDS::from_str(value), clock), replica_id)
    }

    // failing puts: every update pushed must either still be pending or have been flushed by a flush that returned Ok
    #[tokio::test]
    async fn failed_flush_keeps_accepted_updates() {
        for seed in 0..20u64 {
            let store = Arc::new(SimulatedObjectStore::new(
                InMemoryObjectStore::new(),
                SimulatedRng::new(seed),
                SimulatedStoreConfig { put_fail_prob: 0.5, ..SimulatedStoreConfig::no_faults() },
            ));
            let buffer = WriteBuffer::new(store, "t".to_string(), WriteBufferConfig::test());
            let mut pushed = 0usize;
            let mut flushed = 0usize;
            let mut failures = 0usize;
            for i in 0..30 {
                buffer.push(make_delta(&format!("k{}", i), "v", i as u64)).unwrap();
                pushed += 1;
                let pending_before = buffer.pending_count();
                match buffer.flush().await {
                    Ok(Some(_)) => { flushed += pending_before; assert_eq!(buffer.pending_count(), 0); }
                    Ok(None) => {}
                    Err(_) => { failures += 1; }
                }
                assert_eq!(flushed + buffer.pending_count(), pushed, "seed {} step {}: an accepted update vanished", seed, i);
            }
            eprintln!("seed {}: pushed {} flushed {} pending {} failed-flushes {}", seed, pushed, flushed, buffer.pending_count(), failures);
        }
    }
}
