// Replay probe for C17 (err_frame/CommandExecutor::execute_rpoplpush/ensures#1, execute_lmove/ensures#1)
use redis_sim::redis::{Command, CommandExecutor, RespValue, SDS};

fn show(r: &RespValue) -> String { format!("{:?}", r) }

#[test]
fn rpoplpush_wrongtype_dest_must_not_touch_source() {
    let mut ex = CommandExecutor::new();
    ex.execute(&Command::RPush("src".to_string(), vec![SDS::from_str("a")]));
    ex.execute(&Command::set("dst".to_string(), SDS::from_str("x")));
    let before = show(&ex.execute(&Command::LRange("src".to_string(), 0, -1)));
    let reply = ex.execute(&Command::RPopLPush("src".to_string(), "dst".to_string()));
    let after = show(&ex.execute(&Command::LRange("src".to_string(), 0, -1)));
    let exists = show(&ex.execute(&Command::Exists(vec!["src".to_string()])));
    eprintln!("reply={:?} before={} after={} exists(src)={}", reply, before, after, exists);
    assert!(matches!(reply, RespValue::Error(_)));
    assert_eq!(before, after, "error reply but src changed");
}

#[test]
fn lmove_wrongtype_dest_must_not_touch_source() {
    let mut ex = CommandExecutor::new();
    ex.execute(&Command::RPush("src".to_string(), vec![SDS::from_str("a"), SDS::from_str("b")]));
    ex.execute(&Command::set("dst".to_string(), SDS::from_str("x")));
    let before = show(&ex.execute(&Command::LRange("src".to_string(), 0, -1)));
    let reply = ex.execute(&Command::LMove { source: "src".to_string(), dest: "dst".to_string(), wherefrom: "LEFT".to_string(), whereto: "RIGHT".to_string() });
    let after = show(&ex.execute(&Command::LRange("src".to_string(), 0, -1)));
    eprintln!("reply={:?} before={} after={}", reply, before, after);
    assert!(matches!(reply, RespValue::Error(_)));
    assert_eq!(before, after, "error reply but src changed");
}
