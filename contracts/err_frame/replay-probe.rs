// Replay probe for C17 (err_frame/CommandExecutor::execute_rpoplpush/ensures#1, execute_lmove/ensures#1)
use redis_sim::redis::{Command, CommandExecutor, RespValue, SDS};

fn show(r: &RespValue) -> String { format!("{:?}", r) }

#[test]
fn rpoplpush_wrongtype_dest_must_not_touch_source() {
    let mut ex = CommandExecutor::new();
    ex.execute(&Command::RPush("src".to_string(), vec![SDS::from_str("a")]));
    ex.execute(&Command::set("dst".to_string(), SDS::from_str("x")));
    let before = show(&ex.execute(&Command::LRange("src".to_string(), 0, -1)));
    let reply = ex.execute(&Command::RPopLPush("src".to_string(), "dst".to_string()));
    let after = show(&ex.execute(&Command::LRange("src".to_string(), 0, -1)));
    let exists = show(&ex.execute(&Command::Exists(vec!["src".to_string()])));
    eprintln!("reply={:?} before={} after={} exists(src)={}", reply, before, after, exists);
    assert!(matches!(reply, RespValue::Error(_)));
    assert_eq!(before, after, "error reply but src changed");
}

#[test]
fn lmove_wrongtype_dest_must_not_touch_source() {
    let mut ex = CommandExecutor::new();
    ex.execute(&Command::RPush("src".to_string(), vec![SDS::from_str("a"), SDS::from_str("b")]));
    ex.execute(&Command::set("dst".to_string(), SDS::from_str("x")));
    let before = show(&ex.execute(&Command::LRange("src".to_string(), 0, -1)));
    let reply = ex.execute(&Command::LMove { source: "src".to_string(), dest: "dst".to_string(), wherefrom: "LEFT".to_string(), whereto: "RIGHT".to_string() });
    let after = show(&ex.execute(&Command::LRange("src".to_string(), 0, -1)));
    eprintln!("reply={:?} before={} after={}", reply, before, after);
    assert!(matches!(reply, RespValue::Error(_)));
    assert_eq!(before, after, "error reply but src changed");
}

// Observation (not C17): MSETNX / MSET onto a key whose deadline has passed but which has not been purged yet
#[test]
fn msetnx_on_expired_key_observation() {
    use redis_sim::simulator::VirtualTime;
    let mut ex = CommandExecutor::new();
    ex.set_time(VirtualTime::from_millis(1_000));
    ex.execute(&Command::setex("k".to_string(), 1, SDS::from_str("old")));
    ex.set_time(VirtualTime::from_millis(5_000));
    let r = ex.execute(&Command::MSetNx(vec![("k".to_string(), SDS::from_str("new"))]));
    let g = ex.execute(&Command::Get("k".to_string()));
    eprintln!("MSETNX reply={:?}  GET k -> {:?}", r, g);
    let mut ex = CommandExecutor::new();
    ex.set_time(VirtualTime::from_millis(1_000));
    ex.execute(&Command::setex("k".to_string(), 10, SDS::from_str("old")));
    let r = ex.execute(&Command::MSet(vec![("k".to_string(), SDS::from_str("new"))]));
    let t = ex.execute(&Command::Ttl("k".to_string()));
    eprintln!("MSET reply={:?}  TTL k -> {:?}", r, t);
}
