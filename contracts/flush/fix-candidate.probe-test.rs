// Replay probe for C12 (flush/StreamingPersistence::flush/ensures#1): append to src/streaming/persistence.rs and run
//   cargo test --offline --lib streaming::persistence::verif_c12
// Unfixed tree: FAILS at "seed 0 step 3: an accepted update vanished" (push; flush() -> Err; pending_count() == 0).
// With fix-candidate.patch applied: passes (and all 143 streaming:: tests pass).
#[cfg(test)]
mod verif_c12_fix_probe {
    use super::*;
    use crate::redis::SDS;
    use crate::replication::lattice::{LamportClock, ReplicaId};
    use crate::replication::state::ReplicatedValue;
    use crate::io::simulation::SimulatedRng;
    use crate::streaming::{InMemoryObjectStore, SimulatedObjectStore, SimulatedStoreConfig};

    fn make_delta(key: &str, value: &str, ts: u64) -> ReplicationDelta {
        let replica_id = ReplicaId::new(1);
        let clock = LamportClock { time: ts, replica_id };
        ReplicationDelta::new(key.to_string(), ReplicatedValue::with_value(SDS::from_str(value), clock), replica_id)
    }

    // failing puts: every update pushed must either still be pending or be in a listed segment
    #[tokio::test]
    async fn failed_flush_keeps_accepted_updates() {
        for seed in 0..20u64 {
            let inner = InMemoryObjectStore::new();
            let store = Arc::new(SimulatedObjectStore::new(
                inner,
                SimulatedRng::new(seed),
                SimulatedStoreConfig { put_fail_prob: 0.5, ..SimulatedStoreConfig::no_faults() },
            ));
            let mut p = match StreamingPersistence::new(store, "t".to_string(), 1, WriteBufferConfig::test()).await {
                Ok(p) => p,
                Err(_) => continue,
            };
            let mut pushed = 0usize;
            let mut flushed = 0usize;
            let mut failures = 0usize;
            for i in 0..30 {
                p.push(make_delta(&format!("k{}", i), "v", i as u64)).unwrap();
                pushed += 1;
                match p.flush().await {
                    Ok(r) => { flushed += r.deltas_flushed; assert_eq!(p.pending_count(), 0); }
                    Err(_) => { failures += 1; }
                }
                assert_eq!(flushed + p.pending_count(), pushed, "seed {} step {}: an accepted update vanished", seed, i);
            }
            eprintln!("seed {}: pushed {} flushed {} pending {} failed-flushes {}", seed, pushed, flushed, p.pending_count(), failures);
        }
    }
}
