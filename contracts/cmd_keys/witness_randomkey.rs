//! Witness for cmd_keys/lemma:keyspace_wide_is_broadcast (C03): RANDOMKEY reads the whole keyspace of the executor it runs on
//! (CommandExecutor::execute, arm `Command::RandomKey`: `self.data.keys().find(..)`), but ShardedActorState::execute has no
//! arm for it: `get_primary_key()` is None, so the command is sent to shard 0 only.
//! Build as a bin crate with `redis-sim = { path = "<repo>", default-features = false }`, tokio (full), bytes.
//! Expected on the unfixed tree:  N shards answer nil although the database holds a key; 1 shard answers the key.
use redis_sim::production::ShardedActorState;
use redis_sim::redis::{Command, RespValue, SDS};

fn sds(s: &str) -> SDS { SDS::new(s.as_bytes().to_vec()) }

async fn session(n: usize, key: &str) -> Vec<String> {
    let st = ShardedActorState::with_shards(n);
    let mut out = Vec::new();
    out.push(format!("{:?}", st.execute(&Command::set(key.to_string(), sds("v"))).await));
    out.push(format!("{:?}", st.execute(&Command::DbSize).await));
    out.push(format!("{:?}", st.execute(&Command::RandomKey).await));
    out
}

#[tokio::main]
async fn main() {
    let mut diffs = 0;
    for n in [2usize, 4, 8] {
        for i in 0..8 {
            let key = format!("k{i}");
            let one = session(1, &key).await;
            let many = session(n, &key).await;
            if one != many {
                diffs += 1;
                println!("DIFF shards={n}: SET {key} v; DBSIZE; RANDOMKEY\n  1 shard : {:?}\n  {n} shards: {:?}", one, many);
            }
        }
    }
    // an empty database answers nil on both
    let e1 = ShardedActorState::with_shards(1).execute(&Command::RandomKey).await;
    let e4 = ShardedActorState::with_shards(4).execute(&Command::RandomKey).await;
    assert!(matches!(e1, RespValue::BulkString(None)) && matches!(e4, RespValue::BulkString(None)));
    println!("{} sessions differ", diffs);
}
