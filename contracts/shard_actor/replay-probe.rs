// Replay probe for C01 (unit shard_actor, ShardActor::run/assert#1..#3): a key stays visible to the fast-path GETs after
// its deadline, because those arms never refresh the executor's clock.
use redis_sim::buggify::FaultConfig;
use redis_sim::io::simulation::SimulationContext;
use redis_sim::io::{Duration, SimulatedTimeSource};
use redis_sim::production::{ShardConfig, ShardedActorState};
use redis_sim::redis::{Command, RespValue, SDS};
use std::sync::Arc;

fn nil() -> String { format!("{:?}", RespValue::BulkString(None)) }

#[tokio::test]
async fn fast_get_after_deadline() {
    let ctx = Arc::new(SimulationContext::new(1, FaultConfig::disabled()));
    let state = ShardedActorState::with_config_and_time_source(ShardConfig::with_shards(1), SimulatedTimeSource::new_default(ctx.clone()));
    let set = Command::Set { key: "k".to_string(), value: SDS::from_str("v"), ex: None, px: Some(50), exat: None, pxat: None, nx: false, xx: false, get: false, keepttl: false };
    let r = state.execute(&set).await;
    eprintln!("SET k v PX 50 -> {:?}", r);
    ctx.advance_by(Duration::from_millis(1_000)); // well past the deadline
    let fast = format!("{:?}", state.fast_get(bytes::Bytes::from_static(b"k")).await);
    let pooled = format!("{:?}", state.pooled_fast_get(bytes::Bytes::from_static(b"k")).await);
    let batch = format!("{:?}", state.fast_batch_get_pipeline(vec![bytes::Bytes::from_static(b"k")]).await);
    let slow = format!("{:?}", state.execute(&Command::Get("k".to_string())).await);
    eprintln!("1000 ms later: fast_get -> {}; pooled_fast_get -> {}; fast_batch_get -> {}; GET via execute -> {}", fast, pooled, batch, slow);
    assert_eq!(fast, nil(), "fast_get sees an expired key");
    assert_eq!(pooled, nil(), "pooled_fast_get sees an expired key");
    assert_eq!(batch, format!("[{}]", nil()), "fast_batch_get sees an expired key");
}
