//! Executable witnesses on the REAL crate (path dependency on /repo, nothing modified).
use redis_sim::redis::SDS;
use redis_sim::replication::lattice::{LamportClock, ReplicaId};
use redis_sim::replication::state::{ReplicatedValue, ReplicationDelta};
use redis_sim::streaming::compaction::{CompactionConfig, Compactor};
use redis_sim::streaming::{
    Compression, InMemoryObjectStore, InMemoryWalStore, Manifest, ManifestManager, ObjectStore,
    RecoveryManager, SegmentInfo, SegmentWriter, WalEntry, WalRotator,
};
use std::collections::HashMap;
use std::sync::Arc;
use std::time::Duration;

fn set(key: &str, value: &str, ts: u64, replica: u64) -> ReplicationDelta {
    let r = ReplicaId::new(replica);
    let v = ReplicatedValue::with_value(SDS::from_str(value), LamportClock { time: ts, replica_id: r });
    ReplicationDelta::new(key.to_string(), v, r)
}
fn del(key: &str, ts: u64, replica: u64) -> ReplicationDelta {
    let r = ReplicaId::new(replica);
    // delete() ticks the clock: start one below so that the tombstone is stamped `ts`
    let mut clock = LamportClock { time: ts - 1, replica_id: r };
    let mut v = ReplicatedValue::new(r);
    v.delete(&mut clock);
    ReplicationDelta::new(key.to_string(), v, r)
}
async fn write_segment(store: &InMemoryObjectStore, m: &mut Manifest, id: u64, deltas: &[ReplicationDelta]) {
    let key = format!("test/segments/segment-{:08}.seg", id);
    let mut w = SegmentWriter::new(Compression::None);
    let (mut lo, mut hi) = (u64::MAX, 0u64);
    for d in deltas {
        w.write_delta(d).unwrap();
        lo = lo.min(d.value.timestamp.time);
        hi = hi.max(d.value.timestamp.time);
    }
    let data = w.finish().unwrap();
    store.put(&key, &data).await.unwrap();
    m.add_segment(SegmentInfo { id, key, record_count: deltas.len() as u32, size_bytes: data.len() as u64, min_timestamp: lo, max_timestamp: hi });
    m.next_segment_id = id + 1;
}
/// what recovery rebuilds: per key, the merge of every recovered delta (ReplicatedShardedState::apply_recovered_state does this)
fn fold(deltas: &[ReplicationDelta]) -> HashMap<String, Option<String>> {
    let mut st: HashMap<String, ReplicatedValue> = HashMap::new();
    for d in deltas {
        let v = match st.get(&d.key) { Some(old) => old.merge(&d.value), None => d.value.clone() };
        st.insert(d.key.clone(), v);
    }
    st.into_iter().map(|(k, v)| (k, v.get().map(|s| String::from_utf8_lossy(s.as_bytes()).to_string()))).collect()
}

#[tokio::main]
async fn main() {
    let which = std::env::args().nth(1).unwrap_or_default();
    let mut failed = false;
    if which.is_empty() || which == "c11" { failed |= c11().await; }
    if which.is_empty() || which == "c13a" { failed |= c13_tombstone().await; }
    if which.is_empty() || which == "c13b" { failed |= c13_keep_latest().await; }
    if which.is_empty() || which == "c12" { failed |= c12_flush_vs_compaction().await; }
    std::process::exit(if failed { 1 } else { 0 });
}

/// C11: recover_with_wal drops a WAL entry whose stamp is below the object-store high-water mark although no segment holds it.
async fn c11() -> bool {
    let store = InMemoryObjectStore::new();
    let mm = ManifestManager::new(store.clone(), "test");
    let mut m = Manifest::new(1);
    // shard A's clock is at 100: its update was flushed to segment 0
    write_segment(&store, &mut m, 0, &[set("a", "flushed", 100, 1)]).await;
    mm.save(&m).await.unwrap();
    // shard B's clock is at 5: its update reached the WAL (acknowledged, fsynced) but not yet a segment
    let wal_store = InMemoryWalStore::new();
    let mut wal = WalRotator::new(wal_store.clone(), 1 << 20).unwrap();
    let b = set("b", "only-in-wal", 5, 1);
    wal.append(&WalEntry::from_delta(&b, b.value.timestamp.time).unwrap()).unwrap();
    wal.sync().unwrap();
    drop(wal);
    let wal = WalRotator::new(wal_store, 1 << 20).unwrap();
    println!("C11 WAL holds {} entries", wal.recover_all_entries().unwrap().len());
    let rec = RecoveryManager::new(store, "test", 1).recover_with_wal(&wal).await.unwrap();
    let st = fold(&rec.deltas);
    println!("C11 recovered keys: {:?}", st);
    let lost = !st.contains_key("b");
    println!("C11 witness: WAL entry b@5 {} (segment high-water mark 100)", if lost { "DROPPED" } else { "replayed" });
    lost
}

/// C13: a tombstone younger than the TTL is dropped (Lamport ticks compared with wall-clock ms) and the deleted key resurfaces
/// from an older segment that was above the size target and therefore not part of the compaction.
async fn c13_tombstone() -> bool {
    let store = Arc::new(InMemoryObjectStore::new());
    let mm = ManifestManager::new((*store).clone(), "test");
    let mut m = Manifest::new(1);
    // segment 0: SET k@1 plus padding so that it is ABOVE target_segment_size (1 KiB in the test config) and never selected
    let mut big = vec![set("k", "old-value", 1, 1)];
    for i in 0..40 { big.push(set(&format!("pad{}", i), "xxxxxxxxxxxxxxxxxxxxxxxxxxxxxxxxxxxxxxxx", 2 + i, 1)); }
    write_segment(&store, &mut m, 0, &big).await;
    // segments 1, 2 (small): DEL k@50, unrelated key
    write_segment(&store, &mut m, 1, &[del("k", 50, 1)]).await;
    write_segment(&store, &mut m, 2, &[set("other", "v", 51, 1)]).await;
    mm.save(&m).await.unwrap();
    let before = fold(&RecoveryManager::new((*store).clone(), "test", 1).recover().await.unwrap().deltas);
    let mut cfg = CompactionConfig::test();
    cfg.tombstone_ttl = Duration::from_secs(24 * 3600);      // the tombstone is seconds old: far younger than the TTL
    let mut c = Compactor::new(store.clone(), "test".to_string(), ManifestManager::new((*store).clone(), "test"), cfg);
    let res = c.compact().await.unwrap();
    println!("C13a compaction: removed {} segments, tombstones_removed={}", res.segments_removed.len(), res.tombstones_removed);
    let after = fold(&RecoveryManager::new((*store).clone(), "test", 1).recover().await.unwrap().deltas);
    println!("C13a k before compaction: {:?}   after: {:?}", before.get("k"), after.get("k"));
    let bad = before.get("k") != after.get("k");
    println!("C13a witness: {}", if bad { "deleted key RESURRECTED (tombstone dropped 24h before its TTL)" } else { "no change" });
    bad
}

/// C13: survivors are chosen by `time >` instead of being merged: with equal times from two replicas the first one read wins,
/// whereas the merge (and therefore recovery before compaction) picks the greater (time, replica) stamp.
async fn c13_keep_latest() -> bool {
    let store = Arc::new(InMemoryObjectStore::new());
    let mm = ManifestManager::new((*store).clone(), "test");
    let mut m = Manifest::new(1);
    write_segment(&store, &mut m, 0, &[set("k", "from-replica-1", 7, 1)]).await;
    write_segment(&store, &mut m, 1, &[set("k", "from-replica-2", 7, 2)]).await;
    mm.save(&m).await.unwrap();
    let before = fold(&RecoveryManager::new((*store).clone(), "test", 1).recover().await.unwrap().deltas);
    let mut c = Compactor::new(store.clone(), "test".to_string(), ManifestManager::new((*store).clone(), "test"), CompactionConfig::test());
    c.compact().await.unwrap();
    let after = fold(&RecoveryManager::new((*store).clone(), "test", 1).recover().await.unwrap().deltas);
    println!("C13b k before compaction: {:?}   after: {:?}", before.get("k"), after.get("k"));
    let bad = before.get("k") != after.get("k");
    println!("C13b witness: {}", if bad { "compaction CHANGED the recovered value" } else { "no change" });
    bad
}


// ---------------------------------------------------------------------------------------------------------------
// C12 / C13: a flush that completes while a compaction is in progress (they run as two tasks with two ManifestManager
// instances in production, streaming/integration.rs).  The schedule is forced deterministically: the store handed to the
// compactor runs the flush the first time the compactor reads a segment, i.e. after compaction has loaded the manifest.
use redis_sim::streaming::{ListResult, ObjectMeta, StreamingPersistence};
use redis_sim::streaming::config::WriteBufferConfig;
use std::future::Future;
use std::pin::Pin;
type Hook = Arc<tokio::sync::Mutex<Option<Pin<Box<dyn Future<Output = ()> + Send>>>>>;
#[derive(Clone)]
struct HookStore { inner: InMemoryObjectStore, hook: Hook }
type IoRes<T> = std::io::Result<T>;
impl ObjectStore for HookStore {
    fn put<'a>(&'a self, key: &'a str, data: &'a [u8]) -> Pin<Box<dyn Future<Output = IoRes<()>> + Send + 'a>> { self.inner.put(key, data) }
    fn get<'a>(&'a self, key: &'a str) -> Pin<Box<dyn Future<Output = IoRes<Vec<u8>>> + Send + 'a>> {
        Box::pin(async move {
            if key.contains("/segments/") {
                let h = self.hook.lock().await.take();
                if let Some(f) = h { f.await; }
            }
            self.inner.get(key).await
        })
    }
    fn exists<'a>(&'a self, key: &'a str) -> Pin<Box<dyn Future<Output = IoRes<bool>> + Send + 'a>> { self.inner.exists(key) }
    fn delete<'a>(&'a self, key: &'a str) -> Pin<Box<dyn Future<Output = IoRes<()>> + Send + 'a>> { self.inner.delete(key) }
    fn list<'a>(&'a self, prefix: &'a str, t: Option<&'a str>) -> Pin<Box<dyn Future<Output = IoRes<ListResult>> + Send + 'a>> { self.inner.list(prefix, t) }
    fn rename<'a>(&'a self, from: &'a str, to: &'a str) -> Pin<Box<dyn Future<Output = IoRes<()>> + Send + 'a>> { self.inner.rename(from, to) }
    fn head<'a>(&'a self, key: &'a str) -> Pin<Box<dyn Future<Output = IoRes<ObjectMeta>> + Send + 'a>> { self.inner.head(key) }
}

#[cfg(feature = "with_lock")]
static LOCK: std::sync::OnceLock<Arc<tokio::sync::Mutex<()>>> = std::sync::OnceLock::new();
async fn c12_flush_vs_compaction() -> bool {
    #[cfg(feature = "with_lock")] { let _ = LOCK.set(Arc::new(tokio::sync::Mutex::new(()))); }
    let inner = InMemoryObjectStore::new();
    let mm = ManifestManager::new(inner.clone(), "test");
    let mut m = Manifest::new(1);
    write_segment(&inner, &mut m, 0, &[set("old1", "v", 1, 1)]).await;
    write_segment(&inner, &mut m, 1, &[set("old2", "v", 2, 1)]).await;
    mm.save(&m).await.unwrap();
    // the flush that will run in the middle of the compaction: one accepted update, flush() must report success
    let flushed_ok = Arc::new(std::sync::atomic::AtomicBool::new(false));
    let (fi, fo) = (inner.clone(), flushed_ok.clone());
    let hook: Hook = Arc::new(tokio::sync::Mutex::new(Some(Box::pin(async move {
        let mut p = StreamingPersistence::new(Arc::new(fi), "test".to_string(), 1, WriteBufferConfig::test()).await.unwrap();
        #[cfg(feature = "with_lock")] p.set_manifest_lock(LOCK.get().unwrap().clone());
        p.push(set("fresh", "acknowledged-by-flush", 10, 1)).unwrap();
        let r = p.flush().await.unwrap();
        println!("C12 flush in the middle of compaction: Ok, segment {:?}, {} delta(s)", r.segment.as_ref().map(|s| s.id), r.deltas_flushed);
        fo.store(true, std::sync::atomic::Ordering::SeqCst);
    }))));
    let hs = HookStore { inner: inner.clone(), hook };
    let mut c = Compactor::new(Arc::new(hs.clone()), "test".to_string(), ManifestManager::new(hs, "test"), CompactionConfig::test());
    #[cfg(feature = "with_lock")] c.set_manifest_lock(LOCK.get().unwrap().clone());
    let res = c.compact().await.unwrap();
    println!("C12 compaction: removed {} segments, created {:?}", res.segments_removed.len(), res.segment_created.as_ref().map(|s| (s.id, s.key.clone())));
    assert!(flushed_ok.load(std::sync::atomic::Ordering::SeqCst));
    let m2 = ManifestManager::new(inner.clone(), "test").load().await.unwrap();
    println!("C12 manifest after both: segments {:?}", m2.segments.iter().map(|s| (s.id, s.record_count)).collect::<Vec<_>>());
    let st = fold(&RecoveryManager::new(inner, "test", 1).recover().await.unwrap().deltas);
    println!("C12 recovered keys: {:?}", { let mut k: Vec<_> = st.keys().cloned().collect(); k.sort(); k });
    let lost = !st.contains_key("fresh");
    println!("C12 witness: the update of the flush that reported success is {}", if lost { "LOST" } else { "recovered" });
    lost
}
