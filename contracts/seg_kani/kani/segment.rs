// @append-to: src/streaming/segment.rs
// Kani harnesses for the fixed-size segment header / footer (C14): the real byte-order code
// (to_le_bytes / from_le_bytes / try_into) that the Verus unit `segment` reaches only through shims.
// No checksum function is called by to_bytes / from_bytes, so nothing is stubbed here.
#[cfg(kani)]
mod verif_kani_seg {
    use super::*;

    // @harness: seg_header_bytes_roundtrip
    // @bound: none on the inputs (every value of every field); the only loop is the fixed 10-byte zero padding of Vec::resize, fully unrolled (unwinding assertion checked)
    // @tier: quick
    // @complete: true
    #[kani::proof]
    #[kani::unwind(12)]
    fn seg_header_bytes_roundtrip() {
        let h = SegmentHeader {
            magic: kani::any(),
            version: kani::any(),
            flags: kani::any(),
            record_count: kani::any(),
            min_timestamp: kani::any(),
            max_timestamp: kani::any(),
            header_checksum: kani::any(),
        };
        let bytes = h.to_bytes();
        assert!(bytes.len() == HEADER_SIZE);
        // layout of the documented header
        assert!(bytes[0] == h.magic[0] && bytes[1] == h.magic[1] && bytes[2] == h.magic[2] && bytes[3] == h.magic[3]);
        assert!(bytes[4] == h.version && bytes[5] == h.flags);
        assert!(bytes[6] == (h.record_count & 0xff) as u8 && bytes[9] == (h.record_count >> 24) as u8);
        assert!(bytes[10] == (h.min_timestamp & 0xff) as u8 && bytes[17] == (h.min_timestamp >> 56) as u8);
        assert!(bytes[18] == (h.max_timestamp & 0xff) as u8 && bytes[25] == (h.max_timestamp >> 56) as u8);
        assert!(bytes[26] == (h.header_checksum & 0xff) as u8 && bytes[29] == (h.header_checksum >> 24) as u8);
        assert!(bytes[30] == 0 && bytes[39] == 0);
        match SegmentHeader::from_bytes(&bytes) {
            Ok(g) => {
                assert!(g.magic == h.magic);
                assert!(g.version == h.version && g.flags == h.flags);
                assert!(g.record_count == h.record_count);
                assert!(g.min_timestamp == h.min_timestamp && g.max_timestamp == h.max_timestamp);
                assert!(g.header_checksum == h.header_checksum);
            }
            Err(_) => assert!(false),
        }
        kani::cover!(true);
    }

    // @harness: seg_header_from_any_40_bytes
    // @bound: every 40-byte input; loop-free
    // @tier: quick
    // @complete: true
    #[kani::proof]
    fn seg_header_from_any_40_bytes() {
        let d: [u8; 40] = kani::any();
        match SegmentHeader::from_bytes(&d) {
            Ok(g) => {
                assert!(g.magic == [d[0], d[1], d[2], d[3]] && g.version == d[4] && g.flags == d[5]);
                assert!(g.record_count == (d[6] as u32) | ((d[7] as u32) << 8) | ((d[8] as u32) << 16) | ((d[9] as u32) << 24));
                assert!(g.header_checksum == (d[26] as u32) | ((d[27] as u32) << 8) | ((d[28] as u32) << 16) | ((d[29] as u32) << 24));
                assert!(g.min_timestamp & 0xff == d[10] as u64 && g.min_timestamp >> 56 == d[17] as u64);
                assert!(g.max_timestamp & 0xff == d[18] as u64 && g.max_timestamp >> 56 == d[25] as u64);
            }
            // 40 bytes are always enough: from_bytes does not validate (validate() does)
            Err(_) => assert!(false),
        }
        kani::cover!(true);
    }

    // @harness: seg_footer_bytes_roundtrip
    // @bound: none (every checksum and size; footer magic as written by SegmentFooter::new); loop-free
    // @tier: quick
    // @complete: true
    #[kani::proof]
    fn seg_footer_bytes_roundtrip() {
        let f = SegmentFooter::new(kani::any(), kani::any(), kani::any());
        let bytes = f.to_bytes();
        assert!(bytes.len() == FOOTER_SIZE);
        assert!(bytes[0] == (f.data_checksum & 0xff) as u8 && bytes[3] == (f.data_checksum >> 24) as u8);
        assert!(bytes[4] == (f.uncompressed_size & 0xff) as u8 && bytes[11] == (f.uncompressed_size >> 56) as u8);
        assert!(bytes[12] == (f.compressed_size & 0xff) as u8 && bytes[19] == (f.compressed_size >> 56) as u8);
        assert!(bytes[20] == b'G' && bytes[21] == b'E' && bytes[22] == b'S' && bytes[23] == b'R');
        match SegmentFooter::from_bytes(&bytes) {
            Ok(g) => {
                assert!(g.data_checksum == f.data_checksum);
                assert!(g.uncompressed_size == f.uncompressed_size && g.compressed_size == f.compressed_size);
                assert!(g.footer_magic == FOOTER_MAGIC);
            }
            Err(_) => assert!(false),
        }
        kani::cover!(true);
    }

    // @harness: seg_footer_from_any_24_bytes
    // @bound: every 24-byte input; loop-free
    // @tier: quick
    // @complete: true
    #[kani::proof]
    fn seg_footer_from_any_24_bytes() {
        let d: [u8; 24] = kani::any();
        let magic_ok = d[20] == b'G' && d[21] == b'E' && d[22] == b'S' && d[23] == b'R';
        match SegmentFooter::from_bytes(&d) {
            Ok(g) => {
                assert!(magic_ok);
                assert!(g.data_checksum == (d[0] as u32) | ((d[1] as u32) << 8) | ((d[2] as u32) << 16) | ((d[3] as u32) << 24));
                assert!(g.uncompressed_size & 0xff == d[4] as u64 && g.uncompressed_size >> 56 == d[11] as u64);
                assert!(g.compressed_size & 0xff == d[12] as u64 && g.compressed_size >> 56 == d[19] as u64);
            }
            Err(_) => assert!(!magic_ok),
        }
        kani::cover!(true);
    }
}
