//! Witness program for the open finding of unit `fanout` (obligation fanout/ShardedActorState::execute/ensures#13).
//! Build as a bin crate with `redis-sim = { path = "/repo", default-features = false, features = ["verif-hooks"] }`, tokio, bytes
//! (same Cargo.toml as /verif/replay).  Observed on /repo @ 2110976:
//!   DIFF2 a=k1: SET k1 v1; RANDOMKEY        -> 1 shard: "k1",  2 shards: nil
//!   DIFF a=k0 b=k1 shards=2: SET k0 v1; RENAME k0 k1; GET k1 -> 1 shard: "v1", 2 shards: nil;  MSETNX k0:x 1 k1:y 2; GET k1:y -> 1 shard: "2", 2 shards: nil
//! C03 demonstration: multi-key commands dispatched whole to the shard of their FIRST key.
use redis_sim::production::ShardedActorState;
use redis_sim::redis::{Command, RespValue, SDS};

fn sds(s: &str) -> SDS { SDS::new(s.as_bytes().to_vec()) }
fn show(r: &RespValue) -> String { format!("{:?}", r) }

async fn session(n: usize, a: &str, b: &str) -> Vec<String> {
    let st = ShardedActorState::with_shards(n);
    let mut out = Vec::new();
    out.push(show(&st.execute(&Command::set(a.to_string(), sds("v1"))).await));
    out.push(show(&st.execute(&Command::Rename(a.to_string(), b.to_string())).await));
    out.push(show(&st.execute(&Command::Get(b.to_string())).await));
    out.push(show(&st.execute(&Command::MSetNx(vec![(format!("{a}:x"), sds("1")), (format!("{b}:y"), sds("2"))])).await));
    out.push(show(&st.execute(&Command::Get(format!("{b}:y"))).await));
    out.push(show(&st.execute(&Command::DbSize).await));
    out.push(show(&st.execute(&Command::RandomKey).await));
    out
}

async fn session2(n: usize, a: &str) -> Vec<String> {
    let st = ShardedActorState::with_shards(n);
    let mut out = Vec::new();
    out.push(show(&st.execute(&Command::set(a.to_string(), sds("v1"))).await));
    out.push(show(&st.execute(&Command::RandomKey).await));
    out
}

#[tokio::main]
async fn main() {
    for a in ["k0","k1","k2","k3"] {
        let one = session2(1, a).await; let two = session2(2, a).await;
        if one != two { println!("DIFF2 a={a}\n  1 shard : {:?}\n  2 shards: {:?}", one, two); break; }
    }
    let names = ["k0","k1","k2","k3","k4","k5","k6","k7"];
    for a in names { for b in names { if a == b { continue; }
        let one = session(1, a, b).await;
        for n in [2usize, 4] {
            let many = session(n, a, b).await;
            if one != many {
                println!("DIFF a={a} b={b} shards={n}\n  1 shard : {:?}\n  {n} shards: {:?}", one, many);
                return;
            }
        }
    }}
    println!("no difference found");
}
