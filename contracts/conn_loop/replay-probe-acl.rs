// Probe for unit conn_loop, obligation run/ensures#5 (C04): the batch path of `OptimizedConnectionHandler::run` executes GETs
// without any ACL check and without the `user_has_unrestricted_keys()` gate that protects the single-command fast path.
// Needs the `acl` feature (the default build has a no-op ACL).  Run on a scratch copy of the repository (never in /repo):
//   cp contracts/conn_loop/replay-probe-acl.rs <copy>/tests/connloop_probe_acl.rs
//   cd <copy> && RUSTC_WRAPPER= cargo test --offline --features acl,verif-hooks --test connloop_probe_acl -- --nocapture
// On the pinned tree the collectors only accept the skewed (non-RESP) spelling, which is what the probe sends; with HEADER_LEN
// corrected the same happens for ordinary pipelined GETs.
#![cfg(all(feature = "verif-hooks", feature = "acl"))]
use redis_sim::production::{verif_serve_connection, ConnectionConfig, ShardedActorState};
use std::time::Duration;
use tokio::io::{AsyncReadExt, AsyncWriteExt};

fn show(b: &[u8]) -> String { String::from_utf8_lossy(b).replace('\r', "\\r").replace('\n', "\\n") }
fn cmd(words: &[&str]) -> Vec<u8> {
    let mut v = format!("*{}\r\n", words.len()).into_bytes();
    for w in words { v.extend_from_slice(format!("${}\r\n{}\r\n", w.len(), w).as_bytes()); }
    v
}
async fn say(client: &mut tokio::io::DuplexStream, bytes: &[u8]) -> Vec<u8> {
    client.write_all(bytes).await.unwrap();
    let mut out = Vec::new();
    let mut buf = vec![0u8; 4096];
    loop {
        match tokio::time::timeout(Duration::from_millis(300), client.read(&mut buf)).await {
            Ok(Ok(n)) if n > 0 => out.extend_from_slice(&buf[..n]),
            _ => break,
        }
    }
    out
}

#[tokio::test]
async fn pipelined_get_of_a_forbidden_key_is_answered_with_the_value() {
    let (mut client, server) = tokio::io::duplex(1 << 16);
    let state = ShardedActorState::with_shards(1);
    let task = tokio::spawn(async move { verif_serve_connection(server, state, ConnectionConfig::default()).await });
    println!("SET secret v        -> {}", show(&say(&mut client, &cmd(&["SET", "secret", "v"])).await));
    println!("ACL SETUSER bob ... -> {}", show(&say(&mut client, &cmd(&["ACL", "SETUSER", "bob", "on", ">pw", "~allowed:*", "+@all"])).await));
    println!("AUTH bob pw         -> {}", show(&say(&mut client, &cmd(&["AUTH", "bob", "pw"])).await));
    let alone = say(&mut client, &cmd(&["GET", "secret"])).await;
    println!("GET secret (alone)  -> {}", show(&alone));
    assert!(alone.starts_with(b"-NOPERM"), "setup: bob must not be allowed to read `secret`");
    // three frames in the spelling the skewed collector accepts, 78 bytes >= min_pipeline_buffer, count 3 >= batch_threshold 2
    let piped = b"*2\r\n$3\r\nGET\r\nX$6\rYsecretZZ".repeat(3);
    let got = say(&mut client, &piped).await;
    println!("pipelined x3        -> {}", show(&got));
    // the same three GETs, well-formed and pipelined in one write (81 bytes): collected once HEADER_LEN is right
    let well = cmd(&["GET", "secret"]).repeat(3);
    let got2 = say(&mut client, &well).await;
    println!("well-formed x3      -> {}", show(&got2));
    let _ = client.shutdown().await;
    let _ = tokio::time::timeout(Duration::from_secs(2), task).await;
    assert!(!got2.windows(7).any(|w| w == b"$1\r\nv\r\n"), "the batch path handed the value of a key the user may not read: {}", show(&got2));
    assert!(!got.windows(7).any(|w| w == b"$1\r\nv\r\n"), "the batch path handed the value of a key the user may not read: {}", show(&got));
}
