// Probe for unit conn_loop (C04): the read loop `OptimizedConnectionHandler::run` DROPS what a batch collector has consumed when
// fewer than `batch_threshold` commands were collected.  On the pinned tree the collectors never match a well-formed frame
// (HEADER_LEN 14 vs a 13-byte literal, open finding of unit batch_collect), so the drop is reachable today only through the
// frames the skewed collectors DO accept; with HEADER_LEN corrected (seeded/C04-1) it hits ordinary pipelines.
//
// Run on a scratch copy of the repository (never in /repo):
//   cp contracts/conn_loop/replay-probe.rs <copy>/tests/connloop_probe.rs
//   cd <copy> && RUSTC_WRAPPER= cargo test --offline --features verif-hooks --test connloop_probe -- --nocapture
#![cfg(feature = "verif-hooks")]
use redis_sim::production::{verif_serve_connection, ConnectionConfig, ShardedActorState};
use std::time::Duration;
use tokio::io::{AsyncReadExt, AsyncWriteExt};

async fn exchange(cfg: ConnectionConfig, input: &[u8]) -> Vec<u8> {
    let (mut client, server) = tokio::io::duplex(1 << 16);
    let state = ShardedActorState::with_shards(1);
    let task = tokio::spawn(async move { verif_serve_connection(server, state, cfg).await });
    client.write_all(input).await.unwrap();
    let mut out = Vec::new();
    let mut buf = vec![0u8; 4096];
    // collect everything the server says within half a second, then close
    loop {
        match tokio::time::timeout(Duration::from_millis(500), client.read(&mut buf)).await {
            Ok(Ok(n)) if n > 0 => out.extend_from_slice(&buf[..n]),
            _ => break,
        }
    }
    let _ = client.shutdown().await;
    let _ = tokio::time::timeout(Duration::from_secs(2), task).await;
    out
}

fn show(b: &[u8]) -> String { String::from_utf8_lossy(b).replace('\r', "\\r").replace('\n', "\\n") }

/// default configuration (min_pipeline_buffer 60, batch_threshold 2): ONE write = a 61-byte frame that is not RESP
/// (`X` after the command literal, a lone CR after the length, `ZZ` instead of CR LF) followed by PING.
/// Required: an error reply for the malformed frame (or a close).  Observed on the pinned tree: the frame is consumed by
/// collect_get_keys (count 1 < threshold 2), never executed, never answered - the client sees only +PONG.
#[tokio::test]
async fn malformed_frame_is_swallowed_without_any_reply() {
    let mut input = b"*2\r\n$3\r\nGET\r\nX$40\rY".to_vec();
    input.extend_from_slice(&[b'k'; 40]);
    input.extend_from_slice(b"ZZ");
    assert_eq!(input.len(), 61);
    input.extend_from_slice(b"*1\r\n$4\r\nPING\r\n");
    let out = exchange(ConnectionConfig::default(), &input).await;
    println!("input  {}\noutput {}", show(&input), show(&out));
    assert!(out.starts_with(b"-"), "malformed frame got no error reply: the connection wrote {:?}", show(&out));
}

/// shipped perf_config.toml (batch_threshold 6): SET a 1, then ONE write of three 21-byte non-RESP frames (63 bytes).
/// Observed on the pinned tree: all three are consumed (count 3 < 6) and dropped: no reply at all.
#[tokio::test]
async fn three_collected_frames_below_threshold_get_no_reply() {
    let cfg = ConnectionConfig { batch_threshold: 6, ..ConnectionConfig::default() };
    let garbage = b"*2\r\n$3\r\nGET\r\nX$1\rYaZZ".repeat(3);
    let out = exchange(cfg, &garbage).await;
    println!("input  {}\noutput {}", show(&garbage), show(&out));
    assert!(!out.is_empty(), "63 bytes were consumed from the connection and nothing was ever written back");
}
