#!/bin/sh
# C20 probe: build c20probe against a scratch copy of /repo, run it in 6 separate processes (2 passes each), diff.
#   sh run.sh [scratch-dir]        (default /var/tmp/sim_substrate-probe; apply ../fix-candidate.patch there to see the fixed behaviour)
set -e
D=${1:-/var/tmp/sim_substrate-probe}
HERE=$(cd "$(dirname "$0")" && pwd)
[ -d "$D/src" ] || rsync -a --exclude target --exclude .git /repo/ "$D/"
mkdir -p "$D/c20probe/src" "$D/c20probe/out"
cp "$HERE/Cargo.toml" "$D/c20probe/Cargo.toml"; cp "$HERE/c20probe_main.rs" "$D/c20probe/src/main.rs"; cp "$HERE/analyze.py" "$D/c20probe/"
[ -f "$D/c20probe/Cargo.lock" ] || cp /verif/replay/Cargo.lock "$D/c20probe/"
cd "$D/c20probe"
RUSTC_WRAPPER= cargo build --offline
for i in 1 2 3 4 5 6; do ./target/debug/c20probe > out/run$i.txt 2> out/run$i.err & done
wait
python3 analyze.py 'out/run*.txt'
