#!/usr/bin/env python3
"""C20 probe analysis: (1) pass 1 of run1 vs pass 1 of every other process; (2) pass 1 vs pass 2 inside each process.
Prints, per (harness/preset/seed, field), in how many comparisons it differed. RAWORDER:* fields are reported separately."""
import sys, glob, collections, re
def load(p):
    passes = {}; cur = None
    for line in open(p, errors='replace'):
        line = line.rstrip('\n')
        if line.startswith('#### PASS'):
            cur = int(line.split()[-1]); passes[cur] = collections.OrderedDict(); continue
        if line.startswith('####'): continue
        parts = line.split(' | ', 2)
        if len(parts) < 3: continue
        key = (parts[0], parts[1])
        # repeated keys (trace lines) get an index
        d = passes[cur]; k = key; n = 0
        while k in d: n += 1; k = (key[0], key[1] + '#%d' % n)
        d[k] = parts[2]
    return passes
files = sorted(glob.glob(sys.argv[1] if len(sys.argv) > 1 else 'out/run*.txt'))
runs = [load(f) for f in files]
def cmp(a, b):
    diffs = []
    for k in a:
        if k not in b: diffs.append((k, 'MISSING')); continue
        if a[k] != b[k]: diffs.append((k, 'DIFF'))
    for k in b:
        if k not in a: diffs.append((k, 'EXTRA'))
    return diffs
def report(title, diffsets):
    agg = collections.Counter()
    for ds in diffsets:
        for k, _ in ds: agg[k] += 1
    real = collections.OrderedDict(); raw = collections.OrderedDict()
    for (tag, field), c in sorted(agg.items()):
        base = re.sub(r'\[\d+\]$', '[*]', field.split('#')[0])
        tgt = raw if base.startswith('RAWORDER:') else real
        tgt.setdefault(tag, collections.Counter())[base] += 1
    print('=' * 100); print(title, '(%d comparisons)' % len(diffsets))
    print('-- differing fields (not merely raw map order):')
    for tag, fs in real.items(): print('   %-50s %s' % (tag, dict(fs)))
    if not real: print('   none')
    print('-- differing only in RAWORDER fields (same map, different iteration order):')
    harn = collections.Counter()
    for tag, fs in raw.items():
        if tag not in real: harn[tag.split('/')[0] + ':' + ','.join(sorted(fs))] += 1
    for h, c in harn.items(): print('   %-70s %d preset/seed combos' % (h, c))
    if not harn: print('   none')
report('ACROSS PROCESSES: pass 1 of %s vs pass 1 of each other file' % files[0], [cmp(runs[0][1], r[1]) for r in runs[1:]])
report('WITHIN ONE PROCESS: pass 1 vs pass 2 (all files)', [cmp(r[1], r[2]) for r in runs if 2 in r])
