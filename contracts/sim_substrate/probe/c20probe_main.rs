//! C20 probe: runs every built-in simulation / DST harness of redis_sim for a few seeds and presets and prints a
//! canonical dump of everything observable.  Usage:
//!     c20probe [--passes N] [--seeds a,b,c] [harness names ...]      (no names = the whole battery)
//! Output lines:  `<harness>/<preset>/<seed> | <field> | <value>`.
//! Fields whose name starts with `RAWORDER:` print a HashMap/HashSet in the iteration order the harness exposes (NOT
//! sorted); the same map is always printed a second time sorted, so that "equal as a map, different as iterated" can be
//! told apart from "different".
//! Each pass is bracketed by `#### PASS k`; the driver script diffs pass 1 across processes and pass 1 vs pass 2.

use std::collections::HashMap;
use std::fmt::Debug;
use std::hash::Hash;
use std::sync::{Arc, Mutex};

use redis_sim::buggify::FaultConfig;
use redis_sim::io::simulation::{NodeId, SimulatedRng, SimulationContext};
use redis_sim::io::{Rng, Timestamp};
use redis_sim::redis::{Command, SDS};
use redis_sim::simulator::{Duration, HostId, VirtualTime};

fn out(tag: &str, field: &str, v: impl std::fmt::Display) {
    println!("{} | {} | {}", tag, field, v);
}
fn dbg<T: Debug>(v: &T) -> String {
    format!("{:?}", v)
}
fn map_sorted<K: Debug + Ord + Hash + Eq, V: Debug>(m: &HashMap<K, V>) -> String {
    let mut v: Vec<_> = m.iter().collect();
    v.sort_by(|a, b| a.0.cmp(b.0));
    format!("{:?}", v)
}
fn map_raw<K: Debug, V: Debug>(m: &HashMap<K, V>) -> String {
    format!("{:?}", m.iter().collect::<Vec<_>>())
}

// ---------------------------------------------------------------------------------------------------------------------
// redis-level harnesses
// ---------------------------------------------------------------------------------------------------------------------
fn h_executor(seeds: &[u64]) {
    use redis_sim::redis::{ExecutorDSTConfig, ExecutorDSTHarness};
    let presets: [(&str, fn(u64) -> ExecutorDSTConfig); 4] = [
        ("new", ExecutorDSTConfig::new),
        ("calm", ExecutorDSTConfig::calm),
        ("chaos", ExecutorDSTConfig::chaos),
        ("string_heavy", ExecutorDSTConfig::string_heavy),
    ];
    for &s in seeds {
        for (pn, cf) in presets.iter() {
            let tag = format!("executor_dst/{}/{}", pn, s);
            let mut h = ExecutorDSTHarness::new(cf(s));
            h.run(1500);
            let r = h.result();
            out(&tag, "summary", r.summary());
            out(&tag, "verdict", r.is_success());
            out(&tag, "result", dbg(r));
        }
    }
}

fn h_list(seeds: &[u64]) {
    use redis_sim::redis::{ListDSTConfig, ListDSTHarness};
    let presets: [(&str, fn(u64) -> ListDSTConfig); 3] = [
        ("new", ListDSTConfig::new),
        ("high_churn", ListDSTConfig::high_churn),
        ("modify_heavy", ListDSTConfig::modify_heavy),
    ];
    for &s in seeds {
        for (pn, cf) in presets.iter() {
            let tag = format!("list_dst/{}/{}", pn, s);
            let mut h = ListDSTHarness::new(cf(s));
            h.run(1000);
            out(&tag, "summary", h.result().summary());
            out(&tag, "result", dbg(h.result()));
            out(&tag, "final_state", dbg(h.list()));
        }
    }
}

fn h_set(seeds: &[u64]) {
    use redis_sim::redis::{SetDSTConfig, SetDSTHarness};
    let presets: [(&str, fn(u64) -> SetDSTConfig); 4] = [
        ("new", SetDSTConfig::new),
        ("small_members", SetDSTConfig::small_members),
        ("high_churn", SetDSTConfig::high_churn),
        ("large_members", SetDSTConfig::large_members),
    ];
    for &s in seeds {
        for (pn, cf) in presets.iter() {
            let tag = format!("set_dst/{}/{}", pn, s);
            let mut h = SetDSTHarness::new(cf(s));
            h.run(1000);
            out(&tag, "summary", h.result().summary());
            out(&tag, "result", dbg(h.result()));
            let mut members: Vec<String> = h.set().members().iter().map(|m| dbg(m)).collect();
            out(&tag, "RAWORDER:final_members", dbg(&members));
            members.sort();
            out(&tag, "final_members_sorted", dbg(&members));
        }
    }
}

fn h_hash(seeds: &[u64]) {
    use redis_sim::redis::{HashDSTConfig, HashDSTHarness};
    let presets: [(&str, fn(u64) -> HashDSTConfig); 3] = [
        ("new", HashDSTConfig::new),
        ("small_fields", HashDSTConfig::small_fields),
        ("high_churn", HashDSTConfig::high_churn),
    ];
    for &s in seeds {
        for (pn, cf) in presets.iter() {
            let tag = format!("hash_dst/{}/{}", pn, s);
            let mut h = HashDSTHarness::new(cf(s));
            h.run(1000);
            out(&tag, "summary", h.result().summary());
            out(&tag, "result", dbg(h.result()));
        }
    }
}

fn h_zset(seeds: &[u64]) {
    use redis_sim::redis::{SortedSetDSTConfig, SortedSetDSTHarness};
    let presets: [(&str, fn(u64) -> SortedSetDSTConfig); 3] = [
        ("new", SortedSetDSTConfig::new),
        ("small_keyspace", SortedSetDSTConfig::small_keyspace),
        ("large_keyspace", SortedSetDSTConfig::large_keyspace),
    ];
    for &s in seeds {
        for (pn, cf) in presets.iter() {
            let tag = format!("sorted_set_dst/{}/{}", pn, s);
            let mut h = SortedSetDSTHarness::new(cf(s));
            h.run(1000);
            out(&tag, "summary", h.result().summary());
            out(&tag, "result", dbg(h.result()));
        }
    }
}

fn h_transaction(seeds: &[u64]) {
    use redis_sim::redis::{TransactionDSTConfig, TransactionDSTHarness};
    let presets: [(&str, fn(u64) -> TransactionDSTConfig); 3] = [
        ("new", TransactionDSTConfig::new),
        ("high_conflict", TransactionDSTConfig::high_conflict),
        ("error_heavy", TransactionDSTConfig::error_heavy),
    ];
    for &s in seeds {
        for (pn, cf) in presets.iter() {
            let tag = format!("transaction_dst/{}/{}", pn, s);
            let mut h = TransactionDSTHarness::new(cf(s));
            h.run(500);
            out(&tag, "summary", h.result().summary());
            out(&tag, "verdict", h.result().is_success());
            out(&tag, "result", dbg(h.result()));
        }
    }
}

// ---------------------------------------------------------------------------------------------------------------------
// CRDT DST (all four types)
// ---------------------------------------------------------------------------------------------------------------------
fn crdt_dump(tag: &str, r: &redis_sim::replication::crdt_dst::CRDTDSTResult) {
    out(tag, "summary", r.summary());
    out(tag, "verdict", r.is_success());
    out(tag, "total_operations", r.total_operations);
    out(tag, "ops_per_replica_sorted", map_sorted(&r.ops_per_replica));
    out(tag, "RAWORDER:ops_per_replica", map_raw(&r.ops_per_replica));
    out(tag, "syncs_performed", r.syncs_performed);
    out(tag, "messages_dropped", r.messages_dropped);
    out(tag, "converged", r.converged);
    out(tag, "invariant_violations", dbg(&r.invariant_violations));
}

fn h_crdt(seeds: &[u64]) {
    use redis_sim::replication::crdt_dst::*;
    let presets: [(&str, fn(u64) -> CRDTDSTConfig); 3] = [
        ("calm", CRDTDSTConfig::calm),
        ("moderate", CRDTDSTConfig::moderate),
        ("chaos", CRDTDSTConfig::chaos),
    ];
    for &s in seeds {
        for (pn, cf) in presets.iter() {
            let mut h = GCounterDSTHarness::new(cf(s));
            h.run(300);
            crdt_dump(&format!("crdt_gcounter/{}/{}", pn, s), h.result());
            let mut h = PNCounterDSTHarness::new(cf(s));
            h.run(300);
            crdt_dump(&format!("crdt_pncounter/{}/{}", pn, s), h.result());
            let mut h = ORSetDSTHarness::new(cf(s));
            h.run(300);
            crdt_dump(&format!("crdt_orset/{}/{}", pn, s), h.result());
            let mut h = VectorClockDSTHarness::new(cf(s));
            h.run(300);
            crdt_dump(&format!("crdt_vectorclock/{}/{}", pn, s), h.result());
        }
    }
}

// ---------------------------------------------------------------------------------------------------------------------
// streaming / compaction / WAL
// ---------------------------------------------------------------------------------------------------------------------
fn h_streaming(seeds: &[u64], rt: &tokio::runtime::Runtime) {
    use redis_sim::streaming::{StreamingDSTConfig, StreamingDSTHarness};
    let presets: [(&str, fn(u64) -> StreamingDSTConfig); 3] = [
        ("calm", StreamingDSTConfig::calm),
        ("moderate", StreamingDSTConfig::moderate),
        ("chaos", StreamingDSTConfig::chaos),
    ];
    for &s in seeds {
        for (pn, cf) in presets.iter() {
            let tag = format!("streaming_dst/{}/{}", pn, s);
            let r = rt.block_on(async {
                let mut h = StreamingDSTHarness::new(cf(s)).await;
                h.run(300).await;
                h.check_invariants().await;
                h.into_result()
            });
            out(&tag, "summary", r.summary());
            out(&tag, "verdict", r.is_success());
            out(&tag, "store_stats", dbg(&r.store_stats));
            out(&tag, "invariant_violations", dbg(&r.invariant_violations));
            out(&tag, "history_len", r.history.len());
            for op in &r.history {
                out(&tag, "trace", dbg(op));
            }
        }
    }
}

fn h_compaction(seeds: &[u64], rt: &tokio::runtime::Runtime) {
    use redis_sim::streaming::compaction_dst::{CompactionDSTConfig, CompactionDSTHarness};
    let presets: [(&str, fn(u64) -> CompactionDSTConfig); 4] = [
        ("new", CompactionDSTConfig::new),
        ("calm", CompactionDSTConfig::calm),
        ("aggressive", CompactionDSTConfig::aggressive),
        ("chaos", CompactionDSTConfig::chaos),
    ];
    for &s in seeds {
        for (pn, cf) in presets.iter() {
            let tag = format!("compaction_dst/{}/{}", pn, s);
            let r = rt.block_on(async {
                let mut h = CompactionDSTHarness::new(cf(s)).await;
                h.run(300).await;
                h.check_invariants().await;
                h.into_result()
            });
            out(&tag, "summary", r.summary());
            out(&tag, "verdict", r.is_success());
            out(&tag, "store_stats", dbg(&r.store_stats));
            out(&tag, "invariant_violations", dbg(&r.invariant_violations));
            out(&tag, "history_len", r.history.len());
            for op in &r.history {
                out(&tag, "trace", dbg(op));
            }
        }
    }
}

fn h_wal(seeds: &[u64]) {
    use redis_sim::streaming::wal_dst::{WalDSTConfig, WalDSTHarness};
    let presets: [(&str, fn() -> WalDSTConfig); 4] = [
        ("default", WalDSTConfig::default),
        ("baseline", WalDSTConfig::baseline),
        ("crash_only", WalDSTConfig::crash_only),
        ("chaos", WalDSTConfig::chaos),
    ];
    for &s in seeds {
        for (pn, cf) in presets.iter() {
            let tag = format!("wal_dst/{}/{}", pn, s);
            let mut h = WalDSTHarness::new(s, cf());
            let r = h.run();
            out(&tag, "verdict", r.passed);
            out(&tag, "result", dbg(&r));
        }
    }
}

// ---------------------------------------------------------------------------------------------------------------------
// connection harness, scenario harness, discrete-event executor, simulated clock
// ---------------------------------------------------------------------------------------------------------------------
fn h_connection(seeds: &[u64]) {
    use redis_sim::simulator::connection::{PipelineSimulator, SimulatedConnection};
    for &s in seeds {
        let tag = format!("connection/pipeline/{}", s);
        let mut p = PipelineSimulator::new(s).with_sizes(vec![1, 2, 4, 8, 16, 32, 64]);
        p.run();
        out(&tag, "summary", p.summary().replace('\n', " // "));
        out(&tag, "results", dbg(&p.results));

        let tag = format!("connection/partial_reads/{}", s);
        let mut c = SimulatedConnection::new(s).with_partial_reads(0.5);
        let cmds: Vec<Command> = (0..40)
            .map(|i| Command::set(format!("k{}", i % 7), SDS::from_str(&format!("v{}", i))))
            .collect();
        c.send_pipeline(cmds);
        let resp = c.process();
        out(&tag, "responses", dbg(&resp));
        out(&tag, "flush_count", c.flush_count());
        out(&tag, "bytes_per_flush", dbg(&c.bytes_per_flush()));
        out(&tag, "commands_executed", c.commands_executed());
        out(&tag, "history", dbg(&c.history()));
    }
}

fn h_scenario(seeds: &[u64]) {
    use redis_sim::simulator::ScenarioBuilder;
    for &s in seeds {
        // (a) harness buggify delays on, strictly spaced operation times (the harness's own delay of 1..9 ms combined with
        //     equal operation times trips its debug_assert "Time cannot go backwards" - deterministic, not a C20 matter)
        // (b) equal operation times, no buggify: order must be the insertion order (stable sort)
        for (pn, bug, div) in [("buggify0.3_spaced", true, 1u64), ("equal_times", false, 3u64)] {
            let tag = format!("scenario/{}/{}", pn, s);
            let mut b = ScenarioBuilder::new(s);
            if bug {
                b = b.with_buggify(0.3);
            }
            for i in 0..60u64 {
                let cmd = if i % 5 == 4 {
                    Command::del(format!("k{}", i % 6))
                } else {
                    Command::set(format!("k{}", i % 6), SDS::from_str(&format!("v{}", i)))
                };
                b = b.at_time((i / div) * 10).client((i % 3) as usize, cmd);
            }
            let mut h = if bug { b.run() } else { b.run_with_eviction(25) };
            out(&tag, "current_time", dbg(&h.current_time()));
            out(&tag, "history", dbg(&h.history()));
            out(&tag, "rng_next", h.rng().next_u64());
        }
    }
}

fn h_sim_executor(seeds: &[u64]) {
    use redis_sim::simulator::{EventType, Simulation, SimulationConfig};
    for &s in seeds {
        let tag = format!("sim_executor/timers+messages/{}", s);
        let mut sim = Simulation::new(SimulationConfig {
            seed: s,
            max_time: VirtualTime::from_millis(2_000),
            simulation_start_epoch: 0,
        });
        let hs: Vec<HostId> = (0..4).map(|i| sim.add_host(format!("h{}", i))).collect();
        sim.set_network_drop_rate(0.2);
        for i in 0..24usize {
            sim.schedule_timer(hs[i % 4], Duration::from_millis(((i / 6) * 10) as u64)); // 6 timers per deadline
        }
        let mut trace: Vec<String> = Vec::new();
        let mut budget = 400usize;
        sim.run(|sm, ev| {
            trace.push(format!("{:?}@{:?}:{:?}", ev.time, ev.host_id, ev.event_type));
            if budget == 0 {
                return;
            }
            budget -= 1;
            match &ev.event_type {
                EventType::Timer(t) => {
                    let to = HostId(((ev.host_id.0) + 1) % 4);
                    sm.send_message(ev.host_id, to, vec![(t.0 % 256) as u8]);
                    let d = sm.rng().gen_range(0, 4) * 5; // many equal deadlines
                    sm.schedule_timer(ev.host_id, Duration::from_millis(d + 5));
                }
                EventType::NetworkMessage(m) => {
                    if m.payload[0] % 3 == 0 {
                        sm.send_message(m.to, m.from, vec![m.payload[0].wrapping_add(1)]);
                    }
                }
                EventType::HostStart => {}
            }
        });
        out(&tag, "events", trace.len());
        out(&tag, "final_time", dbg(&sim.current_time()));
        for (i, t) in trace.iter().enumerate() {
            out(&tag, &format!("trace[{}]", i), t);
        }
    }
}

struct LogWaker {
    label: u64,
    log: Arc<Mutex<Vec<u64>>>,
}
impl std::task::Wake for LogWaker {
    fn wake(self: Arc<Self>) {
        self.log.lock().unwrap().push(self.label);
    }
}

fn h_simctx(seeds: &[u64]) {
    for &s in seeds {
        let tag = format!("simctx/timers/{}", s);
        let ctx = SimulationContext::new(s, FaultConfig::calm());
        let mut rng = SimulatedRng::new(s);
        let log = Arc::new(Mutex::new(Vec::new()));
        let mut ids = Vec::new();
        for label in 0..40u64 {
            let deadline = rng.gen_range(0, 5) * 10; // 5 distinct deadlines, 8 timers each on average
            let w: std::task::Waker = Arc::new(LogWaker { label, log: log.clone() }).into();
            let id = ctx.add_timer(Timestamp::from_millis(deadline), w);
            ids.push((label, id, deadline));
        }
        out(&tag, "timers(label,id,deadline)", dbg(&ids));
        out(&tag, "next_timer_time", dbg(&ctx.next_timer_time()));
        let mut fired = Vec::new();
        for step in 0..6u64 {
            ctx.advance_to(Timestamp::from_millis(step * 10));
            ctx.process_timers();
            let now_fired: Vec<u64> = log.lock().unwrap().drain(..).collect();
            fired.push((ctx.now().as_millis(), now_fired));
        }
        out(&tag, "fire_order", dbg(&fired));
        ctx.set_clock_offset(
            NodeId(1),
            redis_sim::io::simulation::ClockOffset { fixed_offset_ms: -30, drift_ppm: 500, drift_anchor: Timestamp::ZERO },
        );
        out(&tag, "local_time", dbg(&(ctx.local_time(NodeId(0)), ctx.local_time(NodeId(1)), ctx.next_id())));
    }
}

// ---------------------------------------------------------------------------------------------------------------------
// multi-node simulation, partition tests
// ---------------------------------------------------------------------------------------------------------------------
fn multinode_drive(tag: &str, mut sim: redis_sim::simulator::MultiNodeSimulation, n: usize) {
    let nkeys = 23usize;
    for step in 0..240usize {
        let node = (step * 7) % n;
        let key = format!("k{}", (step * 5) % nkeys);
        let cmd = if step % 11 == 10 {
            Command::del(key)
        } else {
            Command::set(key, SDS::from_str(&format!("v{}-{}", step, node)))
        };
        let resp = sim.execute(step % 3, node, cmd);
        if step < 5 {
            out(tag, &format!("resp[{}]", step), dbg(&resp));
        }
        if step % 60 == 20 {
            sim.partition(0, n - 1);
            sim.partition(1, n - 1);
        }
        if step % 60 == 50 {
            sim.heal_partition(0, n - 1);
            sim.heal_partition(1, n - 1);
        }
        sim.advance_time_ms(3);
        sim.gossip_round();
        let q: Vec<String> = sim
            .message_queue
            .iter()
            .map(|m| {
                format!(
                    "{}->{}@{}:{:?}",
                    m.from,
                    m.to,
                    m.delivery_time.as_millis(),
                    m.deltas.iter().map(|d| d.key.clone()).collect::<Vec<_>>()
                )
            })
            .collect();
        out(tag, &format!("queue[{}]", step), dbg(&q));
    }
    let mid: Vec<Vec<Option<String>>> = (0..nkeys).map(|k| sim.get_all_values(&format!("k{}", k))).collect();
    out(tag, "values_before_converge", dbg(&mid));
    sim.converge(30);
    let fin: Vec<Vec<Option<String>>> = (0..nkeys).map(|k| sim.get_all_values(&format!("k{}", k))).collect();
    out(tag, "values_after_converge", dbg(&fin));
    let conv: Vec<bool> = (0..nkeys).map(|k| sim.check_key_convergence(&format!("k{}", k))).collect();
    out(tag, "verdict_converged", dbg(&conv));
    out(tag, "history_len", sim.history.len());
    out(tag, "anti_entropy_syncs", sim.anti_entropy_syncs);
    out(tag, "current_time", dbg(&sim.current_time));
    out(tag, "rng_next", sim.rng.next_u64());
    let lin = redis_sim::simulator::check_single_key_linearizability(&sim.history, "k0");
    out(tag, "linearizability_k0", dbg(&lin));
}

fn h_multinode(seeds: &[u64]) {
    use redis_sim::simulator::MultiNodeSimulation;
    for &s in seeds {
        multinode_drive(
            &format!("multi_node/broadcast5_loss0.2/{}", s),
            MultiNodeSimulation::new(5, s).with_packet_loss(0.2).with_message_delay(1, 12),
            5,
        );
        multinode_drive(
            &format!("multi_node/partitioned5_rf3_loss0.2/{}", s),
            MultiNodeSimulation::new_partitioned(5, 3, s).with_packet_loss(0.2).with_message_delay(1, 12),
            5,
        );
    }
}

fn h_partition(seeds: &[u64]) {
    use redis_sim::simulator::{run_partition_test, PartitionConfig};
    for &s in seeds {
        let cfgs = vec![
            ("isolate", PartitionConfig::isolate_node(0, 5)),
            ("split_brain", PartitionConfig::split_brain(vec![0, 1], vec![2, 3, 4])),
            ("ring", PartitionConfig::ring(5)),
            ("asymmetric", PartitionConfig::asymmetric(0, 4)),
        ];
        for (pn, cfg) in cfgs {
            let tag = format!("partition_tests/{}/{}", pn, s);
            let r = run_partition_test(
                pn,
                5,
                s,
                cfg,
                vec![(0, "key1", "value_from_0"), (4, "key1", "value_from_last"), (2, "key2", "x")],
                vec![(0, "key1", "final_value"), (3, "key2", "y")],
                50,
            );
            out(&tag, "result", dbg(&r));
        }
    }
}

// ---------------------------------------------------------------------------------------------------------------------
// simulator/dst.rs  and  simulator/dst_integration.rs
// ---------------------------------------------------------------------------------------------------------------------
fn sim_result_dump(tag: &str, r: &redis_sim::simulator::SimulationResult) {
    out(tag, "summary", r.summary());
    out(tag, "verdict", r.is_success());
    out(tag, "total_time_ms", r.total_time_ms);
    out(tag, "total_operations", r.total_operations);
    out(tag, "operations_by_type_sorted", map_sorted(&r.operations_by_type));
    out(tag, "RAWORDER:operations_by_type", map_raw(&r.operations_by_type));
    out(tag, "crashes", r.crashes);
    out(tag, "recoveries", r.recoveries);
    out(tag, "buggify_checks_sorted", map_sorted(&r.buggify_stats.checks));
    out(tag, "buggify_triggers_sorted", map_sorted(&r.buggify_stats.triggers));
    out(tag, "buggify_summary", r.buggify_stats.summary().replace('\n', " // "));
    out(tag, "RAWORDER:buggify_checks", map_raw(&r.buggify_stats.checks));
    out(tag, "linearizable", r.linearizable);
    out(tag, "converged", r.converged);
    out(tag, "errors", dbg(&r.errors));
    out(tag, "operation_history", dbg(&r.operation_history));
}

fn crash_dump(tag: &str, cs: &redis_sim::simulator::CrashSimulator, nodes: usize) {
    let st = cs.stats();
    out(tag, "crash.total_crashes", st.total_crashes);
    out(tag, "crash.total_recoveries", st.total_recoveries);
    out(tag, "crash.by_reason_sorted", map_sorted(&st.crashes_by_reason));
    out(tag, "crash.state_loss_events", st.total_state_loss_events);
    out(tag, "crash.average_recovery_time_ms", st.average_recovery_time_ms);
    let states: Vec<String> = (0..nodes).map(|i| dbg(&cs.get_state(HostId(i)))).collect();
    out(tag, "node_states", dbg(&states));
    out(tag, "RAWORDER:crashed_nodes", dbg(&cs.crashed_nodes()));
    out(tag, "RAWORDER:recovering_nodes", dbg(&cs.recovering_nodes()));
}

fn h_dst(seeds: &[u64]) {
    use redis_sim::simulator::{DSTConfig, DSTSimulation};
    let presets: [(&str, fn(u64) -> DSTConfig); 3] =
        [("calm", DSTConfig::calm), ("new", DSTConfig::new), ("chaos", DSTConfig::chaos)];
    for &s in seeds {
        for (pn, cf) in presets.iter() {
            let tag = format!("simulator_dst/{}/{}", pn, s);
            let mut sim = DSTSimulation::with_config(cf(s));
            // per-step observation = the operation trace of this harness
            let nodes = sim.config().node_count;
            let mut steps: Vec<String> = Vec::new();
            for _ in 0..3000 {
                sim.step();
                let running: Vec<u8> = (0..nodes).map(|i| sim.is_node_running(i) as u8).collect();
                steps.push(format!("{}:{:?}", sim.current_time().as_millis(), running));
                if sim.current_time().0 >= sim.config().max_time_ms {
                    break;
                }
            }
            let r = sim.finalize().clone();
            sim_result_dump(&tag, &r);
            crash_dump(&tag, sim.crash_simulator(), nodes);
            out(&tag, "rng_next", sim.rng().next_u64());
            out(&tag, "step_trace", dbg(&steps));
        }
    }
}

fn h_dst_disabled(seeds: &[u64]) {
    use redis_sim::simulator::{DSTConfig, DSTSimulation};
    for &s in seeds {
        let tag = format!("simulator_dst/faults_disabled/{}", s);
        let mut sim = DSTSimulation::with_config(DSTConfig::new(s).with_faults(FaultConfig::disabled()));
        let r = sim.run_operations(500).clone();
        sim_result_dump(&tag, &r);
    }
}

fn h_redis_dst(seeds: &[u64]) {
    use redis_sim::simulator::dst_integration::RedisDSTSimulation;
    for &s in seeds {
        for (pn, fc) in [("moderate", FaultConfig::moderate()), ("chaos", FaultConfig::chaos())] {
            let tag = format!("redis_dst_integration/{}/{}", pn, s);
            let mut sim = RedisDSTSimulation::new(s, 5).with_faults(fc);
            let r = sim.run(600).clone();
            sim_result_dump(&tag, &r);
            out(&tag, "check_convergence", sim.check_convergence());
            out(&tag, "stats", dbg(&sim.stats()));
        }
    }
}

fn main() {
    let args: Vec<String> = std::env::args().skip(1).collect();
    let mut passes = 2usize;
    let mut seeds: Vec<u64> = vec![1, 7, 42, 1234, 99999];
    let mut only: Vec<String> = Vec::new();
    let mut i = 0;
    while i < args.len() {
        match args[i].as_str() {
            "--passes" => {
                passes = args[i + 1].parse().unwrap();
                i += 1;
            }
            "--seeds" => {
                seeds = args[i + 1].split(',').map(|x| x.parse().unwrap()).collect();
                i += 1;
            }
            x => only.push(x.to_string()),
        }
        i += 1;
    }
    let rt = tokio::runtime::Builder::new_current_thread().enable_all().build().unwrap();
    let want = |n: &str| only.is_empty() || only.iter().any(|o| o == n);
    for pass in 1..=passes {
        println!("#### PASS {}", pass);
        if want("executor") { h_executor(&seeds); }
        if want("list") { h_list(&seeds); }
        if want("set") { h_set(&seeds); }
        if want("hash") { h_hash(&seeds); }
        if want("zset") { h_zset(&seeds); }
        if want("transaction") { h_transaction(&seeds); }
        if want("crdt") { h_crdt(&seeds); }
        if want("streaming") { h_streaming(&seeds, &rt); }
        if want("compaction") { h_compaction(&seeds, &rt); }
        if want("wal") { h_wal(&seeds); }
        if want("connection") { h_connection(&seeds); }
        if want("scenario") { h_scenario(&seeds); }
        if want("sim_executor") { h_sim_executor(&seeds); }
        if want("simctx") { h_simctx(&seeds); }
        if want("multinode") { h_multinode(&seeds); }
        if want("partition") { h_partition(&seeds); }
        if want("dst") { h_dst(&seeds); }
        if want("redis_dst") { h_redis_dst(&seeds); }
        if want("dst_disabled") { h_dst_disabled(&seeds); }
    }
    println!("#### END");
}
