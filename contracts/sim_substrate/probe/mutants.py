# Mutation battery used while building the unit: each realistic wrong edit of the real code (applied to a scratch copy of /repo/src,
# VERIF_REPO) must be refuted by the unit.  Usage: mkdir -p /var/tmp/sim_substrate-mut && cp -r /repo/src /var/tmp/sim_substrate-mut/ && python3 mutants.py [M1 M2 ..]
# Result at delivery: 31 of 32 refuted; M16 (wrapping_add) is equivalent under the stated no-overflow precondition.
import os, subprocess, shutil, sys
MUT='/var/tmp/sim_substrate-mut'
muts = [
 ('M1 gen_range comparison min > max', 'src/simulator/rng.rs', 'if min >= max {', 'if min > max {'),
 ('M2 gen_range modulus max-min+1', 'src/simulator/rng.rs', '% (max - min))', '% (max - min + 1))'),
 ('M3 gen_bool conditional second word', 'src/simulator/rng.rs', '        val < probability\n', '        if self.next_u64() % 2 == 0 { let _ = self.next_u64(); }\n        val < probability\n'),
 ('M4 shuffle range gen_range(0, i)', 'src/simulator/rng.rs', 'self.gen_range(0, (i + 1) as u64)', 'self.gen_range(0, i as u64)'),
 ('M5 shuffle swaps (i, i)', 'src/simulator/rng.rs', 'slice.swap(i, j);', 'slice.swap(j, j);'),
 ('M6 buggify probability 0.1', 'src/simulator/rng.rs', 'rng.gen_bool(0.01)', 'rng.gen_bool(0.1)'),
 ('M7 Event::cmp not reversed', 'src/simulator/mod.rs', 'other.time.cmp(&self.time)', 'self.time.cmp(&other.time)'),
 ('M8 TimerEntry::cmp wake_time not reversed', 'src/io/simulation.rs', 'other\n            .wake_time\n            .cmp(&self.wake_time)', 'self\n            .wake_time\n            .cmp(&other.wake_time)'),
 ('M9 TimerEntry::eq ignores id', 'src/io/simulation.rs', 'self.wake_time == other.wake_time && self.id == other.id', 'self.wake_time == other.wake_time'),
 ('M10 schedule_timer drops id increment', 'src/simulator/executor.rs', '        self.next_timer_id += 1;\n', ''),
 ('M11 send_message ignores delay', 'src/simulator/executor.rs', 'time: self.current_time + delay,\n                host_id: to,', 'time: self.current_time,\n                host_id: to,'),
 ('M12 should_deliver draws before the partition check', 'src/simulator/network.rs', None, None),
 ('M13 run_until drops the clock update', 'src/simulator/executor.rs', '            self.current_time = event.time;\n', ''),
 ('M14 run_until horizon comparison >=', 'src/simulator/executor.rs', 'if event.time > max_time {', 'if event.time >= max_time {'),
 ('M15 run_until does not push the event back', 'src/simulator/executor.rs', '                self.events.push(event);\n                break;', '                break;'),
 ('M16 VirtualTime add wrapping', 'src/simulator/time.rs', 'VirtualTime(self.0 + rhs.0)', 'VirtualTime(self.0.wrapping_add(rhs.0))'),
 ('M17 next_u64 draws twice', 'src/simulator/rng.rs', '        self.rng.next_u64()\n', '        let _ = self.rng.next_u64();\n        self.rng.next_u64()\n'),
 ('M18 should_deliver min/max swapped', 'src/simulator/network.rs', 'self.packet_delay.min_latency.as_millis(),\n            self.packet_delay.max_latency.as_millis(),', 'self.packet_delay.max_latency.as_millis(),\n            self.packet_delay.min_latency.as_millis(),'),
 ('M19 advance_to moves backwards', 'src/io/simulation.rs', 'if time > *t {', 'if time < *t {'),
 ('M21 next_id drops increment', 'src/io/simulation.rs', '        *id += 1;\n', ''),
 ('M22 add_timer constant id', 'src/io/simulation.rs', 'let id = self.next_id();\n        let mut timers', 'let id = 0;\n        let mut timers'),
 ('M23 process_timers strict comparison', 'src/io/simulation.rs', 'if entry.wake_time <= now {', 'if entry.wake_time < now {'),
 ('M24 TimerEntry tie-break reversed', 'src/io/simulation.rs', '.then_with(|| other.id.cmp(&self.id))', '.then_with(|| self.id.cmp(&other.id))'),
 ('M25 should_buggify records after suppression check', 'src/buggify/mod.rs', """        // Record the check
        ctx.stats.record_check(fault_id);

        // Check if suppressed
        if ctx.suppressed {
            return false;
        }

        // Get probability and check""", """        // Check if suppressed
        if ctx.suppressed {
            return false;
        }
        ctx.stats.record_check(fault_id);

        // Get probability and check"""),
 ('M26 should_buggify draws even when suppressed', 'src/buggify/mod.rs', """        // Check if suppressed
        if ctx.suppressed {
            return false;
        }

        // Get probability and check""", """        let _w = rng.gen_range(0, 2);
        if ctx.suppressed {
            return false;
        }

        // Get probability and check"""),
 ('M27 with_prob ignores enabled', 'src/buggify/mod.rs', 'if ctx.suppressed || !ctx.config.enabled {', 'if ctx.suppressed {'),
 ('M28 advance_by subtracts', 'src/io/simulation.rs', '*t = *t + duration;', '*t = Timestamp(t.0 - duration.0);'),
 ('M29 ClockOffset::apply subtracts the fixed offset', 'src/io/simulation.rs', 'let local = base + self.fixed_offset_ms + drift;', 'let local = base - self.fixed_offset_ms + drift;'),
 ('M30 local_time ignores the offset', 'src/io/simulation.rs', '            offset.apply(global)\n', '            global\n'),
 ('M31 SimulatedRng gen_range draws for empty range', 'src/io/simulation.rs', """        if min >= max {
            return min;
        }
        self.inner.gen_range(min..max)""", """        if min > max {
            return min;
        }
        self.inner.gen_range(min..max)"""),
 ('M32 SimulatedRng gen_bool without clamp', 'src/io/simulation.rs', 'self.inner.gen_bool(probability.clamp(0.0, 1.0))', 'self.inner.gen_bool(probability)'),
]
only = sys.argv[1:]
for name, f, a, b in muts:
    if only and not any(name.startswith(o + ' ') for o in only): continue
    shutil.rmtree(MUT + '/src'); shutil.copytree('/repo/src', MUT + '/src')
    p = MUT + '/' + f; s = open(p).read()
    if name.startswith('M12'):
        a = '''        if self
            .partition_map
            .get(&(from, to))
            .copied()
            .unwrap_or(false)
        {
            return None;
        }

        if rng.gen_bool(self.drop_rate) {
            return None;
        }
'''
        b = '''        let dropped = rng.gen_bool(self.drop_rate);
        if self
            .partition_map
            .get(&(from, to))
            .copied()
            .unwrap_or(false)
        {
            return None;
        }

        if dropped {
            return None;
        }
'''
    assert s.count(a) == 1, (name, s.count(a))
    open(p, 'w').write(s.replace(a, b))
    env = dict(os.environ, VERIF_REPO=MUT)
    r = subprocess.run(['python3', '-c', "from engine import run\nr=run.run_unit('sim_substrate'); print(r.status, r.reason[:300].replace(chr(10),' ')); print(sorted(r.failed))"], cwd='/verif', env=env, capture_output=True, text=True)
    print('==', name); print(r.stdout.strip()[-1500:]); 
    if r.returncode: print(r.stderr[-500:])
