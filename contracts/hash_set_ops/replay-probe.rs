// Replay probe for C01 (unit hash_set_ops): set members and hash field names are stored through
// `SDS::to_string()` = String::from_utf8_lossy, so byte strings that are not valid UTF-8 collide / come back changed.
use redis_sim::redis::{Command, CommandExecutor, SDS};

fn s(ex: &mut CommandExecutor, c: Command) -> String { format!("{:?}", ex.execute(&c)) }

#[test]
fn set_members_are_binary_safe() {
    let mut ex = CommandExecutor::new();
    let a = s(&mut ex, Command::SAdd("s".to_string(), vec![SDS::new(vec![0xff])]));
    let b = s(&mut ex, Command::SAdd("s".to_string(), vec![SDS::new(vec![0xfe])]));
    let card = s(&mut ex, Command::SCard("s".to_string()));
    let mem = s(&mut ex, Command::SMembers("s".to_string()));
    let is = s(&mut ex, Command::SIsMember("s".to_string(), SDS::new(vec![0xfd])));
    eprintln!("SADD s \\xff -> {}; SADD s \\xfe -> {}; SCARD s -> {}; SMEMBERS s -> {}; SISMEMBER s \\xfd -> {}", a, b, card, mem, is);
    assert_eq!(b, "Integer(1)"); assert_eq!(card, "Integer(2)"); assert_eq!(is, "Integer(0)");
}
#[test]
fn hash_fields_are_binary_safe() {
    let mut ex = CommandExecutor::new();
    let a = s(&mut ex, Command::HSet("h".to_string(), vec![(SDS::new(vec![0xff]), SDS::from_str("1"))]));
    let b = s(&mut ex, Command::HSet("h".to_string(), vec![(SDS::new(vec![0xfe]), SDS::from_str("2"))]));
    let len = s(&mut ex, Command::HLen("h".to_string()));
    let g = s(&mut ex, Command::HGet("h".to_string(), SDS::new(vec![0xff])));
    let k = s(&mut ex, Command::HKeys("h".to_string()));
    eprintln!("HSET h \\xff 1 -> {}; HSET h \\xfe 2 -> {}; HLEN h -> {}; HGET h \\xff -> {}; HKEYS h -> {}", a, b, len, g, k);
    assert_eq!(b, "Integer(1)"); assert_eq!(len, "Integer(2)");
}
