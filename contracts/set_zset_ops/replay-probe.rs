// Replay probes for C01 (unit set_zset_ops).  Copy to <scratch copy of /repo>/tests/zz_probe.rs and run
//   RUSTC_WRAPPER= cargo test --offline --test zz_probe -- --nocapture --test-threads 1
// Defects (fail on /repo @605ac65): spop_* (execute_spop/ensures#3 + safety), zadd_infinite_score and
// zadd_updates_a_score_that_differs_by_less_than_epsilon (both fixed by fix-candidate.patch), zset_members_are_binary_safe
// and zcount_nan_bound_is_an_error (NOT fixed by the patch: see the report).  The last three tests only print (behaviour the
// Redis documentation does not pin down, or text formatting that the unit leaves uninterpreted).
use redis_sim::redis::{Command, CommandExecutor, SDS};

fn s(ex: &mut CommandExecutor, c: Command) -> String { format!("{:?}", ex.execute(&c)) }
fn zadd(key: &str, pairs: Vec<(f64, SDS)>, ch: bool) -> Command {
    Command::ZAdd { key: key.to_string(), pairs, nx: false, xx: false, gt: false, lt: false, ch }
}

// SPOP replies with `member.to_string().into_bytes()` (lossy UTF-8) although the set stores exact bytes
#[test]
fn spop_returns_the_member_bytes() {
    let mut ex = CommandExecutor::new();
    s(&mut ex, Command::SAdd("s".to_string(), vec![SDS::new(vec![0xff])]));
    let r = s(&mut ex, Command::SPop("s".to_string(), None));
    eprintln!("SADD s \\xff; SPOP s -> {}", r);
    assert_eq!(r, "BulkString(Some([255]))");
}
#[test]
fn spop_count_returns_the_member_bytes() {
    let mut ex = CommandExecutor::new();
    s(&mut ex, Command::SAdd("s".to_string(), vec![SDS::new(vec![0xff])]));
    let r = s(&mut ex, Command::SPop("s".to_string(), Some(1)));
    eprintln!("SADD s \\xff; SPOP s 1 -> {}", r);
    assert_eq!(r, "Array(Some([BulkString(Some([255]))]))");
}
// sorted-set members are keyed by `member.to_string()` (lossy UTF-8): distinct byte strings collide
#[test]
fn zset_members_are_binary_safe() {
    let mut ex = CommandExecutor::new();
    let a = s(&mut ex, zadd("z", vec![(1.0, SDS::new(vec![0xff]))], false));
    let b = s(&mut ex, zadd("z", vec![(2.0, SDS::new(vec![0xfe]))], false));
    let card = s(&mut ex, Command::ZCard("z".to_string()));
    let sc = s(&mut ex, Command::ZScore("z".to_string(), SDS::new(vec![0xff])));
    let rg = s(&mut ex, Command::ZRange("z".to_string(), 0, -1, false));
    eprintln!("ZADD z 1 \\xff -> {}; ZADD z 2 \\xfe -> {}; ZCARD z -> {}; ZSCORE z \\xff -> {}; ZRANGE z 0 -1 -> {}", a, b, card, sc, rg);
    assert_eq!(b, "Integer(1)"); assert_eq!(card, "Integer(2)");
}
// RedisSortedSet::add treats a new score within f64::EPSILON of the old one as "unchanged"
#[test]
fn zadd_updates_a_score_that_differs_by_less_than_epsilon() {
    let mut ex = CommandExecutor::new();
    s(&mut ex, zadd("z", vec![(0.0, SDS::from_str("a"))], false));
    let r = s(&mut ex, zadd("z", vec![(1e-300, SDS::from_str("a"))], true));
    let sc = s(&mut ex, Command::ZScore("z".to_string(), SDS::from_str("a")));
    eprintln!("ZADD z 0 a; ZADD z CH 1e-300 a -> {}; ZSCORE z a -> {}", r, sc);
    assert_ne!(sc, "BulkString(Some([48]))");   // "0"
}
#[test]
fn zcount_nan_bound_is_an_error() {
    let mut ex = CommandExecutor::new();
    s(&mut ex, zadd("z", vec![(1.0, SDS::from_str("a"))], false));
    let r = s(&mut ex, Command::ZCount("z".to_string(), "nan".to_string(), "5".to_string()));
    eprintln!("ZCOUNT z nan 5 -> {}", r);
    assert!(r.starts_with("Error"));
}
#[test]
fn zrangebyscore_negative_offset() {
    let mut ex = CommandExecutor::new();
    s(&mut ex, zadd("z", vec![(1.0, SDS::from_str("a")), (2.0, SDS::from_str("b"))], false));
    let r = s(&mut ex, Command::ZRangeByScore { key: "z".to_string(), min: "-inf".to_string(), max: "+inf".to_string(), with_scores: false, limit: Some((-1, 1)) });
    eprintln!("ZRANGEBYSCORE z -inf +inf LIMIT -1 1 -> {}", r);
}
#[test]
fn zscore_formats() {
    let mut ex = CommandExecutor::new();
    s(&mut ex, zadd("z", vec![(1e21, SDS::from_str("a")), (f64::INFINITY, SDS::from_str("b")), (3.0, SDS::from_str("c")), (0.1, SDS::from_str("d"))], false));
    for m in ["a", "b", "c", "d"] {
        let r = ex.execute(&Command::ZScore("z".to_string(), SDS::from_str(m)));
        if let redis_sim::redis::RespValue::BulkString(Some(b)) = r { eprintln!("ZSCORE {} -> {}", m, String::from_utf8_lossy(&b)); }
    }
}
#[test]
fn hincrby_plus_sign() {
    let mut ex = CommandExecutor::new();
    s(&mut ex, Command::HSet("h".to_string(), vec![(SDS::from_str("f"), SDS::from_str("+5"))]));
    let r = s(&mut ex, Command::HIncrBy("h".to_string(), SDS::from_str("f"), 1));
    eprintln!("HSET h f +5; HINCRBY h f 1 -> {}", r);
}

// SkipList::rank / remove_with_score test `(a - b).abs() < f64::EPSILON`: for an infinite score inf - inf = NaN, so the
// entry is never found (debug builds: verify_invariants panics inside ZADD; release builds: ZRANK -> nil, ZREM leaves the
// member in the skiplist so ZRANGE still lists it while ZCARD / ZSCORE do not)
#[test]
fn zadd_infinite_score() {
    let mut ex = CommandExecutor::new();
    let a = s(&mut ex, zadd("z", vec![(1.0, SDS::from_str("a")), (f64::INFINITY, SDS::from_str("b"))], false));
    let rk = s(&mut ex, Command::ZRank("z".to_string(), SDS::from_str("b")));
    let rm = s(&mut ex, Command::ZRem("z".to_string(), vec![SDS::from_str("b")]));
    let rg = s(&mut ex, Command::ZRange("z".to_string(), 0, -1, false));
    let card = s(&mut ex, Command::ZCard("z".to_string()));
    eprintln!("ZADD z 1 a inf b -> {}; ZRANK z b -> {}; ZREM z b -> {}; ZRANGE z 0 -1 -> {}; ZCARD z -> {}", a, rk, rm, rg, card);
    assert_eq!(rk, "Integer(1)"); assert_eq!(rm, "Integer(1)"); assert_eq!(card, "Integer(1)");
    assert_eq!(rg, "Array(Some([BulkString(Some([97]))]))");
}
