// Probe for C01 / C14 (unit set_zset_ops): sorted-set members (and the HSCAN / ZSCAN reply paths) are binary safe.
// Copy to <scratch copy of /repo>/tests/zz_probe_binzset.rs and run
//   RUSTC_WRAPPER= cargo test --offline --test zz_probe_binzset -- --nocapture --test-threads 1
// On /repo @2a3fb3a every test below FAILS except `utf8_members_are_unchanged` (control: passes before and after);
// with fix-candidate-binary-zset.patch applied all of them PASS.
// Expected replies are Redis's: members are byte strings, two members are the same member iff their bytes are equal,
// equal scores are ordered by memcmp of the member bytes, every reply carries the bytes that were stored.
use redis_sim::redis::{Command, CommandExecutor, SDS};

fn s(ex: &mut CommandExecutor, c: Command) -> String { format!("{:?}", ex.execute(&c)) }
fn b(x: &[u8]) -> SDS { SDS::new(x.to_vec()) }
fn zadd(key: &str, pairs: Vec<(f64, SDS)>) -> Command {
    Command::ZAdd { key: key.to_string(), pairs, nx: false, xx: false, gt: false, lt: false, ch: false }
}
fn bulk(x: &[u8]) -> String { format!("BulkString(Some({:?}))", x) }
fn arr(items: &[String]) -> String { format!("Array(Some([{}]))", items.join(", ")) }

// the input of the task statement: ZADD z 1 \xff; ZADD z 2 \xfe
#[test]
fn distinct_non_utf8_members_do_not_collide() {
    let mut ex = CommandExecutor::new();
    let a = s(&mut ex, zadd("z", vec![(1.0, b(&[0xff]))]));
    let c = s(&mut ex, zadd("z", vec![(2.0, b(&[0xfe]))]));
    let card = s(&mut ex, Command::ZCard("z".to_string()));
    let sc_ff = s(&mut ex, Command::ZScore("z".to_string(), b(&[0xff])));
    let sc_fe = s(&mut ex, Command::ZScore("z".to_string(), b(&[0xfe])));
    let rg = s(&mut ex, Command::ZRange("z".to_string(), 0, -1, false));
    eprintln!("ZADD z 1 \\xff -> {}; ZADD z 2 \\xfe -> {}; ZCARD z -> {}; ZSCORE z \\xff -> {}; ZSCORE z \\xfe -> {}; ZRANGE z 0 -1 -> {}", a, c, card, sc_ff, sc_fe, rg);
    assert_eq!(a, "Integer(1)");
    assert_eq!(c, "Integer(1)");                     // defect: Integer(0)
    assert_eq!(card, "Integer(2)");                  // defect: Integer(1)
    assert_eq!(sc_ff, bulk(b"1"));                   // defect: "2"
    assert_eq!(sc_fe, bulk(b"2"));
    assert_eq!(rg, arr(&[bulk(&[0xff]), bulk(&[0xfe])]));   // defect: one element, \xef\xbf\xbd
}

// every reply that names a member carries its exact bytes
#[test]
fn replies_carry_the_exact_member_bytes() {
    let mut ex = CommandExecutor::new();
    s(&mut ex, zadd("z", vec![(1.0, b(&[0xff, 0x00, 0x80]))]));
    let m = [0xffu8, 0x00, 0x80];
    let rg = s(&mut ex, Command::ZRange("z".to_string(), 0, -1, true));
    let rv = s(&mut ex, Command::ZRevRange("z".to_string(), 0, -1, false));
    let rbs = s(&mut ex, Command::ZRangeByScore { key: "z".to_string(), min: "-inf".to_string(), max: "+inf".to_string(), with_scores: true, limit: None });
    let zs = s(&mut ex, Command::ZScan { key: "z".to_string(), cursor: 0, pattern: None, count: None });
    eprintln!("ZRANGE WITHSCORES -> {}\nZREVRANGE -> {}\nZRANGEBYSCORE WITHSCORES -> {}\nZSCAN z 0 -> {}", rg, rv, rbs, zs);
    assert_eq!(rg, arr(&[bulk(&m), bulk(b"1")]));
    assert_eq!(rv, arr(&[bulk(&m)]));
    assert_eq!(rbs, arr(&[bulk(&m), bulk(b"1")]));
    assert_eq!(zs, arr(&[bulk(b"0"), arr(&[bulk(&m), bulk(b"1")])]));
}

// ZRANK / ZREM / ZSCORE address a member by its exact bytes: \xfe is not \xff
#[test]
fn lookups_use_the_exact_member_bytes() {
    let mut ex = CommandExecutor::new();
    s(&mut ex, zadd("z", vec![(1.0, b(&[0xff]))]));
    let sc = s(&mut ex, Command::ZScore("z".to_string(), b(&[0xfe])));
    let rk = s(&mut ex, Command::ZRank("z".to_string(), b(&[0xfe])));
    let rm = s(&mut ex, Command::ZRem("z".to_string(), vec![b(&[0xfe])]));
    let card = s(&mut ex, Command::ZCard("z".to_string()));
    // the replacement character itself is a third, different member
    let sc_repl = s(&mut ex, Command::ZScore("z".to_string(), b("\u{fffd}".as_bytes())));
    eprintln!("ZADD z 1 \\xff; ZSCORE z \\xfe -> {}; ZRANK z \\xfe -> {}; ZREM z \\xfe -> {}; ZCARD z -> {}; ZSCORE z U+FFFD -> {}", sc, rk, rm, card, sc_repl);
    assert_eq!(sc, "BulkString(None)");              // defect: "1"
    assert_eq!(rk, "BulkString(None)");              // defect: Integer(0)
    assert_eq!(rm, "Integer(0)");                    // defect: Integer(1), the member \xff is gone
    assert_eq!(card, "Integer(1)");
    assert_eq!(sc_repl, "BulkString(None)");
}

// equal scores: members are ordered by memcmp of their bytes (Redis: sdscmp), also beyond the UTF-8 range
#[test]
fn equal_scores_are_ordered_by_member_bytes() {
    let mut ex = CommandExecutor::new();
    s(&mut ex, zadd("z", vec![(0.0, b(&[0xff])), (0.0, b(&[0xc3, 0xa9])), (0.0, b(&[0x80])), (0.0, b(b"a")), (0.0, b(&[0xfe, 0x01]))]));
    let rg = s(&mut ex, Command::ZRange("z".to_string(), 0, -1, false));
    let rk = s(&mut ex, Command::ZRank("z".to_string(), b(&[0xfe, 0x01])));
    eprintln!("ZRANGE z 0 -1 -> {}; ZRANK z \\xfe\\x01 -> {}", rg, rk);
    assert_eq!(rg, arr(&[bulk(b"a"), bulk(&[0x80]), bulk(&[0xc3, 0xa9]), bulk(&[0xfe, 0x01]), bulk(&[0xff])]));
    assert_eq!(rk, "Integer(3)");
}

// HSCAN replies with the exact bytes of field names and values (the hash stores exact bytes since 605ac65)
#[test]
fn hscan_carries_the_exact_bytes() {
    let mut ex = CommandExecutor::new();
    s(&mut ex, Command::HSet("h".to_string(), vec![(b(&[0xff]), b(&[0xff]))]));
    let r = s(&mut ex, Command::HScan { key: "h".to_string(), cursor: 0, pattern: None, count: None });
    eprintln!("HSET h \\xff \\xff; HSCAN h 0 -> {}", r);
    assert_eq!(r, arr(&[bulk(b"0"), arr(&[bulk(&[0xff]), bulk(&[0xff])])]));   // defect: \xef\xbf\xbd twice
}

// MATCH is tested against the stored bytes (`?` is one byte, as in Redis's stringmatchlen)
#[test]
fn scan_match_sees_the_stored_bytes() {
    let mut ex = CommandExecutor::new();
    s(&mut ex, zadd("z", vec![(1.0, b(&[0xff])), (2.0, b(b"ab"))]));
    s(&mut ex, Command::HSet("h".to_string(), vec![(b(&[0xff]), b(b"v")), (b(b"ab"), b(b"w"))]));
    let z = s(&mut ex, Command::ZScan { key: "z".to_string(), cursor: 0, pattern: Some("?".to_string()), count: None });
    let h = s(&mut ex, Command::HScan { key: "h".to_string(), cursor: 0, pattern: Some("?".to_string()), count: None });
    eprintln!("ZSCAN z 0 MATCH ? -> {}\nHSCAN h 0 MATCH ? -> {}", z, h);
    assert_eq!(z, arr(&[bulk(b"0"), arr(&[bulk(&[0xff]), bulk(b"1")])]));
    assert_eq!(h, arr(&[bulk(b"0"), arr(&[bulk(&[0xff]), bulk(b"v")])]));
}

// control: nothing changes for UTF-8 members (order of equal scores, ZSCAN page order, replies)
#[test]
fn utf8_members_are_unchanged() {
    let mut ex = CommandExecutor::new();
    s(&mut ex, zadd("z", vec![(1.0, b("zebra".as_bytes())), (1.0, b("apple".as_bytes())), (1.0, b("\u{e9}t\u{e9}".as_bytes())), (0.5, b("mango".as_bytes()))]));
    let rg = s(&mut ex, Command::ZRange("z".to_string(), 0, -1, false));
    let zs = s(&mut ex, Command::ZScan { key: "z".to_string(), cursor: 0, pattern: Some("*a*".to_string()), count: Some(2) });
    let rbs = s(&mut ex, Command::ZRangeByScore { key: "z".to_string(), min: "(0.5".to_string(), max: "1".to_string(), with_scores: false, limit: Some((1, 2)) });
    eprintln!("ZRANGE -> {}\nZSCAN z 0 MATCH *a* COUNT 2 -> {}\nZRANGEBYSCORE z (0.5 1 LIMIT 1 2 -> {}", rg, zs, rbs);
    assert_eq!(rg, arr(&[bulk(b"mango"), bulk(b"apple"), bulk(b"zebra"), bulk("\u{e9}t\u{e9}".as_bytes())]));
    assert_eq!(zs, arr(&[bulk(b"2"), arr(&[bulk(b"apple"), bulk(b"1"), bulk(b"mango"), bulk(b"0.5")])]));
    assert_eq!(rbs, arr(&[bulk(b"zebra"), bulk("\u{e9}t\u{e9}".as_bytes())]));
}
