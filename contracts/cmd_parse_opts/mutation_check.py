# Strength check of unit cmd_parse_opts (not part of the unit run): 23 realistic wrong edits of the 13 option-loop arms (in one or the other
# parser file), each applied to a scratch copy of src/redis, unit regenerated with VERIF_REPO and verified: every one is REFUTED
# (postcondition / loop invariant / safety).  usage: python3 mutation_check.py [mutant names]   (scratch: /var/tmp/cmd_parse_opts-scratch)
import os,sys,subprocess,re,shutil,json
from concurrent.futures import ThreadPoolExecutor
sys.path.insert(0,'/verif')
BASE='/var/tmp/cmd_parse_opts-scratch'
# (name, file, old, new, nth occurrence (0-based) or None for unique)
P='src/redis/parser.rs'; Z='src/redis/commands.rs'
MUTS=[
 ('set_nx_sets_xx',P,'"NX" => nx = true,','"NX" => xx = true,',0),
 ('set_ex_no_advance',P,'''                                "EX" => {
                                    i += 1;
                                    if i >= elements.len() {
                                        return Err("SET EX requires a value".to_string());''','''                                "EX" => {
                                    if i >= elements.len() {
                                        return Err("SET EX requires a value".to_string());''',0),
 ('set_nx_or_xx',P,'if nx && xx {','if nx || xx {',0),
 ('set_keepttl_check_drops_pxat',P,'if keepttl && (ex.is_some() || px.is_some() || exat.is_some() || pxat.is_some())','if keepttl && (ex.is_some() || px.is_some() || exat.is_some())',0),
 ('set_get_default_true',P,'let mut get = false;','let mut get = true;',0),
 ('set_px_stored_in_ex',P,'px = Some(Self::extract_i64(&elements[i])?);','ex = Some(Self::extract_i64(&elements[i])?);',0),
 ('expire_gtlt_check_removed',Z,'''                        if gt && lt {
                            return Err("ERR GT and LT options at the same time are not compatible".to_string());
                        }
                        Ok(Command::Expire''','''                        Ok(Command::Expire''',0),
 ('pexpire_nx_check_weaker',Z,'if nx && (xx || gt || lt) {','if nx && (xx || gt) {',1),
 ('expire_lt_sets_gt',P,'"LT" => lt = true,','"LT" => gt = true,',0),
 ('mset_arity_text',Z,"ERR wrong number of arguments for 'mset' command","ERR wrong number of arguments for 'MSET' command",0),
 ('msetnx_builds_mset',P,'Ok(Command::MSetNx(pairs))','Ok(Command::MSet(pairs))',0),
 ('hset_value_is_field',P,'let value = Self::extract_sds(&elements[i + 1])?;\n                            pairs.push((field, value));','let value = Self::extract_sds(&elements[i])?;\n                            pairs.push((field, value));',0),
 ('zadd_ch_false',Z,'ch = true;','ch = false;',0),
 ('zadd_pairs_skip_first',P,'pairs.push((score, member));\n                            i += 2;','if i > 2 { pairs.push((score, member)); }\n                            i += 2;',0),
 ('zrbs_limit_advance',P,'limit = Some((offset, count));\n                                    i += 2;','limit = Some((offset, count));\n                                    i += 1;',0),
 ('zrbs_withscores_false',Z,'"WITHSCORES" => with_scores = true,','"WITHSCORES" => with_scores = false,',0),
 ('scan_match_count_swapped',P,'''                                "MATCH" => {
                                    i += 1;
                                    if i >= elements.len() {
                                        return Err("ERR syntax error".to_string());
                                    }
                                    pattern''','''                                "COUNT" => {
                                    i += 1;
                                    if i >= elements.len() {
                                        return Err("ERR syntax error".to_string());
                                    }
                                    pattern''',0),
 ('hscan_unknown_text',Z,'Unknown HSCAN option: {}','Unknown SCAN option: {}',0),
 ('zscan_missing_value_text',P,'return Err("ERR syntax error".to_string());\n                                    }\n                                    count = Some','return Err("ERR syntax".to_string());\n                                    }\n                                    count = Some',2),
 ('getex_count_gt2',P,'if option_count > 1 {','if option_count > 2 {',0),
 ('getex_persist_false',Z,'"PERSIST" => persist = true,','"PERSIST" => persist = false,',0),
 ('sort_store_needs_two',P,'''                                if i < elements.len() {
                                    store = Some''','''                                if i + 1 < elements.len() {
                                    store = Some''',0),
 ('sort_store_lowercase',Z,'if opt == "STORE" {','if opt == "store" {',0),
]
def nth_replace(s,old,new,n):
    idx=-1
    for _ in range(n+1):
        idx=s.find(old,idx+1)
        if idx<0: raise SystemExit('needle not found: '+old[:60])
    return s[:idx]+new+s[idx+len(old):]
def one(m):
    name,f,old,new,n=m
    d=f'{BASE}/m/{name}'
    shutil.rmtree(d,ignore_errors=True); os.makedirs(d+'/src/redis')
    for fn in os.listdir('/repo/src/redis'):
        if fn.endswith('.rs'): shutil.copy('/repo/src/redis/'+fn,d+'/src/redis/'+fn)
    p=d+'/'+f; s=open(p).read(); open(p,'w').write(nth_replace(s,old,new,n))
    code=f"""
import os
os.environ['VERIF_REPO']='{d}'
from engine.gen import Unit
from engine import run
u=Unit(run.VERIF, run.REPO, 'cmd_parse_opts', ()).generate()
t,_=u.render()
open('{d}/t.rs','w').write(t)
"""
    r=subprocess.run(['python3','-c',code],cwd='/verif',capture_output=True,text=True)
    if not os.path.exists(d+'/t.rs'): return name,'GENFAIL '+r.stderr[-300:]
    r=subprocess.run(['verus','t.rs','--triggers-mode','silent','--multiple-errors','3'],cwd=d,capture_output=True,text=True)
    errs=[l for l in r.stderr.split('\n') if l.startswith('error')]
    res=re.findall(r'verification results:: .*',r.stdout+r.stderr)
    return name,(res[0] if res else 'NO RESULT')+' | '+' ; '.join(errs[:3])
sel=sys.argv[1:]
ms=[m for m in MUTS if not sel or m[0] in sel]
with ThreadPoolExecutor(max_workers=4) as ex:
    for name,res in ex.map(one,ms):
        print(name,'=>',res,flush=True)
