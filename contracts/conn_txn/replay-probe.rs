// Replay probe for C05 (unit conn_txn, try_execute_command/assert#4): the connection-level WATCH snapshots `GET key`;
// for a key that is not a string the snapshot is the WRONGTYPE error before and after ANY change, so EXEC never aborts.
// Run with:  cargo test --offline --features verif-hooks --test verif_c05_conn_probe
#![cfg(feature = "verif-hooks")]
use redis_sim::production::{verif_serve_connection, ConnectionConfig, ShardedActorState};
use std::time::Duration;
use tokio::io::{AsyncReadExt, AsyncWriteExt, DuplexStream};

fn c(words: &[&str]) -> Vec<u8> {
    let mut o = format!("*{}\r\n", words.len()).into_bytes();
    for w in words { o.extend_from_slice(format!("${}\r\n{}\r\n", w.len(), w).as_bytes()); }
    o
}
async fn talk(s: &mut DuplexStream, words: &[&str]) -> String {
    s.write_all(&c(words)).await.unwrap();
    let mut buf = vec![0u8; 4096];
    let n = tokio::time::timeout(Duration::from_secs(2), s.read(&mut buf)).await.expect("reply timeout").unwrap();
    String::from_utf8_lossy(&buf[..n]).replace("\r\n", "\\r\\n")
}
fn connect(state: &ShardedActorState) -> DuplexStream {
    let (client, server) = tokio::io::duplex(1 << 16);
    let cc = ConnectionConfig { max_buffer_size: 1 << 20, read_buffer_size: 4096, min_pipeline_buffer: 60, batch_threshold: 2 };
    let st = state.clone();
    tokio::task::spawn_local(async move { verif_serve_connection(server, st, cc).await });
    client
}

#[tokio::test]
async fn exec_must_abort_when_watched_list_changed() {
    let local = tokio::task::LocalSet::new();
    local.run_until(async {
        let state = ShardedActorState::with_shards(2);
        let mut a = connect(&state);
        let mut b = connect(&state);
        let mut log = Vec::new();
        log.push(format!("A: RPUSH l a      -> {}", talk(&mut a, &["RPUSH", "l", "a"]).await));
        log.push(format!("A: WATCH l        -> {}", talk(&mut a, &["WATCH", "l"]).await));
        log.push(format!("B: RPUSH l b      -> {}", talk(&mut b, &["RPUSH", "l", "b"]).await));
        log.push(format!("A: MULTI          -> {}", talk(&mut a, &["MULTI"]).await));
        log.push(format!("A: SET x 1        -> {}", talk(&mut a, &["SET", "x", "1"]).await));
        let exec = talk(&mut a, &["EXEC"]).await;
        log.push(format!("A: EXEC           -> {}", exec));
        log.push(format!("B: GET x          -> {}", talk(&mut b, &["GET", "x"]).await));
        for l in &log { eprintln!("{}", l); }
        assert_eq!(exec, "*-1\\r\\n", "the watched list changed between WATCH and EXEC: EXEC must reply nil and apply nothing");
    }).await;
}
// control: a watched STRING that changed is detected
#[tokio::test]
async fn exec_aborts_when_watched_string_changed() {
    let local = tokio::task::LocalSet::new();
    local.run_until(async {
        let state = ShardedActorState::with_shards(2);
        let mut a = connect(&state);
        let mut b = connect(&state);
        talk(&mut a, &["SET", "s", "1"]).await;
        talk(&mut a, &["WATCH", "s"]).await;
        talk(&mut b, &["SET", "s", "2"]).await;
        talk(&mut a, &["MULTI"]).await;
        talk(&mut a, &["SET", "x", "1"]).await;
        let exec = talk(&mut a, &["EXEC"]).await;
        eprintln!("string control: EXEC -> {}", exec);
        assert_eq!(exec, "*-1\\r\\n");
    }).await;
}
// control after the fix: unchanged watched keys of every type do not abort; changed set / hash / zset do
#[tokio::test]
async fn watch_all_types() {
    let local = tokio::task::LocalSet::new();
    local.run_until(async {
        let state = ShardedActorState::with_shards(2);
        let mut a = connect(&state);
        let mut b = connect(&state);
        talk(&mut a, &["RPUSH", "l", "a"]).await; talk(&mut a, &["SADD", "s", "a"]).await;
        talk(&mut a, &["HSET", "h", "f", "1"]).await; talk(&mut a, &["ZADD", "z", "1", "a"]).await; talk(&mut a, &["SET", "str", "v"]).await;
        // unchanged
        talk(&mut a, &["WATCH", "l", "s", "h", "z", "str", "missing"]).await;
        talk(&mut a, &["MULTI"]).await; talk(&mut a, &["SET", "x", "1"]).await;
        let e = talk(&mut a, &["EXEC"]).await;
        eprintln!("unchanged keys of all types: EXEC -> {}", e);
        assert_eq!(e, "*1\\r\\n+OK\\r\\n");
        for (k, change) in [("s", vec!["SADD", "s", "b"]), ("h", vec!["HSET", "h", "f", "2"]), ("z", vec!["ZADD", "z", "2", "a"]), ("missing", vec!["SET", "missing", "now"])] {
            talk(&mut a, &["WATCH", k]).await;
            talk(&mut b, &change).await;
            talk(&mut a, &["MULTI"]).await; talk(&mut a, &["SET", "x", "2"]).await;
            let e = talk(&mut a, &["EXEC"]).await;
            eprintln!("{:?} by the other connection: EXEC -> {}", change, e);
            assert_eq!(e, "*-1\\r\\n");
        }
    }).await;
}
