// Replay probe for C01 (unit sds_ops, RedisSortedSet::parse_score_bound): command sequences on the REAL CommandExecutor whose reply
// differs from Redis.  Run on a scratch copy of /repo:
//   cp replay-probe.rs <scratch>/tests/sds_ops_probe.rs && cd <scratch> && RUSTC_WRAPPER= cargo test --offline --test sds_ops_probe -- --nocapture
use redis_sim::redis::{Command, CommandExecutor, RespValue, SDS};

fn s(ex: &mut CommandExecutor, c: Command) -> String { format!("{:?}", ex.execute(&c)) }

// sds_ops/RedisSortedSet::parse_score_bound/ensures#1
// Redis (zslParseRange): `if (eptr[0] != '\0' || isnan(spec->min)) return C_ERR;` -> "ERR min or max is not a float"
#[test]
fn zcount_nan_bound_is_an_error() {
    let mut ex = CommandExecutor::new();
    ex.execute(&Command::ZAdd { key: "z".to_string(), pairs: vec![(1.0, SDS::from_str("a"))], nx: false, xx: false, gt: false, lt: false, ch: false });
    let r = s(&mut ex, Command::ZCount("z".to_string(), "nan".to_string(), "nan".to_string()));
    eprintln!("ZADD z 1 a; ZCOUNT z nan nan -> {}   (Redis: ERR min or max is not a float)", r);
    assert!(r.contains("Error"), "a NaN bound must be rejected, got {}", r);
    let r = s(&mut ex, Command::ZCount("z".to_string(), "(NaN".to_string(), "+inf".to_string()));
    eprintln!("ZCOUNT z (NaN +inf -> {}   (Redis: ERR min or max is not a float)", r);
    assert!(r.contains("Error"), "a NaN bound must be rejected, got {}", r);
}
// control: the ordinary bounds agree
#[test]
fn zcount_controls() {
    let mut ex = CommandExecutor::new();
    ex.execute(&Command::ZAdd { key: "z".to_string(), pairs: vec![(1.0, SDS::from_str("a")), (2.0, SDS::from_str("b"))], nx: false, xx: false, gt: false, lt: false, ch: false });
    assert_eq!(s(&mut ex, Command::ZCount("z".to_string(), "-inf".to_string(), "+inf".to_string())), format!("{:?}", RespValue::Integer(2)));
    assert_eq!(s(&mut ex, Command::ZCount("z".to_string(), "(1".to_string(), "2".to_string())), format!("{:?}", RespValue::Integer(1)));
    assert!(s(&mut ex, Command::ZCount("z".to_string(), "x".to_string(), "2".to_string())).contains("Error"));
}
