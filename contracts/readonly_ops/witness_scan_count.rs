//! Witness for readonly_ops/CommandExecutor::execute_{scan,hscan,zscan}/safety: `SCAN 0 COUNT -1` (parser: `extract_integer(..)? as usize` = usize::MAX).
//! Observed on /repo @ 2110976 (bin crate with redis-sim path dependency, as /verif/replay):
//!   overflow-checks on : panic "attempt to add with overflow" at scan_ops.rs:42 (process abort under the release profile panic = "abort")
//!   overflow-checks off: reply ["0", []] although three keys exist (take(0): the scan reports an empty, complete iteration)
use redis_sim::redis::{Command, CommandExecutor, SDS};
fn sds(s: &str) -> SDS { SDS::new(s.as_bytes().to_vec()) }
fn main() {
    let mut ex = CommandExecutor::new();
    for k in ["a", "b", "c"] { ex.execute(&Command::set(k.to_string(), sds("1"))); }
    println!("SCAN 0 COUNT 10      -> {:?}", ex.execute(&Command::Scan { cursor: 0, pattern: None, count: Some(10) }));
    let r = std::panic::catch_unwind(std::panic::AssertUnwindSafe(|| ex.execute(&Command::Scan { cursor: 0, pattern: None, count: Some(usize::MAX) })));
    println!("SCAN 0 COUNT -1 (usize::MAX) -> {:?}", r.map_err(|_| "PANIC"));
}
