#!/usr/bin/env python3
"""Regenerate the machine-derived tables of DESIGN.md §7 from known_findings.json and contracts/units.json."""
import json, os, re, subprocess
V = os.path.dirname(os.path.dirname(os.path.abspath(__file__)))
kf = json.load(open(os.path.join(V, 'known_findings.json')))['findings']
reg = json.load(open(os.path.join(V, 'contracts', 'units.json')))
log = subprocess.check_output(['git', '-C', '/repo', 'log', '--format=%h %s']).decode().split('\n')
subj = {l.split()[0]: l.split(' ', 1)[1] for l in log if l.strip()}
fixed = {}
for k in kf:
    if k['status'] == 'fixed':
        fixed.setdefault(k['commit'], []).append(k)
rows = []
for l in reversed([x for x in log if x.strip()]):
    h = l.split()[0]
    if h in fixed:
        props = sorted(set(k['property'] for k in fixed[h]))
        obls = '; '.join(sorted(set(k['obligation'] for k in fixed[h])))
        what = fixed[h][0]['what'].split(h, 1)[-1].strip()
        rows.append('| %s | %s | %s | %s |' % (h, ', '.join(props), obls.replace('|', '/'), what.replace('|', '/')[:260]))
fix_tbl = '| commit | property | refuted obligation(s) | failing input / defect |\n|---|---|---|---|\n' + '\n'.join(rows)
open_rows = []
for k in kf:
    if k['status'] == 'open':
        open_rows.append('* **%s** `%s` — %s. *Why not repaired:* %s' % (k['property'], k['obligation'], k['what'], k.get('why_not_fixed', '')))
open_txt = '\n'.join(open_rows)
prow = []
for pid in sorted(reg):
    e = reg[pid]
    prow.append('| %s | %s | %s | %s |' % (pid, ', '.join(e['units'] + ['scan:' + s for s in e.get('scans', [])] + ['kani:' + s for s in e.get('kani', [])]),
                                          e['claim'].replace('|', '/'), e.get('not_reached', '').replace('|', '/')))
ptbl = '| id | units | discharged (claim) | not reached |\n|---|---|---|---|\n' + '\n'.join(prow)
p = os.path.join(V, 'DESIGN.md')
s = open(p).read()
def put(s, tag, txt):
    a, b = '<!-- %s-begin -->' % tag, '<!-- %s-end -->' % tag
    if a in s:
        return re.sub(re.escape(a) + '.*?' + re.escape(b), lambda m: a + '\n' + txt + '\n' + b, s, flags=re.S)
    return s
s = put(s, 'fixes', fix_tbl)
s = put(s, 'open-findings', open_txt)
s = put(s, 'property-table', ptbl)
open(p, 'w').write(s)
print('fix rows', len(rows), 'open', len(open_rows), 'properties', len(prow))
