#!/bin/bash
# usage: tools/try_seed.sh <patch.diff> <Cxx> [<Cyy> ...]
# Applies the patch to a SCRATCH COPY of /repo (so /repo and anything reading it is undisturbed),
# runs the checks against the copy (VERIF_REPO), removes the copy.  Pass --in-repo as first arg to
# use the official protocol instead (git -C /repo apply ...; checks; git -C /repo checkout -- .).
if [ "$1" = "--in-repo" ]; then
  shift; P="$(readlink -f "$1")"; shift; cd /verif
  git -C /repo diff --quiet || { echo "/repo has uncommitted changes"; exit 2; }
  git -C /repo apply "$P" || { echo "patch does not apply"; exit 2; }
  for pid in "$@"; do echo "== $pid"; ./vcheck $pid --tier quick; echo "rc=$?"; done
  git -C /repo checkout -- .
  exit 0
fi
P="$(readlink -f "$1")"; shift
S=/var/tmp/tryseed-$$
mkdir -p $S && rsync -a --exclude target --exclude .git /repo/ $S/ || exit 2
( cd $S && patch -p1 -s < "$P" ) || { echo "patch does not apply"; rm -rf $S; exit 2; }
cd /verif
for pid in "$@"; do echo "== $pid"; VERIF_REPO=$S ./vcheck $pid --tier quick; echo "rc=$?"; done
rm -rf $S
