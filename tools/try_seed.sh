#!/bin/bash
# usage: tools/try_seed.sh <patch.diff> <Cxx> [<Cyy> ...]  : apply to /repo, run the checks, undo.
P="$1"; shift
cd /verif
git -C /repo diff --quiet || { echo "/repo has uncommitted changes"; exit 2; }
git -C /repo apply "$(readlink -f "$P")" || { echo "patch does not apply"; exit 2; }
for pid in "$@"; do echo "== $pid"; ./vcheck $pid --tier quick; echo "rc=$?"; done
git -C /repo checkout -- .
