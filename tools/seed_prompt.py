import json,sys
pid=sys.argv[1]; n=sys.argv[2]
focus=sys.argv[3] if len(sys.argv)>3 else ''
for l in open('/verif/properties.jsonl'):
    p=json.loads(l)
    if p['id']==pid: break
wt='/tmp/seed-%s-%s'%(pid,n)
print(f'''You are testing the robustness of a Rust code base against subtle regressions. Work ONLY inside the scratch git worktree {wt} (a checkout of the repository nerdsane/redis-rust: an experimental Redis-compatible in-memory server in Rust with actor-per-shard execution, CRDT gossip replication, WAL/segment persistence and a deterministic simulator). Do NOT read or touch /verif or /repo (other than the commands given below), and do not use the network (there is none).

Setup (run these first):
  git -C /repo worktree add --detach {wt} HEAD
  cp -r /repo/target {wt}/target        # warm build cache so cargo is incremental (about 3 GB)
Build/test commands must be prefixed with RUSTC_WRAPPER= and use --offline, e.g.:
  cd {wt} && RUSTC_WRAPPER= cargo test --offline --lib <filter>
  cd {wt} && RUSTC_WRAPPER= cargo test --offline --workspace --no-fail-fast 2>&1 | grep -E "^test result|FAILED|failed" | tail -40     (the full suite, ~691 tests; takes a few minutes)

The property that must hold for this code base:

  [{p['id']}] {p['title']}
  {p['statement']}
  Quantified over: {p['quantifier']['text']}
  Code it lives in: {', '.join(p['anchors']['files'])}
  Mechanisms meant to make it hold: {'; '.join(m['name']+' ('+m['where']+')' for m in p['anchors']['mechanism'])}

YOUR TASK: produce ONE realistic change to the repository source (the kind of regression a well-meaning developer could introduce: an optimisation, a refactor, a boundary condition, a reordered pair of statements, a changed comparison, a forgotten update, two cooperating edits that each look fine alone) that BREAKS this property while the crate still compiles and the ENTIRE existing test suite still passes. Variant number {n}: pick a different function / mechanism than the most obvious one if you are variant 2 or higher.{(' For this variant, place the change in or around: '+focus+' (one of the places the property depends on); choose something there that is NOT the first idea that comes to mind.') if focus else ''} The change must need something specific to manifest — a particular interleaving or ordering of operations, a tie or boundary value, a multi-step sequence, an unusual input, a crash or fault at a particular point — not something ordinary use would expose at once. Keep it small (typically 1-15 changed lines), in non-test source files under src/. Do not touch tests, benches, docs or Cargo files. Do not add cfg flags, env-var switches, or obviously malicious code; it must look like an honest mistake.

Then write a DEMONSTRATION: a new test file under {wt}/tests/ (an integration test using the crate's public API: the crate is named redis_sim, e.g. `use redis_sim::replication::...`) or, if private access is needed, a #[cfg(test)] test added in a NEW separate file/module, that FAILS with your change applied and PASSES on the unchanged code. The demonstration must exercise the real code and check the property (not just check that some line changed).

You must confirm all of this yourself:
  1. with the change: the crate builds and the full existing test suite passes (run it; report the counts), and the demonstration fails;
  2. without the change (git stash or git checkout the source change, keep the demo): the demonstration passes.

Deliverables, written into {wt}/seed/ :
  - patch.diff : `git diff` of the source change ONLY (not the demo), applicable with `git apply` from the repository root;
  - the demonstration file(s) copied there too (e.g. demo_test.rs) plus the exact command to run it;
  - meta.json : {{"property": "{p['id']}", "summary": "...what was changed and why it breaks the property...", "needs_to_manifest": "...the specific interleaving/sequence/input/tie...", "files_changed": [...], "demo_cmd": "...", "suite_result_with_change": "...", "demo_with_change": "fails: ...", "demo_without_change": "passes"}}
When done, leave the worktree in place (do not remove it) with the source change REVERTED (git checkout -- src) and the seed/ directory present, delete {wt}/target to free disk, and reply with a short report (what you changed, how it manifests, what you ran and the results).''')
