#!/usr/bin/env python3
"""For every seeded/<id>/: run the relevant checks against a scratch copy with the patch applied
(tools/try_seed.sh), record the outcome in seeded/<id>/detection.json and regenerate the table in DESIGN.md."""
import json, os, re, subprocess, sys, glob
V = os.path.dirname(os.path.dirname(os.path.abspath(__file__)))
RELATED = {'C06': ['C06', 'C07', 'C08'], 'C07': ['C07', 'C06'], 'C08': ['C08', 'C06'], 'C04': ['C04', 'C15'], 'C15': ['C15', 'C04'],
           'C10': ['C10', 'C14', 'C11'], 'C14': ['C14', 'C10', 'C12'], 'C11': ['C11', 'C10'], 'C12': ['C12', 'C14', 'C13'], 'C13': ['C13', 'C12']}
only = sys.argv[1:]
reg = json.load(open(os.path.join(V, 'contracts', 'units.json')))
rows = []
for d in sorted(glob.glob(os.path.join(V, 'seeded', '*'))):
    sid = os.path.basename(d)
    meta = json.load(open(os.path.join(d, 'meta.json')))
    pid = meta.get('property', sid.split('-')[0])
    det_path = os.path.join(d, 'detection.json')
    if (not only or sid in only):
        props = [p for p in RELATED.get(pid, [pid]) if p in reg]
        out = subprocess.run([os.path.join(V, 'tools', 'try_seed.sh'), os.path.join(d, 'patch.diff')] + props,
                             stdout=subprocess.PIPE, stderr=subprocess.STDOUT).stdout.decode()
        res = {}
        cur = None
        for ln in out.split('\n'):
            m = re.match(r'== (C\d+)', ln)
            if m:
                cur = m.group(1); res[cur] = {'violations': [], 'undecided': [], 'rc': None}
            elif cur and ln.startswith('VIOLATION'):
                res[cur]['violations'].append(ln)
            elif cur and ln.startswith('UNDECIDED'):
                res[cur]['undecided'].append(ln[:300])
            elif cur and ln.startswith('rc='):
                res[cur]['rc'] = int(ln[3:])
        verdict = 'missed'
        if any(r['rc'] == 1 for r in res.values()):
            verdict = 'caught'
            if all('no-failing-input-found' in v for r in res.values() for v in r['violations']):
                verdict = 'caught (no concrete input)'
            else:
                verdict = 'caught with concrete failing input'
        elif any(r['rc'] == 2 for r in res.values()):
            verdict = 'undecided (exit 2: not an alarm, not a detection)'
        json.dump({'seed': sid, 'property': pid, 'checks_run': props, 'verdict': verdict, 'per_check': res,
                   'how': 'tools/try_seed.sh seeded/%s/patch.diff %s (patch applied to a scratch copy of /repo, VERIF_REPO)' % (sid, ' '.join(props))},
                  open(det_path, 'w'), indent=1)
    det = json.load(open(det_path)) if os.path.exists(det_path) else {'verdict': 'not tried', 'per_check': {}}
    conf = json.load(open(os.path.join(d, 'confirm.json'))) if os.path.exists(os.path.join(d, 'confirm.json')) else {}
    obl = sorted(set(re.sub(r'.*replays/C\d+-', '', v.split('replay=')[1].split()[0]).replace('.json', '') for r in det['per_check'].values() for v in r['violations']))
    und = [u for r in det['per_check'].values() for u in r['undecided']]
    rows.append((sid, pid, meta.get('summary', '')[:150].replace('|', '/').replace('\n', ' '), 'yes' if conf.get('confirmed') else ('no' if conf else 'pending'),
                 det['verdict'], ', '.join(obl)[:200] or (und[0][:160].replace('|', '/') if und else '-')))
tbl = '| seed | property | change | confirmed | verdict | failing obligations / reason |\n|---|---|---|---|---|---|\n' + '\n'.join('| %s | %s | %s | %s | %s | %s |' % r for r in rows)
p = os.path.join(V, 'DESIGN.md')
s = open(p).read()
if 'SEEDED_TABLE_PLACEHOLDER' in s:
    s = s.replace('SEEDED_TABLE_PLACEHOLDER', '<!-- seeded-table-begin -->\n' + tbl + '\n<!-- seeded-table-end -->')
else:
    s = re.sub(r'<!-- seeded-table-begin -->.*<!-- seeded-table-end -->', lambda m: '<!-- seeded-table-begin -->\n' + tbl + '\n<!-- seeded-table-end -->', s, flags=re.S)
open(p, 'w').write(s)
print(tbl)
