#!/bin/bash
# usage: tools/collect_seed.sh C04-3     (takes /tmp/seed-C04-3/seed/, confirms it in a fresh worktree, tries the checks, removes the worktree)
ID="$1"; WT=/tmp/seed-$ID; SD=/verif/seeded/$ID
[ -d "$WT/seed" ] || { echo "no $WT/seed"; exit 1; }
mkdir -p "$SD" && cp "$WT"/seed/* "$SD"/ 2>/dev/null
git -C /repo worktree remove --force "$WT" 2>/dev/null; rm -rf "$WT"
/verif/tools/confirm_seed.sh "$SD" "$ID" > "$SD/confirm.log" 2>&1
python3 /verif/tools/seed_report.py "$ID" > /dev/null 2>&1
python3 - <<PY
import json
c=json.load(open("$SD/confirm.json")); d=json.load(open("$SD/detection.json"))
print("$ID", "confirmed=", c.get("confirmed"), "verdict=", d["verdict"])
for k,v in d["per_check"].items(): print("  ", k, "rc=", v["rc"], [x[:160] for x in v["violations"]][:4], [x[:200] for x in v["undecided"]][:2])
PY
