#!/bin/bash
# usage: tools/confirm_seed.sh <seed-dir containing patch.diff, demo_test.rs, meta.json> <name>
# Confirms, in a fresh scratch worktree of /repo HEAD: patch applies and compiles, the existing suite
# passes with it, the demonstration fails with it and passes without it. Writes <seed-dir>/confirm.json.
set -u
SD="$1"; NAME="$2"
WT=/tmp/confirm-$NAME
OUT="$SD/confirm.json"
git -C /repo worktree remove --force "$WT" 2>/dev/null; rm -rf "$WT"
git -C /repo worktree add --detach "$WT" HEAD >/dev/null 2>&1 || { echo '{"error":"worktree"}' > "$OUT"; exit 1; }
cp -r /repo/target "$WT/target"
cd "$WT"
export RUSTC_WRAPPER=
if ! git apply --check "$SD/patch.diff" 2>/dev/null; then echo '{"applies": false}' > "$OUT"; cd /; git -C /repo worktree remove --force "$WT"; rm -rf "$WT"; exit 1; fi
git apply "$SD/patch.diff"
DEMO=$(ls "$SD"/*.rs | head -1)
TNAME=seed_demo_$(echo $NAME | tr '-' '_' | tr 'A-Z' 'a-z')
# a demo that drives a connection needs the hook feature (meta.json demo_cmd mentions it)
FEAT=""; grep -q -- "--features verif-hooks" "$SD/meta.json" 2>/dev/null && FEAT="--features verif-hooks"
# 1. suite with the change (demo not yet present)
cargo test --offline --workspace --no-fail-fast > suite.log 2>&1
SUITE_FAIL=$(grep -E "^test result: FAILED|error(\[|:)" suite.log | wc -l)
SUITE_PASS=$(grep -E "^test result: ok" suite.log | sed -E 's/.* ([0-9]+) passed.*/\1/' | paste -sd+ | bc)
# 2. demo with the change
cp "$DEMO" tests/$TNAME.rs
cargo test --offline $FEAT --test $TNAME > demo_with.log 2>&1; DW=$?
# 3. demo without the change
git apply -R "$SD/patch.diff"
cargo test --offline $FEAT --test $TNAME > demo_without.log 2>&1; DWO=$?
python3 - <<PY > "$OUT"
import json
print(json.dumps({"applies": True, "repo_head": "$(git -C /repo rev-parse --short HEAD)", "suite_with_change": {"passed": int("${SUITE_PASS:-0}" or 0), "failure_lines": int("$SUITE_FAIL")},
 "demo_with_change_exit": $DW, "demo_without_change_exit": $DWO,
 "confirmed": ($DW != 0 and $DWO == 0 and int("$SUITE_FAIL") == 0),
 "demo_with_tail": open("demo_with.log").read()[-1200:], "demo_without_tail": open("demo_without.log").read()[-400:]}, indent=1))
PY
cd /
git -C /repo worktree remove --force "$WT" 2>/dev/null; rm -rf "$WT"
cat "$OUT" | head -12
