#!/bin/bash
# usage: tools/run_harmless.sh [pattern]     (default: every diff under tools/harmless and tools/harmless/batches)
# Applies each behaviour-preserving diff to a scratch copy of /repo (never /repo itself), runs the check(s) of the
# property named by the file's prefix (C0405 = C04 and C05, RS = C03 C06 C09) and prints one line per run.
# PASS criterion: no line starting with VIOLATION.  exit 0 / exit 2 are both acceptable here (exit 2 = undecided).
# Diffs whose context no longer matches /repo (the tree moved on since they were written) are reported as stale.
cd /verif
PAT="${1:-}"
bad=0
for d in tools/harmless/*.diff tools/harmless/batches/*.diff; do
  n=$(basename "$d" .diff)
  [[ -n "$PAT" && "$n" != *$PAT* ]] && continue
  pre=${n%%-*}; pre=${pre%%r[0-9]}
  case "$pre" in
    C0405) props="C04 C05";;
    RS) props="C03 C06 C09";;
    *) props="$pre";;
  esac
  S=/var/tmp/harmless-$$-$n
  rm -rf "$S"; rsync -a --exclude target --exclude .git /repo/ "$S/"
  if ! (cd "$S" && patch -p1 -s --no-backup-if-mismatch < "/verif/$d" >/dev/null 2>&1); then
    echo "$n: stale (does not apply to the current tree)"; rm -rf "$S"; continue
  fi
  for p in $props; do
    out=$(VERIF_REPO="$S" ./vcheck "$p" 2>&1); rc=$?
    v=$(echo "$out" | grep -c '^VIOLATION')
    echo "$n $p rc=$rc violations=$v $(echo "$out" | grep '^VIOLATION' | head -2 | cut -c1-160 | tr '\n' ' ')"
    [ "$v" != 0 ] && bad=1
  done
  rm -rf "$S"
done
rm -rf /verif/.work-alt-*
exit $bad
