#!/bin/sh
# Offline setup: nothing is downloaded.  Builds the replay crate and warms the Kani dependency caches so that the
# quick checks only recompile the repository's own crate.  Every step is best-effort: a failed warm-up only makes the
# first check slower (or degrades replay to `no-failing-input-found`), it never changes a verdict.
cd "$(dirname "$0")" || exit 1
mkdir -p .work .cache evidence replays
verus --version >/dev/null 2>&1 || { echo "verus not on PATH"; exit 1; }
export CARGO_NET_OFFLINE=true RUSTC_WRAPPER=
if [ -f replay/Cargo.toml ]; then
  cp /repo/Cargo.lock replay/Cargo.lock 2>/dev/null
  (cd replay && CARGO_TARGET_DIR=../.cache/replay-target cargo build --offline --release -q) || echo "replay crate build failed (replay degrades to no-failing-input-found)"
fi
if command -v cargo-kani >/dev/null 2>&1 || cargo kani --version >/dev/null 2>&1; then
  timeout 2400 python3 -m engine.kani_run wal_kani seg_kani list_kani --tier quick >/dev/null 2>&1 || echo "kani warm-up incomplete (first Kani check will build its cache)"
fi
exit 0
