#!/bin/sh
# Offline setup: nothing to download. Warms the Verus toolchain and (when present) builds the replay crate.
cd "$(dirname "$0")" || exit 1
mkdir -p .work .cache evidence replays
verus --version >/dev/null 2>&1 || { echo "verus not on PATH"; exit 1; }
if [ -f replay/Cargo.toml ]; then
  cp /repo/Cargo.lock replay/Cargo.lock 2>/dev/null
  (cd replay && CARGO_TARGET_DIR=../.cache/replay-target CARGO_NET_OFFLINE=true RUSTC_WRAPPER= cargo build --offline --release -q) || echo "replay crate build failed (replay degrades to no-failing-input-found)"
fi
exit 0
