"""Property-level driver: run the units that serve a property, triage, evidence, exit code."""
import json
import os
import sys
import time
import hashlib
import concurrent.futures as cf

from . import run as R

VERIF = R.VERIF


def load_json(path, default=None):
    try:
        return json.load(open(path))
    except FileNotFoundError:
        return default


def registry():
    return load_json(os.path.join(VERIF, 'contracts', 'units.json'), {})


def baseline(unit):
    b = load_json(os.path.join(VERIF, 'contracts', unit, 'baseline.json'), {'discharged': {}})
    return b.get('discharged', {})


def baseline_text_fp(unit):
    b = load_json(os.path.join(VERIF, 'contracts', unit, 'baseline.json'), {})
    return b.get('text_fp')


def baseline_anchors(unit):
    b = load_json(os.path.join(VERIF, 'contracts', unit, 'baseline.json'), {})
    return b.get('anchors')


def known_findings():
    return load_json(os.path.join(VERIF, 'known_findings.json'), {'findings': []})['findings']


def rebaseline(units):
    for u in units:
        r = R.run_unit(u)
        if r.status != 'ok':
            print('unit %s undecided: %s' % (u, r.reason))
            continue
        d = {oid: info['text'] for oid, info in sorted(r.obligations.items()) if oid not in r.failed}
        path = os.path.join(VERIF, 'contracts', u, 'baseline.json')
        json.dump({'unit': u, 'discharged': d, 'failed_at_baseline': sorted(r.failed), 'anchors': r.anchor_fp, 'text_fp': r.text_fp}, open(path, 'w'), indent=1, sort_keys=True)
        print('unit %s: %d obligations, %d discharged, %d failing: %s' % (u, len(r.obligations), len(d), len(r.failed), sorted(r.failed)))


def _links(pid):
    try:
        from . import link as LK
        rep, errs = LK.report_for([pid])
        out = {'rule': 'a contract-only stub of T::f is LINKED when another registered unit verifies the real body of T::f and '
                       '(same parameter names) every requires clause of the proved contract is demanded by the stub, every ensures '
                       'clause of the stub is among the proved ones, and every spec function they mention has the same definition text '
                       'in both generated files (an unconstrained uninterp symbol of the stub unit is compatible with the prover definition; parameter names '
                       'are compared up to renaming; a representation invariant shown for every value of its type by a clean type-invariant scan '
                       'need not be demanded); anything else stays an assumption of the unit that declares the stub',
               'linked': [], 'partly_linked': [], 'assumed_although_body_is_verified_elsewhere': [], 'not_analysed': errs}
        for r in rep:
            e = {'unit': r['unit'], 'fn': r['fn'], 'proved_in': r['proved_in'], 'ensures_linked': len(r['linked_ensures']),
                 'ensures_assumed_only': r['unlinked_ensures'][:12], 'real_requires_not_demanded': r['missing_requires'][:8],
                 'spec_definitions_differ': r['def_mismatch'][:8], 'params_differ': r['param_mismatch'],
                 'requires_covered_by_type_invariant_scan': r.get('requires_by_type_invariant', [])[:8]}
            key = {'linked': 'linked', 'partly linked': 'partly_linked'}.get(r['status'], 'assumed_although_body_is_verified_elsewhere')
            out[key].append(e)
        out['counts'] = {k: len(out[k]) for k in ('linked', 'partly_linked', 'assumed_although_body_is_verified_elsewhere')}
        return out
    except Exception as e:      # never let the report disturb a verdict
        return {'error': str(e)[:300]}


def check_property(pid, tier='quick', seed=0, replay_only=None):
    t0 = time.time()
    reg = registry()
    entry = reg.get(pid)
    if not entry:
        print('property %s has no registered units' % pid)
        return 2
    units = entry['units']
    kani_units = entry.get('kani', [])
    results = {}
    with cf.ThreadPoolExecutor(max_workers=5) as ex:
        # cross-unit contract links (engine/link.py): which contract-only stubs of this property's units are discharged,
        # clause by clause, by the contract another unit PROVES for the same real function.  Informational: it sorts the
        # trusted base, it never changes a verdict.
        link_fut = ex.submit(_links, pid)
        futs = {u: ex.submit(R.run_unit, u, tier, seed) for u in units}
        for u, f in futs.items():
            results[u] = f.result()
        links = link_fut.result()
    kf = [k for k in known_findings() if k['property'] == pid and k.get('status') == 'open']
    kf_ids = {k['obligation']: k for k in kf}

    obligations = {}
    degraded = set()
    lost = {}
    failed = {}
    undecided = []
    trusted = []
    functions = []
    normlog = []
    canaries = {}
    cmds = []
    smt_ms = 0
    samples = []
    for u, r in results.items():
        if r.status != 'ok':
            undecided.append('%s: %s' % (u, r.reason))
        for oid, info in r.obligations.items():
            if pid in info['props']:
                obligations[oid] = info
        for oid, msgs in r.failed.items():
            if oid in r.obligations and pid in r.obligations[oid]['props']:
                failed[oid] = msgs
        for fid in getattr(r, 'degraded', ()):
            degraded.add((u, fid))
        # anchor drift: a positional anchor (`@at N "needle"`, `@loop N`) that now attaches somewhere else than on the
        # pinned tree (different loop header, different number of occurrences of the needle) means the hints of that
        # function may sit at the wrong place: its refutations need a replayed input (same rule as a lost anchor)
        ba = baseline_anchors(u)
        if ba is not None:
            for fid, fp in getattr(r, 'anchor_fp', {}).items():
                if ba.get(fid) != fp:
                    degraded.add((u, fid))
                    normlog.append({'rule': 'anchor-drift', 'where': '%s %s' % (u, fid), 'before': ba.get(fid), 'after': fp})
        for la in getattr(r, 'lost', []):
            oid = la['obligation']
            if oid in r.obligations and pid in r.obligations[oid]['props']:
                lost[oid] = la['reason']
        trusted += ['[%s] %s' % (u, t) for t in r.trusted]
        functions += [dict(f, unit=u) for f in r.functions if pid in f['props']]
        normlog += [dict(l, unit=u) for l in r.log]
        canaries[u] = r.canary
        cmds.append(r.cmd)
        smt_ms += getattr(r, 'smt_ms', 0) or 0

    # ---- ownership scans (frame obligations of struct invariants)
    scan_res = []
    for sname in entry.get('scans', []):
        from . import scans as SC
        sr = SC.run_scan(R.REPO, sname)
        scan_res.append(sr)
        oid = 'scan/' + sname
        obligations[oid] = {'props': [pid], 'kind': 'scan', 'fn': sname, 'text': sr['what'] + ' -- expected: no site'}
        if sr['sites'] and (SC.SCANS[sname].get('kind') == 'type_invariant' or SC.SCANS[sname].get('frame_only')):
            # the FRAME of a type invariant is lost (a new creating / mutating function that no unit verifies, a field made
            # visible): the invariant may still hold - that is for a contract on the new function to decide.  Never an alarm.
            lost[oid] = 'frame of the type invariant lost'
            undecided.append('scan %s: %s' % (sname, ' | '.join('%s:%d %s' % (x['file'], x['line'], x['text']) for x in sr['sites'])[:600]))
        elif sr['sites']:
            failed[oid] = ['write site outside the owning module: %s:%d  %s' % (x['file'], x['line'], x['text']) for x in sr['sites']]
        if sr['files_scanned'] == 0:
            undecided.append('scan %s scanned zero files' % sname)

    # ---- Kani legs (bounded stand-ins / loop-free complete proofs)
    kani_res = []
    kani_not_run = []
    if kani_units:
        from . import kani_run
        kani_res = kani_run.run(pid, kani_units, tier, seed)
        # A Kani harness without a verdict (per-harness timeout on a loaded machine, CBMC out of memory, harness no
        # longer compiling after a signature change) is NOT a verdict on the property: the Kani legs are secondary
        # (bounded stand-ins, or loop-free duplicates of what a Verus unit proves).  It is listed in the evidence as
        # not run and printed as a NOTE; the property is decided by the remaining legs.
        kani_not_run = [k for k in kani_res if k['status'] == 'undecided']
        kani_res = [k for k in kani_res if k['status'] != 'undecided']
        for k in kani_not_run:
            print('NOTE property=%s kani harness %s gave no verdict (%s): not counted' % (pid, k['harness'], k.get('reason', '')[:160]))

    # ---- triage
    violations = []
    known_hits = []
    never_proved = []
    unstable = []
    for oid, msgs in failed.items():
        unit = oid.split('/')[0]
        if oid in kf_ids:
            known_hits.append(kf_ids[oid])
        elif unit == 'scan' or oid in baseline(unit):
            # Verification is modular.  If the verified text of the obligation's function AND everything its
            # verification condition can depend on (template, extracted types/consts, every signature + contract) are
            # byte-identical to the pinned tree, the code cannot be the cause of the failure: the solver lost a proof it
            # had (e.g. after an edit of ANOTHER function changed the query order).  Undecided, never an alarm.
            bfp = baseline_text_fp(unit) if unit != 'scan' else None
            cfp = getattr(results.get(unit), 'text_fp', None)
            fnid = obligations.get(oid, {}).get('fn')
            if obligations.get(oid, {}).get('kind') == 'lemma':
                fnid = None
            if bfp and cfp and bfp.get('ctx') == cfp.get('ctx') and (fnid is None or fnid not in cfp['fns'] or bfp['fns'].get(fnid) == cfp['fns'].get(fnid)):
                unstable.append(oid)
            else:
                violations.append((oid, msgs))
        else:
            never_proved.append(oid)
    for k in kani_res:
        if k['status'] == 'failed':
            oid = 'kani/' + k['harness']
            if oid in kf_ids:
                known_hits.append(kf_ids[oid])
            elif k.get('baseline'):
                violations.append((oid, [k.get('output', '')[-3000:]]))
            else:
                never_proved.append(oid)

    per_fn_ms = {}
    for u, r in results.items():
        for fn, t in r.times.items():
            per_fn_ms[fn] = t['ms']
    for oid, info in sorted(obligations.items()):
        st = 'failed' if oid in failed else 'discharged'
        if oid in kf_ids and oid in failed:
            st = 'known-finding'
        samples.append({'obligation': oid, 'kind': info['kind'], 'status': st, 'clause': info['text'][:200], 'backend': 'verus/z3'})

    exit_code = 0
    lines = []
    replays = []
    internal_only = []
    if undecided or never_proved or unstable:
        exit_code = 2
        for x in undecided:
            lines.append('UNDECIDED property=%s %s' % (pid, x))
        for x in never_proved:
            lines.append('UNDECIDED property=%s obligation %s fails but was never recorded as discharged (not a violation)' % (pid, x))
        for x in unstable:
            lines.append('UNDECIDED property=%s obligation %s fails although the verified text of its function and of everything its proof depends on is byte-identical to the pinned tree: the solver lost a proof (instability), the code cannot be the cause' % (pid, x))
    for k in known_hits:
        lines.append('KNOWN-FINDING: property=%s %s' % (pid, k['what']))
    lost_viol = []
    if lost and not undecided:
        from . import replay as RP
        for oid, why in lost.items():
            if oid in kf_ids:
                continue
            info = obligations.get(oid) or {}
            path, found = RP.make_replay(pid, oid, ['anchor lost, obligation not generated: ' + why], info, seed)
            if found:
                lost_viol.append(oid)
                lines.append('VIOLATION property=%s replay=%s' % (pid, path))
            else:
                internal_only.append(oid)
                lines.append('UNDECIDED property=%s the statement that obligation %s is attached to no longer exists (%s) and no failing input was found on the real code' % (pid, oid, why[:160]))
    # refutations are judged unit by unit: an obligation of a unit the verifier could take is reported even when ANOTHER
    # unit of the property is undecided (only the undecided unit's own failures are withheld)
    def _unit_ok(oid):
        un = oid.split('/')[0]
        return un in ('scan', 'kani') or (un in results and results[un].status == 'ok')
    withheld = [(o, m) for (o, m) in violations if not _unit_ok(o)]
    violations = [(o, m) for (o, m) in violations if _unit_ok(o)]
    if violations:
        from . import replay as RP
        confirmed = []
        for oid, msgs in violations:
            info = obligations.get(oid) or {}
            path, found = RP.make_replay(pid, oid, msgs, info, seed)
            replays.append(path)
            # a function one of whose proof hints lost its anchor is verified with an INCOMPLETE proof: a failure
            # there is a proof failure, not a refutation, unless the replay exhibits an input
            incomplete = (oid.split('/')[0], info.get('fn')) in degraded
            # A baselined property-level obligation that is refuted WITHOUT a replayed failing input is reported, as the
            # interface prescribes, as "VIOLATION ... no-failing-input-found" - unless the function is degraded (a hint
            # anchor was lost or now attaches elsewhere than on the pinned tree), in which case the failure is a proof
            # failure and UNDECIDED.  A false-alarm hunt with 232 behaviour-preserving refactors (tools/harmless_report.md)
            # measured what this costs: after the anchor rules, 3 of 232 edits still make a proof stop going through.
            # VERIF_PRECISION_FIRST=1 turns every unwitnessed refutation into UNDECIDED (exit 2) for users who prefer
            # silence to that rate.  Ownership-scan obligations carry their own witness (the write site).
            structural = info.get('kind') == 'scan'
            unwitnessed_ok = structural or os.environ.get('VERIF_PRECISION_FIRST') != '1'
            if found or (unwitnessed_ok and info.get('property_level', True) and not incomplete):
                confirmed.append(oid)
                lines.append('VIOLATION property=%s replay=%s%s' % (pid, path, '' if (found or structural) else ' no-failing-input-found'))
            elif info.get('property_level', True) and not incomplete:
                internal_only.append(oid)
                lines.append('UNDECIDED property=%s obligation %s was discharged on the pinned tree and is refuted on this tree, but the replay search found no failing input on the real code (no-failing-input-found; VERIF_PRECISION_FIRST=1 is set); see %s' % (pid, oid, path))
            else:
                # a proof-internal obligation (loop invariant / hint assertion): the property-level clauses of the
                # function were checked assuming it, and the replay search found no failing input: no verdict
                internal_only.append(oid)
                lines.append('UNDECIDED property=%s proof-internal obligation %s no longer holds (the proof needs repair) and no failing input was found on the real code; see %s' % (pid, oid, path))
        violations = [(o, m) for (o, m) in violations if o in confirmed]
        exit_code = 1 if violations else 2
    for oid, msgs in withheld:
        lines.append('UNDECIDED property=%s obligation %s fails, but its unit is undecided so it is not reported as a violation' % (pid, oid))
    # a unit the verifier could not take (lost anchor, construct outside the dialect, rlimit): the property
    # is undecided for the verifier - but the unit's replay battery still executes the real code; a concrete
    # failing input is reported as a violation (it is one), nothing else changes the UNDECIDED outcome
    rescue = []
    for u, r in results.items():
        if r.status != 'ok':
            from . import replay as RP
            path, found = RP.make_replay(pid, u + '/*', ['unit undecided: ' + r.reason[:600]], {'text': 'whole replay battery of unit ' + u}, seed)
            if found:
                rescue.append(u)
                lines.append('VIOLATION property=%s replay=%s' % (pid, path))
    # an OPEN known finding whose obligation is discharged on this tree: the code around the finding changed.
    # Its recorded reason for not being repaired usually is that the obvious repair breaks something else, so the
    # unit's replay battery is run; a concrete failing input is a violation, otherwise only a note is printed.
    # an OPEN known finding suppresses its obligation only while its RECORDED WITNESS still reproduces on the real
    # code (the replay driver selects the witness battery from the obligation id).  If the obligation still fails but
    # the witness is gone, the code around the finding changed: the unit's whole battery is run, and a concrete
    # failing input is a violation of its own.
    witness_checked = set()
    for k in known_hits:
        oid = k['obligation']
        u = oid.split('/')[0]
        if oid in witness_checked or u in rescue or u not in results:
            continue
        witness_checked.add(oid)
        from . import replay as RP
        res, why = RP.driver(pid, k.get('witness_replay_id', oid), seed)
        if res is not None and not res.get('found'):
            lines.append('NOTE property=%s the recorded witness of open known finding %s no longer reproduces although its obligation still fails' % (pid, oid))
            path, found = RP.make_replay(pid, u + '/*', ['witness of known finding %s no longer reproduces; re-examining the unit by replay' % oid], {'text': 'whole replay battery of unit ' + u}, seed)
            if found:
                rescue.append(u)
                lines.append('VIOLATION property=%s replay=%s' % (pid, path))
    for k in kf:
        oid = k['obligation']
        if oid in obligations and oid not in failed and oid not in lost:
            u = oid.split('/')[0]
            if u in results and results[u].status == 'ok' and u not in rescue:
                from . import replay as RP
                path, found = RP.make_replay(pid, u + '/*', ['open known finding %s is discharged on this tree: re-examining the unit by replay' % oid], {'text': 'whole replay battery of unit ' + u}, seed)
                lines.append('NOTE property=%s open known finding %s no longer reproduces on this tree (obligation discharged)' % (pid, oid))
                if found:
                    rescue.append(u)
                    lines.append('VIOLATION property=%s replay=%s' % (pid, path))
    # THOROUGH tier only: besides the proofs, execute the REAL code on every unit's whole replay battery with several
    # seeds (the same differential searches that turn a refuted obligation into a concrete input).  This is bounded
    # exploration, labelled so in the evidence and never counted as proof; it reaches code the contracts abstract
    # (callees behind shims, the read loop, codecs behind assumed round trips).  A concrete failing input is a violation.
    battery = []
    # `batteries` of a property (contracts/units.json): replay batteries that run on EVERY check, both tiers, as the
    # BOUNDED STAND-IN for code the verifier cannot take at all (the connection read loop `run(mut self)`, serde-derived
    # JSON of the gossip envelope, two-connection WATCH/EXEC sessions).  Labelled bounded in the evidence, never counted
    # as proved; a concrete failing input on the real code is a violation.
    # Besides the explicitly listed ones, every unit's own battery runs once per check with the check's seed (they take
    # 0-12 s each on the unchanged tree; ten repetitions of all of them found nothing): the contracts abstract callees
    # behind shims, and the battery executes the same obligations on the real, compiled code.  VERIF_NO_BATTERIES=1 skips them.
    standing = list(entry.get('batteries', []))
    if os.environ.get('VERIF_NO_BATTERIES') != '1':
        standing += [u for u in units if u not in standing]
    else:
        standing = []
    for b in standing:
        if b in rescue or (b in results and results[b].status != 'ok'):
            continue
        from . import replay as RP
        res, why = RP.driver(pid, b + '/*', seed)
        battery.append({'unit': b, 'seed': seed, 'found': bool(res and res.get('found')), 'note': why, 'standing': 'every check (bounded stand-in)'})
        if res and res.get('found'):
            path, found = RP.make_replay(pid, b + '/*', ['standing replay battery (bounded stand-in for code outside the verifier)'], {'text': 'whole replay battery ' + b}, seed)
            if found:
                rescue.append(b)
                lines.append('VIOLATION property=%s replay=%s' % (pid, path))
    if tier == 'thorough':
        from . import replay as RP
        sweep = int(os.environ.get('VERIF_BATTERY_SEEDS', '6') or 0)
        for u in units:
            if u in rescue:
                continue
            for sd in range(seed + 1, seed + 1 + sweep):
                res, why = RP.driver(pid, u + '/*', sd)
                battery.append({'unit': u, 'seed': sd, 'found': bool(res and res.get('found')), 'note': why})
                if res and res.get('found'):
                    path, found = RP.make_replay(pid, u + '/*', ['thorough-tier battery sweep, seed %d' % sd], {'text': 'whole replay battery of unit ' + u}, sd)
                    if found:
                        rescue.append(u)
                        lines.append('VIOLATION property=%s replay=%s' % (pid, path))
                    break
    if rescue:
        exit_code = 1
    if lost_viol:
        violations = list(violations) + [(o, ['anchor lost; concrete failing input found by replay']) for o in lost_viol]
        exit_code = 1
    elif internal_only and exit_code == 0:
        exit_code = 2

    n_known = len([o for o in obligations if o in kf_ids and o in failed])
    n_obl = len(obligations) - n_known + sum(1 for k in kani_res if k.get('counts_as_proof'))
    n_dis = len([o for o in obligations if o not in failed and o not in lost]) + sum(1 for k in kani_res if k.get('counts_as_proof') and k['status'] == 'ok')
    ev = {
        'property_id': pid,
        'tier': tier,
        'seed': seed,
        'level': 'proof',
        'coverage': {
            'obligations': n_obl,
            'discharged': n_dis,
            'checker_cmd': ' ; '.join(cmds + [k['cmd'] for k in kani_res if k.get('cmd')][:3]),
            'trusted_base': sorted(set(trusted)) + entry.get('assumptions', []),
            'samples': samples,
            'functions_under_contract': functions,
            'backend': 'Verus 0.2026.09.13 (Z3) on functions extracted mechanically from /repo on this run',
            'solver_ms_total': smt_ms,
            'solver_ms_per_function': per_fn_ms,
            'canaries': canaries,
            'ownership_scans': scan_res,
            'normalisation_log': normlog,
            'known_finding_obligations': [k['obligation'] for k in known_hits],
            'bounded_standins': [k for k in kani_res if not k.get('counts_as_proof')],
            'battery_sweep_bounded': battery,
            'kani_not_run': [{'harness': k['harness'], 'reason': k.get('reason', '')} for k in kani_not_run],
            'kani_complete_proofs': [k for k in kani_res if k.get('counts_as_proof')],
            'undecided': undecided + never_proved + internal_only + unstable,
            'stability': {u: getattr(r, 'stability', None) for u, r in results.items()},
            'cvc5_cross_check': {u: getattr(r, 'cvc5', None) for u, r in results.items()},
            'callee_contract_links': links,
            'not_reached': entry.get('not_reached', ''),
            'exhaustive': False,
        },
        'assumptions': entry.get('assumptions', []) + ['see coverage.trusted_base: every external_body/assume_specification/axiom/uninterpreted function, N3 rename, N6 havoc and N7 reduced struct of the generated files, found by mechanical scan'],
        'wall_s': round(time.time() - t0, 2),
        'violations': len(violations) + len(rescue),
    }
    # evidence/ is written only by runs against /repo itself; experiments on a scratch copy (VERIF_REPO) keep theirs apart
    evdir = os.path.join(VERIF, 'evidence') if R.REPO == '/repo' else os.path.join(R.WORK, 'evidence')
    os.makedirs(evdir, exist_ok=True)
    json.dump(ev, open(os.path.join(evdir, pid + '.json'), 'w'), indent=1)
    for l in lines:
        print(l)
    print('%s tier=%s obligations=%d discharged=%d known=%d violations=%d undecided=%d wall=%.1fs' % (
        pid, tier, n_obl, n_dis, len(known_hits), len(violations) + len(rescue), len(undecided) + len(never_proved) + len(internal_only) + len(unstable), time.time() - t0))
    return exit_code


def main(argv):
    import argparse
    ap = argparse.ArgumentParser()
    ap.add_argument('target')
    ap.add_argument('--tier', default=os.environ.get('VERIF_TIER', 'quick'))
    ap.add_argument('--rebaseline', action='store_true')
    ap.add_argument('--replay')
    a = ap.parse_args(argv)
    seed = int(os.environ.get('VERIF_SEED', '0') or 0)
    if a.rebaseline:
        reg = registry()
        units = reg[a.target]['units'] if a.target in reg else [a.target]
        rebaseline(units)
        return 0
    if a.replay:
        from . import replay as RP
        return RP.rerun(a.target, a.replay)
    return check_property(a.target, a.tier, seed)
