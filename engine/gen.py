"""Generate one Verus file per unit from /repo's working tree + the contract template.

Template (contracts/<unit>/unit.vt): every line not starting with '@' is copied
verbatim (spec functions, shims, lemmas).  Directives pull real code out of /repo:

  @unit <name>
  @props C07 C08               default property tags for the obligations that follow
  @rename "from" => "to"       unit-local addition to the N3 rename table
  @keep-derive Clone Copy ...  derives kept on extracted types (default: Clone Copy PartialEq Eq)
  @item <file> :: <path> [fields(a,b)] [no-derive]
                               emit a struct/enum/type/const/fn/whole impl verbatim (normalised)
  @impl <file> :: impl [Trait for] Type
      @fn name                 emit that method; following lines = contract text
        requires ..., ensures ..., decreases ...
      @loop N                  following lines = invariant/decreases text for the N-th loop
      @at N "needle" before|after
                               following lines = ghost text placed before/after the N-th
                               occurrence of needle in the (normalised) body
      @havoc N "needle" "expr" N6: the `let` statement starting at the N-th needle gets `expr` as initialiser
      @end
  @end-impl
  @fn <file> :: [impl X ::] fn name   (stand-alone; same sub-directives, closed by @end)

Paths: `struct X`, `enum X`, `type X`, `const X`, `fn f`, `impl X`, `impl T for X`,
`impl X :: fn f`, `mod m :: ...`.
"""
import hashlib
import re
import os
import json
from . import rustscan as rs

DEFAULT_FEATURES = {'lua'}
KEEP_DERIVE = ['Clone', 'Copy', 'PartialEq', 'Eq']

# N3: global rename table (regex -> replacement).  Each target is a shim whose assumed
# contract is listed in the unit's trusted base.
N3_GLOBAL = [
    (r'\bu16::from_le_bytes\(', 'vshim::u16_from_le_bytes('),
    (r'\bu32::from_le_bytes\(', 'vshim::u32_from_le_bytes('),
    (r'\bu64::from_le_bytes\(', 'vshim::u64_from_le_bytes('),
    (r'\bAHashMap\b', 'HashMap'),
    (r'\bAHashSet\b', 'HashSet'),
]

DROP_ATTRS = re.compile(r'#\s*\[\s*(inline|deprecated|must_use|allow|warn|deny|serde|doc|track_caller|cold|non_exhaustive|repr\(transparent\))\b')
LOG_MACROS = re.compile(r'\b(?:tracing::)?(?:trace|debug|info|warn|error|eprintln|println|eprint|print)!\s*\(')
DEBUG_ASSERT = re.compile(r'\bdebug_assert(?:_eq|_ne)?!\s*\(')


class GenError(Exception):
    pass


class Seg:
    __slots__ = ('text', 'fn', 'clause', 'origin', 'kind')

    def __init__(self, text, fn=None, clause=None, origin=None, kind='raw'):
        self.text = text
        self.fn = fn
        self.clause = clause
        self.origin = origin
        self.kind = kind


class Source:
    cache = {}

    def __init__(self, repo, rel):
        self.rel = rel
        path = os.path.join(repo, rel)
        if not os.path.exists(path):
            raise GenError('anchor file missing: %s' % rel)
        self.text = open(path, encoding='utf-8').read()
        self.m = rs.mask(self.text)
        self.top = rs.items(self.text, self.m)

    @classmethod
    def get(cls, repo, rel):
        k = (repo, rel)
        if k not in cls.cache:
            cls.cache[k] = Source(repo, rel)
        return cls.cache[k]

    def line_of(self, off):
        return self.text.count('\n', 0, off) + 1


def _cfg_active(cfg_attr):
    """True / False / None(unknown) for a #[cfg(...)] attribute under the default,
    release-profile, non-test build that serves clients."""
    a = re.sub(r'\s+', '', cfg_attr)
    mm = re.match(r'#\[cfg\((.*)\)\]$', a)
    if not mm:
        return None
    return _cfg_eval(mm.group(1))


def _cfg_eval(e):
    if e == 'debug_assertions' or e == 'test' or e == 'kani':
        return False
    mm = re.match(r'feature="([^"]+)"$', e)
    if mm:
        return mm.group(1) in DEFAULT_FEATURES
    mm = re.match(r'not\((.*)\)$', e)
    if mm:
        v = _cfg_eval(mm.group(1))
        return None if v is None else (not v)
    mm = re.match(r'(all|any)\((.*)\)$', e)
    if mm:
        parts = _split_top(mm.group(2))
        vals = [_cfg_eval(p) for p in parts if p]
        if any(v is None for v in vals):
            return None
        return all(vals) if mm.group(1) == 'all' else any(vals)
    return None


def _split_top(s, sep=','):
    parts = []
    d = 0
    cur = ''
    for c in s:
        if c in '([{':
            d += 1
        elif c in ')]}':
            d -= 1
        if c == sep and d == 0:
            parts.append(cur)
            cur = ''
        else:
            cur += c
    parts.append(cur)
    return parts


class Normaliser:
    """Rules N1..N8 (DESIGN.md §3.2).  Every application is logged."""

    def __init__(self, log, renames, keep_derive):
        self.log = log
        self.renames = renames
        self.keep_derive = keep_derive

    def note(self, rule, where, before, after=''):
        self.log.append({'rule': rule, 'where': where, 'before': before.strip()[:160], 'after': after.strip()[:160]})

    # --- N1: attributes ---------------------------------------------------
    def attrs(self, attrs, where, no_derive=False):
        out = []
        for a in attrs:
            flat = re.sub(r'\s+', ' ', a)
            mm = re.match(r'#\s*\[\s*derive\s*\((.*)\)\s*\]$', flat, re.S)
            if mm:
                names = [x.strip() for x in mm.group(1).split(',') if x.strip()]
                kept = [] if no_derive else [x for x in names if x in self.keep_derive]
                if kept != names:
                    self.note('N1', where, flat, '#[derive(%s)]' % ', '.join(kept) if kept else '(dropped)')
                if kept:
                    out.append('#[derive(%s)]' % ', '.join(kept))
                continue
            if DROP_ATTRS.match(flat):
                self.note('N1', where, flat, '(dropped)')
                continue
            if re.match(r'#\s*\[\s*cfg\b', flat):
                v = _cfg_active(flat)
                if v is True:
                    self.note('N5' if 'feature' in flat else 'N2', where, flat, '(cfg resolved: active)')
                    continue
                raise GenError('%s: item under %s is not active in the default release build' % (where, flat))
            out.append(a)
        return out

    # --- N2 / N5 on bodies ---------------------------------------------------
    def body(self, text, where):
        # cfg-guarded statements
        while True:
            m = rs.mask(text)
            mm = re.search(r'#\s*\[\s*cfg\s*\(', m)
            if not mm:
                break
            b = m.index('[', mm.start())
            e = rs.match_close(m, b) + 1
            attr = text[mm.start():e]
            v = _cfg_active(attr)
            if v is None:
                raise GenError('%s: cannot resolve %s' % (where, attr))
            if v:
                self.note('N5' if 'feature' in attr else 'N2', where, attr, '(cfg resolved: active; attribute dropped)')
                text = text[:mm.start()] + text[e:]
            else:
                se = rs.stmt_end(m, e, len(m))
                st = mm.start()
                # doc comments that belong to the dropped item go with it
                while True:
                    prev_nl = text.rfind('\n', 0, st - 1) if st > 0 else -1
                    line = text[prev_nl + 1:st]
                    if line.strip() == '' and prev_nl >= 0:
                        pl = text.rfind('\n', 0, prev_nl)
                        cand = text[pl + 1:prev_nl]
                        if cand.strip().startswith('///'):
                            st = pl + 1
                            continue
                    break
                self.note('N5' if 'feature' in attr else 'N2', where, text[st:se], '(dropped: inactive cfg)')
                text = text[:st] + text[se:]
        # debug_assert!, logging macros
        for rx, label in ((DEBUG_ASSERT, 'debug_assert'), (LOG_MACROS, 'logging')):
            while True:
                m = rs.mask(text)
                mm = rx.search(m)
                if not mm:
                    break
                p = m.index('(', mm.start())
                e = rs.match_close(m, p) + 1
                j = e
                while j < len(m) and m[j].isspace():
                    j += 1
                if j < len(m) and m[j] == ';':
                    self.note('N2', where, text[mm.start():j + 1], '(dropped: %s)' % label)
                    text = text[:mm.start()] + text[j + 1:]
                else:
                    self.note('N2', where, text[mm.start():e], '()')
                    text = text[:mm.start()] + '()' + text[e:]
        # N3 renames
        for rx, rep in self.renames:
            def sub(mo, rep=rep):
                self.note('N3', where, mo.group(0), rep)
                return mo.expand(rep)
            # match on the real text; accept a match only if it STARTS in code (not inside a
            # string literal or comment) - it may span string literals (e.g. .expect("...")).
            m = rs.mask(text)
            out = []
            last = 0
            for mo in re.finditer(rx, text):
                st = mo.start()
                if st < last or m[st] != text[st]:
                    continue
                out.append(text[last:st])
                out.append(sub(mo))
                last = mo.end()
            out.append(text[last:])
            text = ''.join(out)
        # N4 ref patterns in `for` headers
        text = self.ref_patterns(text, where)
        # N10 `for` loops whose body uses `continue` (Verus: "for-loops do not yet support continue")
        text = self.desugar_for_continue(text, where)
        # N5 visibility
        text2 = re.sub(r'\bpub\s*\(\s*(crate|super|self)\s*\)', 'pub', text)
        if text2 != text:
            self.note('N5', where, 'pub(crate)/pub(super)', 'pub')
        return text2

    def desugar_for_continue(self, text, where):
        """N10: `for PAT in EXPR { BODY }` with a `continue` that targets this loop becomes the Rust-reference
        desugaring `{ let mut it__k = (EXPR).into_iter(); loop { let PAT = match it__k.next() { Some(v__k) => v__k,
        None => break, }; BODY } }` - same evaluation order, `continue`/`break` keep their meaning."""
        k = 0
        while True:
            m = rs.mask(text)
            lps = [(kw, br) for (kw, br) in rs.loops(m, 0, len(m)) if m.startswith('for', kw)]
            target = None
            for (kw, br) in lps:
                end = rs.match_close(m, br)
                body = m[br + 1:end]
                # `continue` occurrences not inside a nested loop of this body
                nested = [(a + br + 1, rs.match_close(m, b + br + 1)) for (a, b) in rs.loops(body, 0, len(body))]
                hit = False
                for mm in re.finditer(r'\bcontinue\b', body):
                    pos = mm.start() + br + 1
                    if not any(a <= pos <= e for (a, e) in nested):
                        hit = True
                        break
                if hit:
                    target = (kw, br, end)
                    break
            if not target:
                return text
            kw, br, end = target
            # pattern: from after `for` to ` in ` at depth 0
            j = kw + 3
            d = 0
            inpos = -1
            while j < br:
                c = m[j]
                if c in '([':
                    d += 1
                elif c in ')]':
                    d -= 1
                elif d == 0 and m[j:j + 2] == 'in' and not rs._ident_char(m[j - 1]) and not rs._ident_char(m[j + 2]):
                    inpos = j
                    break
                j += 1
            if inpos < 0:
                raise GenError('%s: N10 cannot find `in` of a for loop' % where)
            pat = text[kw + 3:inpos].strip()
            expr = text[inpos + 2:br].strip()
            k += 1
            new = ('{ let mut it__%d = (%s).into_iter(); loop { let %s = match it__%d.next() { Some(v__%d) => v__%d, None => break, };'
                   % (k, expr, pat, k, k, k))
            self.note('N10', where, 'for %s in %s { ..continue.. }' % (pat, expr), new + ' .. } }')
            text = text[:kw] + new + text[br + 1:end] + '} }' + text[end + 1:]

    def ref_patterns(self, text, where):
        pos = 0
        while True:
            m = rs.mask(text)
            mm = re.compile(r'\bfor\s+').search(m, pos)
            if not mm:
                break
            # pattern extends to ' in ' at depth 0
            k = mm.end()
            d = 0
            inpos = -1
            while k < len(m):
                c = m[k]
                if c in '([':
                    d += 1
                elif c in ')]':
                    d -= 1
                elif c == '{' or c == ';':
                    break
                elif d == 0 and re.match(r'\bin\b', m[k:k + 3]) and not rs._ident_char(m[k - 1]):
                    inpos = k
                    break
                k += 1
            pos = mm.end()
            if inpos < 0:
                continue
            pat = text[mm.end():inpos]
            refs = re.findall(r'&\s*(?:mut\s+)?(\w+)', pat)
            if not refs:
                continue
            # find loop body brace
            k = inpos
            while k < len(m) and m[k] != '{':
                if m[k] in '([':
                    k = rs.match_close(m, k)
                k += 1
            newpat = re.sub(r'&\s*(?:mut\s+)?(\w+)', r'\1__r', pat)
            lets = ''.join(' let %s = *%s__r;' % (r, r) for r in refs)
            self.note('N4', where, 'for ' + pat.strip(), 'for ' + newpat.strip() + ' {' + lets)
            text = text[:mm.end()] + newpat + text[inpos:k + 1] + lets + text[k + 1:]
        return text


SECTION_KW = re.compile(r'\b(requires|ensures|recommends|decreases|invariant_except_break|invariant|returns|opens_invariants|no_unwind|default_ensures)\b')


def split_contract(text):
    """Split contract text into [(section, clause_text_with_trailing_separator)], preserving
    every character.  Refuses braces at depth 0 (convention: wrap `match`/blocks in parens)."""
    m = rs.mask(text)
    res = []
    # section keyword positions at depth 0
    depth = 0
    marks = []  # (pos, kind, kw)
    i = 0
    n = len(m)
    while i < n:
        c = m[i]
        if c in '([{':
            if c == '{':
                raise GenError('contract text has a brace at depth 0 (wrap in parens): %r' % text[max(0, i - 40):i + 20])
            i = rs.match_close(m, i) + 1
            continue
        if c == '|' and m[i + 1:i + 2] == '|':
            i += 2      # logical or
            continue
        if c == '|':
            # closure/quantifier binder |x: int| : skip to closing bar
            j = m.find('|', i + 1)
            if j > 0 and m[i + 1] != '|':
                i = j + 1
                continue
        mm = SECTION_KW.match(m, i)
        if mm and (i == 0 or not rs._ident_char(m[i - 1])) and m[i - 1:i] != '.':
            marks.append((i, 'kw', mm.group(1)))
            i = mm.end()
            continue
        if c == ',':
            marks.append((i, 'comma', None))
        i += 1
    cur = None
    last = 0
    pre = ''
    for (p, kind, kw) in marks:
        if kind == 'kw':
            if cur is not None and text[last:p].strip():
                res.append((cur, text[last:p]))
            elif cur is None:
                pre = text[last:p]
            else:
                # whitespace only
                res.append((cur + ':ws', text[last:p]))
            cur = kw
            res.append((kw + ':kw', text[p:p + len(kw)]))
            last = p + len(kw)
        else:
            if cur is None:
                continue
            res.append((cur, text[last:p + 1]))
            last = p + 1
    if text[last:].strip():
        res.append((cur or 'pre', text[last:]))
    else:
        res.append(((cur or 'pre') + ':ws', text[last:]))
    if pre.strip():
        raise GenError('text before first contract keyword: %r' % pre)
    if pre:
        res.insert(0, ('pre:ws', pre))
    return res


class Unit:
    def __init__(self, verif, repo, name, extra_items=()):
        self.verif = verif
        self.repo = repo
        self.name = name
        self.dir = os.path.join(verif, 'contracts', name)
        self.tpl = open(os.path.join(self.dir, 'unit.vt'), encoding='utf-8').read().split('\n')
        self.log = []
        # N11 (automatic): a `const` of a source file the unit already extracts from, which the extracted code newly
        # refers to, is copied verbatim as well (otherwise adding a named constant to a function under contract would
        # make the unit undecidable instead of checked).  Inserted before the first extraction directive.
        if extra_items:
            k = next((i for i, l in enumerate(self.tpl) if l.startswith('@item') or l.startswith('@impl') or l.startswith('@fn')), None)
            if k is None:
                # the extraction directives sit in included files: right after the opening of the verus! block
                k = next((i + 1 for i, l in enumerate(self.tpl) if re.match(r'\s*verus!\s*\{', l)), None)
            if k is not None:
                self.tpl[k:k] = list(extra_items)
                for l in extra_items:
                    self.log.append({'rule': 'N11', 'where': name, 'before': '(constant referenced by extracted code, not named in the template)', 'after': l})
        self.renames = list(N3_GLOBAL)
        self.keep_derive = list(KEEP_DERIVE)
        self.props = []
        self.segs = []
        self.obligations = {}   # id -> {props, kind, text, fn}
        self.functions = []     # real functions under contract: {id, file, line, props}
        self.havocs = []
        self.lost_anchors = []
        self.degraded_fns = set()
        self.strict_anchors = False
        self.anchor_fp = {}   # fn id -> list of fingerprints of where each positional anchor attached (drift => degraded)
        self.trait_contracts = []
        self.reduced = []
        self.order = []

    # -- path resolution ---------------------------------------------------
    def resolve(self, spec):
        parts = [p.strip() for p in re.split(r'\s+::\s+', spec.strip())]
        rel = parts[0]
        src = Source.get(self.repo, rel)
        scope = src.top
        it = None
        for p in parts[1:]:
            it = self.find_in(src, scope, p, spec)
            if isinstance(it, _MergedImpl):
                scope = []
                for part in it.parts:
                    scope.extend(rs.items(src.text, src.m, part.body_open + 1, part.end - 1))
            elif it.kind in ('impl', 'mod', 'trait') and it.body_open >= 0:
                scope = rs.items(src.text, src.m, it.body_open + 1, it.end - 1)
        return src, it

    def find_in(self, src, scope, p, spec):
        mm = re.match(r'impl\s+(?:([\w:<>,&\'\s]+?)\s+for\s+)?(\w+)$', p)
        cands = []
        if mm:
            tr, ty = mm.group(1), mm.group(2)
            if tr and '<' in tr:
                trn = re.sub(r'\s+', '', tr)
                cands = [i for i in scope if i.kind == 'impl' and i.name == ty and i.trait_full == trn]
            else:
                cands = [i for i in scope if i.kind == 'impl' and i.name == ty and i.trait == tr]
            if not cands:
                raise GenError('lost anchor: %s (no `%s`)' % (spec, p))
            if len(cands) > 1:
                # several inherent impl blocks: merged view
                return _MergedImpl(cands)
            return cands[0]
        mm = re.match(r'(fn|struct|enum|type|const|static|mod|trait)\s+(\w+)$', p)
        if not mm:
            raise GenError('bad path element %r in %s' % (p, spec))
        kind, name = mm.group(1), mm.group(2)
        cands = [i for i in scope if i.kind == kind and i.name == name]
        live = []
        for i in cands:
            vals = [_cfg_active(c) for c in i.cfgs]
            if any(v is False for v in vals):
                continue
            live.append(i)
        if not live:
            raise GenError('lost anchor: %s (no active `%s`)' % (spec, p))
        if len(live) > 1:
            raise GenError('ambiguous anchor: %s (%d candidates for `%s`)' % (spec, len(live), p))
        return live[0]

    # -- emission ------------------------------------------------------------
    def emit(self, text, **kw):
        self.segs.append(Seg(text, **kw))

    def norm(self):
        return Normaliser(self.log, self.renames, self.keep_derive)

    def emit_item(self, spec, opts):
        src, it = self.resolve(spec)
        where = '%s:%d' % (src.rel, src.line_of(it.decl))
        nz = self.norm()
        attrs = nz.attrs(it.attrs, where, no_derive='no-derive' in opts)
        text = src.text[it.decl:it.end]
        fields = None
        mm = re.search(r'fields\(([^)]*)\)', opts)
        if mm:
            fields = [f.strip() for f in mm.group(1).split(',') if f.strip()]
            text = self.reduce_struct(src, it, fields, where)
        text = nz.body(text, where)
        if it.kind == 'fn':
            raise GenError('%s: use @fn for functions' % spec)
        self.emit(''.join(a + '\n' for a in attrs) + text + '\n', origin=where, kind='item')

    def reduce_struct(self, src, it, fields, where):
        if it.kind != 'struct' or it.body_open < 0:
            raise GenError('fields(): not a braced struct at %s' % where)
        inner = src.text[it.body_open + 1:it.end - 1]
        m = src.m[it.body_open + 1:it.end - 1]
        # split fields at top-level commas
        parts = []
        d = 0
        last = 0
        for k, c in enumerate(m):
            if c in '([{<':
                d += 1
            elif c in ')]}':
                d -= 1
            elif c == '>' and m[k - 1] != '-':
                d -= 1
            elif c == ',' and d == 0:
                parts.append((last, k + 1))
                last = k + 1
        if m[last:].strip():
            parts.append((last, len(m)))
        kept = []
        dropped = []
        for (a, b) in parts:
            fm = re.search(r'(?:pub(?:\([^)]*\))?\s+)?(\w+)\s*:', m[a:b])
            if not fm:
                continue
            nm = fm.group(1)
            # strip attributes (e.g. #[cfg(..)]) conservatively: keep text verbatim minus attrs
            ftxt = inner[a:b]
            if nm in fields:
                fmask = m[a:b]
                while True:
                    am = re.search(r'#\s*\[', fmask)
                    if not am:
                        break
                    e = rs.match_close(fmask, fmask.index('[', am.start())) + 1
                    ftxt = ftxt[:am.start()] + ftxt[e:]
                    fmask = fmask[:am.start()] + fmask[e:]
                kept.append(ftxt.strip().rstrip(','))
            else:
                dropped.append(nm)
        missing = [f for f in fields if not any(re.search(r'\b%s\s*:' % f, k) for k in kept)]
        if missing:
            raise GenError('lost anchor: struct %s has no field(s) %s' % (it.name, missing))
        self.log.append({'rule': 'N7', 'where': where, 'before': 'struct %s' % it.name,
                         'after': 'kept fields %s; dropped %s' % (fields, dropped)})
        self.reduced.append('%s: struct %s reduced to fields %s (dropped: %s)' % (where, it.name, fields, dropped))
        head = src.text[it.decl:it.body_open + 1]
        return head + '\n' + ''.join('    %s,\n' % k for k in kept) + '}'

    def emit_impl_open(self, spec):
        src, it = self.resolve(spec)
        if isinstance(it, _MergedImpl):
            first = it.parts[0]
        else:
            first = it
        where = '%s:%d' % (src.rel, src.line_of(first.decl))
        head = src.text[first.decl:first.body_open + 1]
        self.emit(head + '\n', origin=where, kind='impl-open')
        return spec

    def emit_fn(self, spec, block):
        """block: dict(contract=str, loops={n: text}, ats=[(n, needle, where, text)], havocs=[(n, needle, expr)], props=[..])"""
        src, it = self.resolve(spec)
        if it.kind != 'fn':
            raise GenError('%s is not a fn' % spec)
        where = '%s:%d' % (src.rel, src.line_of(it.decl))
        nz = self.norm()
        attrs = nz.attrs(it.attrs, where)
        # qualified id
        elems = [p.strip() for p in re.split(r'\s+::\s+', spec.strip())][1:]
        qual = []
        for e in elems:
            mm = re.match(r'impl\s+(?:([\w:<>,&\'\s]+?)\s+for\s+)?(\w+)$', e)
            if mm:
                tr = re.sub(r'\s+', '', mm.group(1)) if mm.group(1) else None
                if tr:
                    tr = re.sub(r'^(\w+::)+', '', tr)
                qual.append(('<%s as %s>' % (mm.group(2), tr)) if tr else mm.group(2))
            else:
                qual.append(e.split()[-1])
        fid = '::'.join(qual)
        if fid in self.order:
            raise GenError('function %s extracted twice' % fid)
        self.order.append(fid)
        props = block.get('props') or self.props
        (h0, po, pc, arrow, rstart, rend, where_pos, bopen) = rs.fn_parts(src.text, src.m, it)
        nobody = bopen < 0
        if nobody:
            # trait method declaration: its contract is an ASSUMPTION about every implementor
            self.trait_contracts.append('%s:%d trait-level contract on %s (assumed for every implementor): %s' % (
                src.rel, src.line_of(it.decl), fid, ' '.join(block.get('contract', '').split())[:400]))
        else:
            self.functions.append({'id': fid, 'file': src.rel, 'line': src.line_of(it.decl), 'props': props})
        if nobody:
            bopen = it.end - 1   # position of the terminating ';'
        sig = src.text[h0:bopen]
        if arrow >= 0:
            rtype = src.text[rstart:rend].strip()
            if not rtype.startswith('('  + 'r:'):
                sig = src.text[h0:rstart] + ' (r: ' + rtype + ')' + (' ' + src.text[rend:bopen] if where_pos >= 0 else ' ')
                self.log.append({'rule': 'N8', 'where': where, 'before': '-> ' + rtype, 'after': '-> (r: %s)' % rtype})
        sig = nz.body(sig, where)
        # N8 also for unit-returning async fns (after the unit's own renames): Verus drops the `ensures` of an awaited
        # async fn that has no named return value, so `async fn f(..)` becomes `async fn f(..) -> (r: ())`
        sm = rs.mask(sig)
        if re.search(r'\basync\s+fn\b', sm) and '->' not in sm and block.get('contract', '').strip():
            mo = re.search(r'\bfn\s+\w+', sm)
            k = sm.index('(', mo.end())
            if sm[mo.end():k].strip().startswith('<'):
                # generics before the parameter list: find the '(' after the balanced <...>
                d = 0
                j = mo.end()
                while j < len(sm):
                    if sm[j] == '<':
                        d += 1
                    elif sm[j] == '>' and sm[j - 1] != '-':
                        d -= 1
                        if d == 0:
                            break
                    j += 1
                k = sm.index('(', j)
            pc2 = rs.match_close(sm, k)
            sig = sig[:pc2 + 1] + ' -> (r: ())' + sig[pc2 + 1:]
            self.log.append({'rule': 'N8', 'where': where, 'before': 'async fn .. (no return type)', 'after': '-> (r: ())'})
        body = src.text[bopen:it.end]
        n_log = len(self.log)
        body = nz.body(body, where)
        if self.strict_anchors:
            # which exact-text rename rules (N3) fired inside this function, and how often: a rule that fired on the pinned tree
            # and no longer does means an expression the verifier has no meaning for is now spelled differently and reaches
            # Verus UNSPECIFIED - whatever fails because of it is undecided, not refuted (same rule as an N6 havoc)
            fired = {}
            for l in self.log[n_log:]:
                if l.get('rule') == 'N3':
                    fired[l['after']] = fired.get(l['after'], 0) + 1
            self._rename_fp = ['rename x%d -> %s' % (c, a) for a, c in sorted(fired.items())]
        else:
            self._rename_fp = []
        if nobody and (block.get('loops') or block.get('ats') or block.get('loop_ats') or block.get('havocs')):
            raise GenError('%s is a declaration without body: only a contract can be attached' % spec)
        # N6 havocs
        for (n, needle, expr) in block.get('havocs', []):
            bm = rs.mask(body)
            pos = _nth(body, needle, n, spec)
            se = rs.stmt_end(bm, pos, len(bm))
            stmt = body[pos:se]
            eq = rs.mask(stmt).index('=')
            new = stmt[:eq] + '= ' + expr + ';'
            self.log.append({'rule': 'N6', 'where': where, 'before': stmt, 'after': new})
            self.havocs.append('%s %s: `%s` -> `%s`' % (where, fid, ' '.join(stmt.split())[:140], new.strip()))
            body = body[:pos] + new + body[se:]
        # ---- splice ghost text into body (right-to-left so offsets stay valid)
        bm = rs.mask(body)
        inserts = []  # (pos, segs)
        lps = rs.loops(bm, 1, len(bm) - 1)
        fps = self.anchor_fp.setdefault(fid, [])
        fps.extend(getattr(self, '_rename_fp', []))
        def loop_fp(n):
            kw, br = lps[n - 1]
            fps.append('loop %d of %d: %s' % (n, len(lps), ' '.join(body[kw:br].split())))
        for n, text in block.get('loops', {}).items():
            if n < 1 or n > len(lps):
                raise GenError('%s: loop %d not found (%d loops)' % (spec, n, len(lps)))
            loop_fp(n)
            inserts.append((lps[n - 1][1], self.contract_segs(fid, text, 'loop%d.' % n, props)))
        # N9: name the for-loop iterator (`in X` -> `in it: X`) so invariants can mention it (ghost only)
        for n, nm in block.get('iters', {}).items():
            kw, br = lps[n - 1]
            mm = re.compile(r'\bin\b').search(bm, kw, br)
            if not mm or not bm.startswith('for', kw):
                raise GenError('%s: loop %d is not a for-loop' % (spec, n))
            inserts.append((mm.end(), [Seg(' %s:' % nm, fn=fid, kind='ghost')]))
            self.log.append({'rule': 'N9', 'where': where, 'before': 'for .. in <expr>', 'after': 'for .. in %s: <expr>' % nm})
        acount = 0
        for (n, pos_kind, text) in block.get('loop_ats', []):
            if n < 1 or n > len(lps):
                raise GenError('%s: loop %d not found' % (spec, n))
            close = rs.match_close(bm, lps[n - 1][1])
            pos = close if pos_kind == 'end' else close + 1
            loop_fp(n)
            acount += 1
            oid = '%s/%s/assert#%d' % (self.name, fid, acount)
            has_assert = re.search(r'\bassert\b', rs.mask(text)) is not None
            if has_assert:
                self.obligations[oid] = {'props': props, 'kind': 'assert', 'fn': fid, 'text': ' '.join(text.split())[:300], 'property_level': '@property' in text}
            inserts.append((pos, [Seg('\n' + text + '\n', fn=fid, clause=(oid if has_assert else None), kind='ghost')]))
        for (n, needle, side, text) in block.get('ats', []):
            try:
                pos = _nth(body, needle, n, spec)
            except GenError as e:
                # a ghost block whose anchor statement is gone: the rest of the function is still verified; the
                # obligation of this block (if any) is reported as lost (undecided unless the replay finds an input)
                acount += 1
                self.degraded_fns.add(fid)
                oid = '%s/%s/assert#%d' % (self.name, fid, acount)
                if re.search(r'\bassert\b', rs.mask(text)):
                    self.obligations[oid] = {'props': props, 'kind': 'assert', 'fn': fid, 'text': ' '.join(text.split())[:300], 'property_level': '@property' in text}
                    self.lost_anchors.append({'obligation': oid, 'reason': str(e)})
                else:
                    # a pure hint (ghost `let`, closure annotation): dropped; what depended on it fails on its own
                    self.log.append({'rule': 'lost-hint', 'where': where, 'before': needle, 'after': '(ghost hint dropped: anchor not found)'})
                continue
            fps.append('at %d of %d: %s' % (n, _count(body, needle), needle))
            if self.strict_anchors:
                fps.append('context of that anchor: ' + _anchor_context(body, bm, pos))
            if side == 'after':
                pos += len(needle)
            acount += 1
            oid = '%s/%s/assert#%d' % (self.name, fid, acount)
            has_assert = re.search(r'\bassert\b', rs.mask(text)) is not None
            if has_assert:
                self.obligations[oid] = {'props': props, 'kind': 'assert', 'fn': fid, 'text': ' '.join(text.split())[:300], 'property_level': '@property' in text}
            inserts.append((pos, [Seg('\n' + text + '\n', fn=fid, clause=(oid if has_assert else None), kind='ghost')]))
        inserts.sort(key=lambda x: x[0])
        # header
        self.emit(''.join(a + '\n' for a in attrs) + sig, fn=(None if nobody else fid), origin=where, kind='sig')
        ctext = block.get('contract', '')
        if nobody:
            self.segs.append(Seg('\n' + ctext + '\n', kind='raw', origin=[]))
        else:
            if ctext.strip():
                self.segs.append(Seg('\n', fn=fid))
                self.segs.extend(self.contract_segs(fid, ctext, '', props))
            self.obligations['%s/%s/safety' % (self.name, fid)] = {
                'props': props, 'kind': 'safety', 'fn': fid, 'property_level': True,
                'text': 'body of %s: no overflow, index/slice in range, callee preconditions, termination measures' % fid}
            self.segs.append(Seg('', fn=fid, kind='canary-slot'))
        last = 0
        for (pos, sg) in inserts:
            self.emit(body[last:pos], fn=fid, origin=where, kind='body')
            self.segs.extend(sg)
            last = pos
        self.emit(body[last:] + '\n', fn=(None if nobody else fid), origin=where, kind='body')

    def contract_segs(self, fid, text, prefix, props):
        segs = []
        counters = {}
        for (sec, t) in split_contract(text):
            if sec.endswith(':kw') or sec.endswith(':ws') or sec in ('requires', 'recommends', 'decreases', 'pre', 'returns', 'no_unwind', 'opens_invariants'):
                segs.append(Seg(t, fn=fid, kind='contract:' + sec))
                continue
            counters[sec] = counters.get(sec, 0) + 1
            oid = '%s/%s/%s%s#%d' % (self.name, fid, prefix, sec, counters[sec])
            # function-level ensures are property-level; loop invariants / loop ensures are proof-internal
            # unless the clause carries the marker `@property` in a comment
            plevel = (prefix == '' and sec == 'ensures') or ('@property' in t)
            self.obligations[oid] = {'props': props, 'kind': sec if prefix == '' else 'loop-' + sec, 'fn': fid,
                                     'text': ' '.join(t.split()).rstrip(',')[:300], 'property_level': plevel}
            segs.append(Seg(t, fn=fid, clause=oid, kind='contract:' + sec))
        return segs

    # -- template driver -------------------------------------------------------
    def generate(self):
        # @include FILE (same directory): textual splice, one level deep is enough
        lines = []
        for ln in self.tpl:
            if ln.startswith('@include '):
                inc = os.path.join(self.dir, ln.split(None, 1)[1].strip())
                lines.extend(open(inc, encoding='utf-8').read().split('\n'))
            else:
                lines.append(ln)
        i = 0
        n = len(lines)
        cur_impl = None
        raw = []

        def flush_raw():
            if raw:
                self.emit('\n'.join(raw) + '\n', kind='raw', origin=list(self.props))
                del raw[:]

        while i < n:
            ln = lines[i]
            if not ln.startswith('@'):
                raw.append(ln)
                i += 1
                continue
            flush_raw()
            d = ln.split(None, 1)
            cmd = d[0]
            arg = d[1].strip() if len(d) > 1 else ''
            i += 1
            if cmd == '@unit':
                pass
            elif cmd == '@props':
                self.props = arg.split()
            elif cmd == '@rename':
                mm = re.match(r'"(.*)"\s*=>\s*"(.*)"$', arg)
                if not mm:
                    raise GenError('bad @rename: ' + arg)
                self.renames.append((mm.group(1), mm.group(2)))
            elif cmd == '@keep-derive':
                self.keep_derive = arg.split()
            elif cmd == '@strict-anchors':
                # every `@at` anchor of this unit is fingerprinted WITH its surroundings (the anchored statement and the one
                # before it): a refactor that moves code across a hint (a split `let`, two swapped statements) then marks
                # the function degraded - its refutations need a replayed input - instead of stranding the hint silently
                self.strict_anchors = True
            elif cmd == '@item':
                mm = re.match(r'(.*?)((?:\s+(?:fields\([^)]*\)|no-derive))*)$', arg)
                ispec = mm.group(1).strip()
                if ispec.startswith('::'):
                    if not cur_impl:
                        raise GenError('@item %s outside @impl' % ispec)
                    ispec = cur_impl + ' ' + ispec
                self.emit_item(ispec, mm.group(2))
            elif cmd == '@impl':
                cur_impl = arg
                self.emit_impl_open(arg)
            elif cmd == '@end-impl':
                self.emit('}\n', kind='impl-close')
                cur_impl = None
            elif cmd == '@fn':
                spec = arg
                block = {'contract': '', 'loops': {}, 'ats': [], 'havocs': [], 'iters': {}, 'loop_ats': []}
                mm = re.search(r'\s+props=(\S+)$', spec)
                if mm:
                    block['props'] = mm.group(1).split(',')
                    spec = spec[:mm.start()]
                if '::' not in spec:
                    if not cur_impl:
                        raise GenError('@fn %s outside @impl' % spec)
                    spec = cur_impl + ' :: fn ' + spec
                target = ('contract', None)
                buf = []

                def close_target():
                    t = '\n'.join(buf)
                    del buf[:]
                    if target[0] == 'contract':
                        block['contract'] = t
                    elif target[0] == 'loop':
                        block['loops'][target[1]] = t
                    elif target[0] == 'at':
                        block['ats'].append((target[1], target[2], target[3], t))
                    elif target[0] == 'at-loop':
                        block['loop_ats'].append((target[1], target[2], t))
                while True:
                    if i >= n:
                        raise GenError('@fn %s not closed by @end' % spec)
                    l2 = lines[i]
                    i += 1
                    if l2.startswith('@end') and l2.strip() == '@end':
                        close_target()
                        break
                    if l2.startswith('@loop-end') or l2.startswith('@loop-after'):
                        close_target()
                        target = ('at-loop', int(l2.split()[1]), 'end' if l2.startswith('@loop-end') else 'after')
                    elif l2.startswith('@loop'):
                        close_target()
                        parts = l2.split()
                        target = ('loop', int(parts[1]))
                        for extra in parts[2:]:
                            if extra.startswith('iter='):
                                block['iters'][int(parts[1])] = extra[5:]
                    elif l2.startswith('@at'):
                        close_target()
                        mm = re.match(r'@at\s+(\d+)\s+"(.*)"\s+(before|after)\s*$', l2)
                        if not mm:
                            raise GenError('bad @at: ' + l2)
                        target = ('at', int(mm.group(1)), mm.group(2), mm.group(3))
                    elif l2.startswith('@havoc'):
                        mm = re.match(r'@havoc\s+(\d+)\s+"(.*?)"\s+"(.*)"\s*$', l2)
                        if not mm:
                            raise GenError('bad @havoc: ' + l2)
                        block['havocs'].append((int(mm.group(1)), mm.group(2), mm.group(3)))
                    elif l2.startswith('@'):
                        raise GenError('unexpected directive inside @fn: ' + l2)
                    else:
                        buf.append(l2)
                self.emit_fn(spec, block)
            else:
                raise GenError('unknown directive ' + cmd)
        flush_raw()
        return self

    # -- rendering ---------------------------------------------------------------
    def canary_layers(self):
        """Partition the extracted functions so that no function shares a layer with one it
        mentions by name (a caller of a function that `ensures false` verifies vacuously)."""
        ids = [f['id'] for f in self.functions]
        bodies = {}
        for s in self.segs:
            if s.fn and s.kind in ('body', 'ghost'):
                bodies[s.fn] = bodies.get(s.fn, '') + s.text
        short = {i: i.split('::')[-1] for i in ids}
        adj = {i: set() for i in ids}
        for a in ids:
            bm = rs.mask(bodies.get(a, ''))
            for b in ids:
                if a != b and re.search(r'\b%s\s*(::\s*<[^>]*>\s*)?\(' % re.escape(short[b]), bm):
                    adj[a].add(b)
                    adj[b].add(a)
        # trait-impl methods (operators such as `>` call them implicitly): never share a layer
        # with inherent functions
        for a in ids:
            for b in ids:
                if a != b and a.startswith('<') != b.startswith('<'):
                    adj[a].add(b)
                    adj[b].add(a)
        layers = []
        for i in ids:
            for L in layers:
                if not (adj[i] & L):
                    L.add(i)
                    break
            else:
                layers.append({i})
        return layers

    def fingerprints(self):
        """Per-function hash of the verified text, plus a context hash of everything a function's verification
        condition can depend on besides its own text (template text, extracted types/consts, and the signature +
        function-level contract of every extracted function).  Verification is modular: if neither changed with
        respect to the pinned tree, a failure of that function's obligations cannot be caused by the code."""
        import hashlib
        per = {}
        head = {}
        ctx = []
        seen_slot = set()
        for sg in self.segs:
            if sg.fn is None:
                ctx.append(sg.text)
                continue
            per.setdefault(sg.fn, []).append(sg.text)
            if sg.kind == 'canary-slot':
                seen_slot.add(sg.fn)
            elif sg.fn not in seen_slot:
                head.setdefault(sg.fn, []).append(sg.text)
        h = lambda parts: hashlib.sha1(''.join(parts).encode('utf-8', 'replace')).hexdigest()[:16]
        ctx_all = ctx + [''.join(head[f]) for f in sorted(head)]
        return {'ctx': h(ctx_all), 'fns': {f: h(t) for f, t in per.items()}}

    def render(self, canary=False):
        """Returns (text, linemap) where linemap[i] = Seg for 1-based line i+1 start (by offset)."""
        out = []
        spans = []
        off = 0
        for s in self.segs:
            t = s.text
            if s.kind == 'canary-slot':
                t = ''
            out.append(t)
            spans.append((off, off + len(t), s))
            off += len(t)
        text = ''.join(out)
        if canary:
            text = self._canary(text, spans, canary)
            return text, None
        return text, spans

    def _canary(self, text, spans, layer):
        """Second file: every contracted real function additionally `ensures false`.
        Function-level contract segments precede the function's canary slot; loop-level
        ones follow it, so the first ensures/decreases keyword seen per function is the
        function-level one."""
        res = []
        done = set(f['id'] for f in self.functions if f['id'] not in layer)
        for s in self.segs:
            t = s.text
            if s.kind == 'canary-slot':
                if s.fn not in done:
                    res.append('\n ensures false,\n')
                    done.add(s.fn)
                continue
            if s.fn and s.fn not in done and s.kind == 'contract:ensures:kw':
                res.append(t + ' false, ')
                done.add(s.fn)
                continue
            if s.fn and s.fn not in done and s.kind == 'contract:decreases:kw':
                res.append('ensures false,\n ' + t)
                done.add(s.fn)
                continue
            res.append(t)
        return ''.join(res)


class _MergedImpl:
    """Several `impl X { }` blocks for the same type, searched as one."""
    kind = 'impl'
    trait = None

    def __init__(self, parts):
        self.parts = parts
        self.name = parts[0].name
        self.body_open = -2
        self.end = -2


def _anchor_context(body, bm, pos):
    """Normalised text of the statement an anchor sits in, the statement before it and the statement after it."""
    def back(i):
        k = i - 1
        while k >= 0 and bm[k] not in ';{}':
            k -= 1
        return k + 1
    def fwd(i):
        k = i
        d = 0
        while k < len(bm):
            c = bm[k]
            if c in '([':
                d += 1
            elif c in ')]':
                d -= 1
            elif c in ';{}' and d <= 0:
                return k + 1
            k += 1
        return len(bm)
    a = back(pos)
    a2 = back(max(a - 1, 0))
    e = fwd(pos)
    e2 = fwd(e)
    return hashlib.sha1(' '.join(body[a2:e2].split()).encode()).hexdigest()[:16]


def _count(body, needle):
    """Number of occurrences of needle that start in code."""
    c = 0
    try:
        while True:
            _nth(body, needle, c + 1, '')
            c += 1
    except GenError:
        return c


def _nth(body, needle, n, spec):
    """Position of the n-th occurrence of needle that STARTS IN CODE (not inside a comment or a string literal):
    a comment that happens to quote the anchored statement must not capture the anchor."""
    m = rs.mask(body)
    pos = -1
    start = 0
    found = 0
    while found < n:
        pos = body.find(needle, start)
        if pos < 0:
            raise GenError('lost anchor: %s: occurrence %d of %r not found in body' % (spec, n, needle))
        start = pos + 1
        # first non-space character of the needle must be code
        k = pos
        while k < len(body) and body[k].isspace():
            k += 1
        if k < len(m) and m[k] == body[k]:
            found += 1
    return pos
