"""Turn a refuted obligation into a concrete failing input on the real compiled code.

The search here never decides a property (the verifier does); it only tries to exhibit a
failing input for an obligation the verifier refuted.  Drivers live in /verif/replay (a cargo
crate with a path dependency on /repo); each takes `<property> <obligation-id> <seed>` and
prints one JSON line {"found": bool, "input": ..., "observed": ..., "required": ...}.
"""
import json
import os
import re
import subprocess
import time

from . import run as R

VERIF = R.VERIF
REPLAY_DIR = os.path.join(VERIF, 'replays') if R.REPO == '/repo' else os.path.join(R.WORK, 'replays')
CRATE = os.path.join(VERIF, 'replay')
TARGET = os.path.join(VERIF, '.cache', 'replay-target')


def driver(pid, oid, seed, timeout=900):
    """Build (incrementally, from /repo's current tree) and run the replay driver."""
    if not os.path.exists(os.path.join(CRATE, 'Cargo.toml')):
        return None, 'no replay crate'
    env = dict(os.environ)
    env['CARGO_TARGET_DIR'] = TARGET
    crate = CRATE
    if R.REPO != '/repo':
        # experiments on a scratch copy of the repository (VERIF_REPO): same drivers, path dependency
        # redirected, separate target dir so /repo's build cache is not invalidated
        import shutil
        crate = os.path.join(VERIF, '.cache', 'replay-alt-' + os.path.basename(R.WORK).replace('.work-alt-', ''))  # one copy per scratch repo: concurrent experiments do not clash
        if os.path.exists(crate):
            shutil.rmtree(crate)
        shutil.copytree(CRATE, crate, ignore=shutil.ignore_patterns('target'))
        ct = open(os.path.join(crate, 'Cargo.toml')).read().replace('path = "/repo"', 'path = "%s"' % R.REPO)
        open(os.path.join(crate, 'Cargo.toml'), 'w').write(ct)
        env['CARGO_TARGET_DIR'] = TARGET + '-alt'
    env['CARGO_NET_OFFLINE'] = 'true'
    env.pop('RUSTUP_TOOLCHAIN', None)
    try:
        p = subprocess.run(['cargo', 'run', '--offline', '-q', '--release', '--', pid, oid, str(seed)],
                           cwd=crate, env=env, stdout=subprocess.PIPE, stderr=subprocess.PIPE, timeout=timeout)
    except subprocess.TimeoutExpired:
        return None, 'replay driver timed out'
    out = p.stdout.decode('utf-8', 'replace')
    for ln in reversed(out.strip().split('\n')):
        ln = ln.strip()
        if ln.startswith('{'):
            try:
                return json.loads(ln), ''
            except Exception:
                pass
    return None, 'replay driver gave no result (rc=%d): %s' % (p.returncode, p.stderr.decode('utf-8', 'replace')[-1500:])


def make_replay(pid, oid, msgs, info, seed):
    os.makedirs(REPLAY_DIR, exist_ok=True)
    safe = re.sub(r'[^A-Za-z0-9_.-]+', '_', oid)
    path = os.path.join(REPLAY_DIR, '%s-%s.json' % (pid, safe))
    res, why = driver(pid, oid, seed)
    found = bool(res and res.get('found'))
    doc = {
        'property': pid,
        'failed_obligation': oid,
        'clause': (info or {}).get('text'),
        'verifier_output': msgs,
        'replay': res if res else {'found': False, 'reason': why},
        'failing_input_found': found,
        'how_to_rerun': './vcheck %s --replay %s' % (pid, path),
    }
    if not found:
        doc['note'] = 'no-failing-input-found: the obligation was discharged on the pinned tree (baseline.json) and is refuted on this tree; the verifier gives no counterexample and the replay search found none'
    json.dump(doc, open(path, 'w'), indent=1)
    return path, found


def rerun(pid, path):
    doc = json.load(open(path))
    res, why = driver(pid, doc['failed_obligation'], int(os.environ.get('VERIF_SEED', '0') or 0))
    print(json.dumps(res if res else {'found': False, 'reason': why}))
    if res and res.get('found'):
        print('VIOLATION property=%s replay=%s' % (pid, path))
        return 1
    return 0
