"""Run the verifier on generated units, map failures to named obligations, triage, write evidence."""
import json
import os
import re
import subprocess
import sys
import time
import hashlib
import concurrent.futures as cf

from . import rustscan as rs
from .gen import Unit, GenError

VERIF = os.path.dirname(os.path.dirname(os.path.abspath(__file__)))
REPO = os.environ.get('VERIF_REPO', '/repo')
WORK = os.path.join(VERIF, '.work' if REPO == '/repo' else '.work-alt-' + hashlib.md5(REPO.encode()).hexdigest()[:8])

VERIF_FAIL = [
    'postcondition not satisfied', 'precondition not satisfied', 'assertion failed',
    'invariant not satisfied', 'possible arithmetic underflow/overflow', 'possible division by zero',
    'decreases not satisfied', 'could not prove termination', 'possible bit shift underflow/overflow',
    'loop invariant', 'unable to prove', 'assertion failure', 'not satisfied', 'possible',
    'failed to prove', 'cannot show', 'precondition not met',
]
RLIMIT = ['resource limit', 'rlimit', 'timed out', 'timeout']


def sh(cmd, timeout=None, cwd=None, env=None):
    t0 = time.time()
    try:
        p = subprocess.run(cmd, stdout=subprocess.PIPE, stderr=subprocess.PIPE, cwd=cwd, env=env, timeout=timeout)
    except subprocess.TimeoutExpired as e:
        # a verifier run that does not come back is a timeout diagnostic (UNDECIDED for the main run, "failed as expected"
        # for a canary), never a crash of the check
        err = (e.stderr or b'').decode('utf-8', 'replace') if isinstance(e.stderr, (bytes, bytearray)) else ''
        diag = json.dumps({'level': 'error', 'code': None, 'message': 'verifier timed out after %s s (wall-clock limit of the check)' % timeout,
                           'spans': [], 'children': [], 'rendered': 'error: verifier timed out'})
        return -9, '', err + '\n' + diag + '\n', time.time() - t0
    return p.returncode, p.stdout.decode('utf-8', 'replace'), p.stderr.decode('utf-8', 'replace'), time.time() - t0


def scan_fns(text):
    """All fn items inside verus!{} of a generated file: list of dict(name, qual, start, end, header, attrs, body_open)."""
    m = rs.mask(text)
    res = []

    def walk(lo, hi, prefix, sprefix=None):
        sprefix = prefix if sprefix is None else sprefix
        for it in rs.items(text, m, lo, hi):
            if it.kind == 'fn':
                res.append({'name': it.name, 'qual': prefix + it.name, 'qual_short': sprefix + it.name, 'start': it.start, 'end': it.end,
                            'header': it.header, 'attrs': it.attrs, 'body_open': it.body_open})
            elif it.kind in ('impl', 'mod', 'trait') and it.body_open >= 0:
                nm = it.name or '?'
                if it.kind == 'impl' and it.trait:
                    tf = it.trait_full or it.trait
                    # same spelling as gen.py's function ids: generics kept, whitespace removed, path prefix dropped
                    tf = re.sub(r'^(\w+::)+', '', tf)
                    nm = '<%s as %s>' % (it.name, tf if '<' in tf else it.trait)
                snm = ('<%s as %s>' % (it.name, it.trait)) if (it.kind == 'impl' and it.trait) else nm
                walk(it.body_open + 1, it.end - 1, prefix + nm + '::', sprefix + snm + '::')
            elif it.kind == 'other' and it.body_open >= 0 and re.match(r'\s*verus\s*!', it.header):
                walk(it.body_open + 1, it.end - 1, prefix, sprefix)
            elif it.kind == 'other' and it.body_open >= 0:
                pass
    walk(0, len(text), '')
    return res, m


def trusted_scan(text):
    """Mechanical scan of the generated file for everything that is assumed rather than proved."""
    fns, m = scan_fns(text)
    tb = []
    for f in fns:
        attrs = ' '.join(f['attrs'])
        hdr = ' '.join(text[f['start']:(f['body_open'] if f['body_open'] >= 0 else f['end'])].split())
        if 'external_body' in attrs:
            tb.append('external_body: ' + hdr[:400])
        elif re.search(r'\buninterp\b', f['header']):
            tb.append('uninterpreted: ' + hdr[:200])
        elif 'external' in attrs:
            tb.append('external: ' + hdr[:200])
        elif re.search(r'\baxiom\b', f['header']) or ('broadcast' in f['header'] and 'admit()' in text[f['start']:f['end']]):
            tb.append('axiom: ' + hdr[:400])
    for mm in re.finditer(r'#\s*\[\s*verifier::external_body\s*\]\s*(pub(\([^)]*\))?\s+)?struct\s+(\w+)', m):
        tb.append('external_body type (opaque shim): ' + mm.group(3))
    for f in fns:
        if f['body_open'] < 0 and re.search(r'\b(ensures|requires)\b', f['header']):
            tb.append('trait-level contract in template (assumed for every implementor): ' + ' '.join(text[f['start']:f['end']].split())[:400])
    for mm in re.finditer(r'\bassume_specification\b', m):
        e = rs.stmt_end(m, mm.start(), len(m))
        tb.append('assume_specification: ' + ' '.join(text[mm.start():e].split())[:400])
    for mm in re.finditer(r'\b(assume|admit)\s*\(', m):
        # which fn?
        host = next((f['qual'] for f in fns if f['start'] <= mm.start() < f['end']), '?')
        e = rs.match_close(m, m.index('(', mm.start())) + 1
        tb.append('%s in %s: %s' % (mm.group(1), host, ' '.join(text[mm.start():e].split())[:200]))
    for mm in re.finditer(r'#\s*\[\s*verifier::external_trait_specification\s*\]', m):
        e = rs.stmt_end(m, mm.end(), len(m))
        tb.append('external_trait_specification: ' + ' '.join(text[mm.end():e].split())[:300])
    for mm in re.finditer(r'\bglobal\s+size_of\b[^;]*;', m):
        tb.append('target assumption: ' + ' '.join(text[mm.start():mm.end()].split()))
    for mm in re.finditer(r'\bmacro_rules!\s*(\w+)', m):
        tb.append('template macro shim: ' + mm.group(1))
    for mm in re.finditer(r'#\s*\[\s*verifier::external_type_specification\s*\]', m):
        e = rs.stmt_end(m, mm.end(), len(m))
        tb.append('external_type_specification: ' + ' '.join(text[mm.end():e].split())[:200])
    return tb, fns


def lemma_obligations(unit, text, spans, fns):
    """proof fns with bodies in the template (not external_body / admit-only) are obligations."""
    obs = {}
    # raw segments carry the props current at their position
    def props_at(off):
        for (a, b, s) in spans:
            if a <= off < b:
                return getattr(s, 'origin', None) if s.kind == 'raw' else None
        return None
    for f in fns:
        if not re.search(r'\bproof\s+fn\b', f['header']):
            continue
        if f['body_open'] < 0 or 'external_body' in ' '.join(f['attrs']):
            continue
        body = text[f['body_open']:f['end']]
        if re.search(r'\badmit\s*\(\s*\)', body):
            continue
        pr = props_at(f['start'])
        if pr is None:
            continue
        oid = '%s/lemma:%s' % (unit.name, f['qual'])
        hdr = ' '.join(text[f['start']:f['body_open']].split())
        obs[oid] = {'props': pr, 'kind': 'lemma', 'fn': f['qual'], 'text': hdr[:400], 'property_level': True}
    return obs


def canary_lemmas(text):
    """assert(false) at the end of every template proof fn that has hypotheses."""
    fns, m = scan_fns(text)
    ins = []
    names = []
    for f in fns:
        if not re.search(r'\bproof\s+fn\b', f['header']) or f['body_open'] < 0:
            continue
        if 'external_body' in ' '.join(f['attrs']):
            continue
        if not re.search(r'\brequires\b', f['header']):
            continue
        if re.search(r'\bby\s*\(', f['header']):
            continue
        if re.search(r'\badmit\s*\(\s*\)', text[f['body_open']:f['end']]):
            continue
        ins.append(f['end'] - 1)
        names.append(f['qual'])
    for p in sorted(ins, reverse=True):
        text = text[:p] + '\n assert(false); /*canary*/\n' + text[p:]
    return text, names


def parse_diags(stderr):
    diags = []
    other = []
    for ln in stderr.split('\n'):
        ln = ln.strip()
        if ln.startswith('{') and '"$message_type"' in ln:
            try:
                d = json.loads(ln)
            except Exception:
                continue
            if d.get('$message_type') == 'diagnostic':
                diags.append(d)
        elif ln:
            other.append(ln)
    return diags, other


def primary(d, fname=None):
    """Primary span, restricted to the generated file (a failed vstd trait-level postcondition
    has its primary span inside vstd; the secondary span then names our function body)."""
    spans = d.get('spans', [])
    if fname:
        spans = [s for s in spans if os.path.basename(s.get('file_name', '')) == fname]
    for s in spans:
        if s.get('is_primary'):
            return s
    return spans[0] if spans else None


def run_verus(path, extra=(), timeout=900):
    cmd = ['verus', path, '--output-json', '--time', '--error-format=json', '--multiple-errors', '25'] + list(extra)
    rc, out, err, wall = sh(cmd, timeout=timeout, cwd=os.path.dirname(path))
    js = None
    try:
        js = json.loads(out[out.index('{'):]) if '{' in out else None
    except Exception:
        js = None
    diags, other = parse_diags(err)
    return {'path': path, 'rc': rc, 'json': js, 'diags': diags, 'other': other, 'wall': wall, 'cmd': ' '.join(cmd), 'raw_err': err}


class UnitResult:
    pass


def run_unit(name, tier='quick', seed=0):
    """Serialise per unit: two property checks that share a unit (lattice serves C06, C07, C08) may run at the same
    time and would otherwise write the same .work/<unit>/ files.  The lock is held for the unit's run only."""
    import fcntl
    os.makedirs(WORK, exist_ok=True)
    with open(os.path.join(WORK, name + '.lock'), 'w') as lk:
        fcntl.flock(lk, fcntl.LOCK_EX)
        try:
            r = _run_unit(name, tier, seed)
            # N11: retry once with the constants the verifier could not find, if the unit's own source files define them
            if r.status == 'undecided':
                extra = _missing_consts(name, r.reason)
                if extra:
                    r2 = _run_unit(name, tier, seed, extra)
                    if r2.status == 'ok' or 'cannot find value' not in r2.reason:
                        return r2
            return r
        finally:
            fcntl.flock(lk, fcntl.LOCK_UN)


def _missing_consts(name, reason):
    """`cannot find value `NAME` in this scope` for an upper-case NAME that is a top-level const of a file the unit extracts
    from -> the @item lines that copy it."""
    names = sorted(set(re.findall(r'cannot find value `([A-Z][A-Z0-9_]+)` in this scope', reason or '')))
    if not names:
        return []
    try:
        udir = os.path.join(VERIF, 'contracts', name)
        tpl = open(os.path.join(udir, 'unit.vt'), encoding='utf-8').read()
        # the extraction directives may sit in included files
        seen, todo = set(), re.findall(r'(?m)^@include\s+(\S+)', tpl)
        while todo:
            inc = os.path.normpath(os.path.join(udir, todo.pop()))
            if inc in seen or not os.path.isfile(inc):
                continue
            seen.add(inc)
            t = open(inc, encoding='utf-8').read()
            tpl += '\n' + t
            todo += [os.path.join(os.path.relpath(os.path.dirname(inc), udir), x) for x in re.findall(r'(?m)^@include\s+(\S+)', t)]
    except OSError:
        return []
    files = []
    for m in re.finditer(r'(?m)^@(?:item|impl|fn)\s+(\S+\.rs)\s+::', tpl):
        if m.group(1) not in files:
            files.append(m.group(1))
    out = []
    for n in names:
        for f in files:
            try:
                src = open(os.path.join(REPO, f), encoding='utf-8').read()
            except OSError:
                continue
            if re.search(r'(?m)^\s*(?:pub(?:\([a-z]+\))?\s+)?const\s+%s\s*:' % re.escape(n), src):
                out.append('@item %s :: const %s' % (f, n))
                break
    return out


def _run_unit(name, tier='quick', seed=0, extra_items=()):
    """Generate + verify one unit.  Returns UnitResult; never raises for verification outcomes."""
    r = UnitResult()
    r.name = name
    r.status = 'ok'          # ok | undecided
    r.reason = ''
    r.failed = {}            # oid -> [messages]
    r.obligations = {}
    r.functions = []
    r.log = []
    r.trusted = []
    r.canary = {}
    r.times = {}
    r.cmd = ''
    r.wall = 0.0
    r.bounded = []
    r.lost = []
    r.degraded = set()
    r.anchor_fp = {}
    r.text_fp = None
    t0 = time.time()
    wd = os.path.join(WORK, name)
    os.makedirs(wd, exist_ok=True)
    try:
        u = Unit(VERIF, REPO, name, extra_items).generate()
        text, spans = u.render()
        layers = u.canary_layers()
        ctexts = [u.render(canary=L)[0] for L in layers]
    except (GenError, rs.ScanError) as e:
        r.status = 'undecided'
        r.reason = 'extraction: %s' % e
        r.wall = time.time() - t0
        return r
    path = os.path.join(wd, name + '.rs')
    open(path, 'w').write(text)
    r.generated = path
    try:
        tb, fns = trusted_scan(text)
    except rs.ScanError as e:
        r.status = 'undecided'
        r.reason = 'scan of generated file: %s' % e
        return r
    cpaths = []
    clemmas = []
    for k, ct in enumerate(ctexts):
        if k == 0:
            ct, clemmas = canary_lemmas(ct)
            ctexts[0] = ct
        cp = os.path.join(wd, '%s_canary%d.rs' % (name, k))
        # a canary only has to FAIL: a raised per-function rlimit would make Z3 search for the proof of `false` that long
        ct = re.sub(r'#\[verifier::rlimit\(\d+\)\]', '', ct)
        ctexts[k] = ct
        open(cp, 'w').write(ct)
        cpaths.append(cp)
    r.obligations = dict(u.obligations)
    r.obligations.update(lemma_obligations(u, text, spans, fns))
    r.functions = u.functions
    r.lost = list(u.lost_anchors)
    r.degraded = set(u.degraded_fns)
    r.anchor_fp = {k: sorted(v) for k, v in u.anchor_fp.items() if v}
    r.text_fp = u.fingerprints()
    r.log = u.log
    r.trusted = tb + ['N6 havoc: ' + h for h in u.havocs] + ['N7 ' + x for x in u.reduced] + list(u.trait_contracts)
    renames = sorted(set((l['before'], l['after']) for l in u.log if l['rule'] == 'N3'))
    r.trusted += ['N3 rename: %s -> %s' % x for x in renames]

    extra = []
    with cf.ThreadPoolExecutor(max_workers=8) as ex:
        f1 = ex.submit(run_verus, path, extra)
        f2 = [ex.submit(run_verus, cp, extra) for cp in cpaths]
        main, cans = f1.result(), [f.result() for f in f2]
    r.cmd = main['cmd']
    r.main = main
    # ---- main run
    _digest_main(r, main, text, spans, fns)
    # ---- canary
    _digest_canary(r, cans, ctexts, layers, clemmas)
    if tier == 'thorough' and r.status == 'ok':
        # stability: re-discharge under other seeds / larger rlimit; a flip is instability, never a violation
        variants = [['--smt-option', 'smt.random_seed=%d' % (seed * 3 + k + 1), '--rlimit', '50'] for k in range(3)]
        base_failed = set(r.failed)
        r.stability = []
        with cf.ThreadPoolExecutor(max_workers=3) as ex:
            outs = list(ex.map(lambda v: run_verus(path, v), variants))
        for v, o in zip(variants, outs):
            rr = UnitResult()
            rr.failed = {}
            rr.status = 'ok'
            rr.reason = ''
            rr.times = {}
            rr.obligations = r.obligations
            rr.name = name
            _digest_main(rr, o, text, spans, fns)
            r.stability.append({'args': ' '.join(v), 'failed': sorted(rr.failed), 'status': rr.status, 'wall_s': round(o['wall'], 2)})
            if rr.status != 'ok' or set(rr.failed) != base_failed:
                r.status = 'undecided'
                r.reason = 'unstable: result differs under %s (%s vs %s)' % (' '.join(v), sorted(rr.failed), sorted(base_failed))
        # second solver (recorded only: the installed cvc5 is 1.0.3, Verus expects 1.1.2, so a
        # disagreement is reported in the evidence but never turns into a verdict)
        try:
            cv = run_verus(path, ['-V', 'cvc5', '-V', 'no-solver-version-check', '--rlimit', '30'], timeout=600)
            vr = (cv['json'] or {}).get('verification-results', {})
            r.cvc5 = {'verified': vr.get('verified'), 'errors': vr.get('errors'), 'wall_s': round(cv['wall'], 2),
                      'note': 'cvc5 1.0.3 with -V no-solver-version-check; informational cross-check'}
        except Exception as e:
            r.cvc5 = {'error': str(e)[:200]}
    r.wall = time.time() - t0
    return r


def _offset(text, line, col):
    # 1-based line/col (col in chars)
    off = 0
    for _ in range(line - 1):
        off = text.index('\n', off) + 1
    return off + col - 1


def _digest_main(r, main, text, spans, fns):
    js = main['json']
    hard = []
    rlimit_msgs = []
    for d in main['diags']:
        if d.get('level') != 'error':
            continue
        msg = d.get('message', '')
        if msg.startswith('aborting due to'):
            continue
        low = msg.lower()
        if any(x in low for x in RLIMIT):
            rlimit_msgs.append(msg)
            continue
        sp = primary(d, os.path.basename(main['path']))
        if d.get('code') is not None or not any(x in low for x in VERIF_FAIL) or sp is None:
            hard.append(msg + (' @%s:%s' % (sp['line_start'], sp['column_start']) if sp else ''))
            continue
        off = _offset(text, sp['line_start'], sp['column_start'])
        oid = None
        for (a, b, s) in spans:
            if a <= off < b and s.fn:
                oid = s.clause or '%s/%s/safety' % (r.name, s.fn)
                break
        if oid is not None and oid.endswith('/safety'):
            # an invariant that fails at a `continue`/`break` (or a postcondition at an early `return`) has the jump as
            # its primary span and the clause as a secondary span labelled "failed this invariant/postcondition":
            # attribute the failure to that clause, not to the function's safety obligation
            for s2 in d.get('spans', []):
                if s2 is sp or os.path.basename(s2.get('file_name', '')) != os.path.basename(main['path']):
                    continue
                if 'failed this' not in (s2.get('label') or ''):
                    continue
                off2 = _offset(text, s2['line_start'], s2['column_start'])
                hit = next((sg.clause for (a, b, sg) in spans if a <= off2 < b and sg.fn and sg.clause), None)
                if hit:
                    oid = hit
                    break
        if oid is None:
            # a postcondition declared on a TRAIT method in the template and violated by an extracted impl:
            # the primary span is the trait's clause, a secondary span is the impl body
            for s2 in d.get('spans', []):
                if os.path.basename(s2.get('file_name', '')) != os.path.basename(main['path']) or s2 is sp:
                    continue
                off2 = _offset(text, s2['line_start'], s2['column_start'])
                for (a, b, sg) in spans:
                    if a <= off2 < b and sg.fn:
                        oid = '%s/%s/safety' % (r.name, sg.fn)
                        break
                if oid:
                    break
        if oid is None:
            host = next((f for f in fns if f['start'] <= off < f['end']), None)
            if host is None:
                hard.append('unattributed failure: ' + msg)
                continue
            if re.search(r'\bproof\s+fn\b', host['header']):
                oid = '%s/lemma:%s' % (r.name, host['qual'])
            else:
                oid = '%s/tmpl:%s' % (r.name, host['qual'])
        rendered = d.get('rendered', msg)
        r.failed.setdefault(oid, []).append(rendered.strip())
    if rlimit_msgs:
        # The solver gave up somewhere.  With no refuted obligation at all the unit is undecided.  When specific obligations
        # WERE refuted before the limit was hit (Verus reports the first failures of a function, then re-checks the rest of
        # it, and it is such a re-check that runs out of resources) those refutations are ordinary solver answers and are
        # kept; the limit is only noted.  (Seed C01-4: RENAME's two postconditions were refuted and then withheld because
        # a later query of the same 450-line function exhausted the limit.)
        if r.failed:
            r.notes = getattr(r, 'notes', []) + ['solver resource limit hit after %d obligation(s) had been refuted: %s' % (len(r.failed), rlimit_msgs[0][:160])]
        else:
            r.status = 'undecided'
            r.reason = 'solver resource limit: ' + rlimit_msgs[0]
    if hard:
        r.status = 'undecided'
        r.reason = 'verifier rejected the unit (dialect/type error, not a proof failure): ' + ' | '.join(hard[:4])
    if js is None:
        r.status = 'undecided'
        r.reason = r.reason or ('no verifier result: ' + ' '.join(main['other'][:5]) + main['raw_err'][-400:])
        return
    vr = js.get('verification-results', {})
    r.verus_counts = {'verified': vr.get('verified'), 'errors': vr.get('errors')}
    if vr.get('encountered-vir-error'):
        r.status = 'undecided'
        r.reason = r.reason or 'verifier front-end error'
    if not vr.get('success') and not r.failed and r.status == 'ok':
        r.status = 'undecided'
        r.reason = 'verifier reports failure but no obligation could be attributed: ' + ' '.join(main['other'][:5])
    try:
        for mt in js['times-ms']['smt']['smt-run-module-times']:
            for fb in mt.get('function-breakdown', []):
                r.times[fb['function']] = {'ms': fb['time'], 'rlimit': fb.get('rlimit'), 'success': fb.get('success')}
        r.smt_ms = js['times-ms']['smt']['total']
        r.total_ms = js['times-ms']['total']
    except Exception:
        r.smt_ms = None
        r.total_ms = None
    for oid in list(r.failed):
        if oid not in r.obligations:
            # failure inside template exec/spec code: machinery problem, not an obligation
            r.status = 'undecided'
            r.reason = 'failure attributed to non-obligation %s: %s' % (oid, r.failed[oid][0][:200])


def _digest_canary(r, cans, ctexts, layers, clemmas):
    """Every canaried function must FAIL.  A canary that verifies => contradictory assumptions."""
    expected = set(clemmas)
    for L in layers:
        expected |= set(L)
    failing = set()
    hard = []
    wall = 0.0
    for k, (can, ctext) in enumerate(zip(cans, ctexts)):
        wall = max(wall, can['wall'])
        fns, m = scan_fns(ctext)
        inlayer = set(layers[k]) | (set(clemmas) if k == 0 else set())
        for d in can['diags']:
            if d.get('level') != 'error':
                continue
            msg = d.get('message', '')
            if msg.startswith('aborting due to'):
                continue
            sp = primary(d)
            if sp is None:
                continue
            low = msg.lower()
            if d.get('code') is not None or (not any(x in low for x in VERIF_FAIL) and not any(x in low for x in RLIMIT)):
                hard.append(msg)
                continue
            for s in d.get('spans', []):
                if os.path.basename(s.get('file_name', '')) != os.path.basename(can['path']):
                    continue
                off = _offset(ctext, s['line_start'], s['column_start'])
                host = next((f for f in fns if f['start'] <= off < f['end']), None)
                if host and host['qual'] in inlayer:
                    failing.add(host['qual'])
                elif host and host['qual_short'] in inlayer:
                    failing.add(host['qual_short'])
                elif host:
                    # a trait-impl method whose body the template places in an inherent impl (stand-alone @fn form): the layer
                    # id says `<T as Tr>::f`, the generated file says `T::f` - same type, same method name, unique in the layer
                    ty, _, nm = host['qual_short'].rpartition('::')
                    cand = [i for i in inlayer if i.rpartition('::')[2] == nm and re.match(r'<\s*%s\b' % re.escape(ty), i)]
                    if len(cand) == 1:
                        failing.add(cand[0])
    alive = sorted(x for x in expected if x not in failing)
    r.canary = {'expected_to_fail': len(expected), 'failed_as_expected': len(expected) - len(alive), 'vacuous': alive,
                'layers': len(layers), 'wall_s': round(wall, 2)}
    if hard and r.status == 'ok':
        r.status = 'undecided'
        r.reason = 'canary file rejected: ' + ' | '.join(hard[:3])
    elif alive and r.status == 'ok':
        r.status = 'undecided'
        r.reason = 'vacuity: `ensures false`/assert(false) verified for %s (contradictory precondition or assumption)' % alive
    if len(expected) == 0 and r.status == 'ok':
        r.status = 'undecided'
        r.reason = 'unit generated zero canaries'
