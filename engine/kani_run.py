"""Kani leg (DESIGN.md section 1 / 3): overlay harness modules on a scratch COPY of the whole crate.

    run(pid, kani_units, tier='quick', seed=0) -> list of dict   (one dict per harness)

Every run:
  1. rsync /repo's working tree (without target/, .git/, .cargo/config.toml) to a fresh scratch
     directory /var/tmp/verif-kani-<pid>-<rand> (outside /repo and /verif; removed at the end);
  2. stated drop: the `#[cfg(kani)] mod kani_proofs { .. }` block of src/replication/lattice.rs is
     removed from the copy (it does not compile - LwwRegister has no PartialEq - and is dead under
     every other cfg).  Nothing else of the code under proof is touched;
  3. every /verif/contracts/<kunit>/kani/*.rs is APPENDED to the source file named by its
     `// @append-to: <repo-relative file>` line (child modules see private items); several files may
     be appended to the same source file (their `mod` names must differ);
  4. ONE `cargo kani --no-default-features -Z function-contracts -Z stubbing --harness h1 --harness h2 ..`
     with CARGO_TARGET_DIR=/verif/.cache/kani-target (persistent dependency cache: only the lib is
     recompiled), under `timeout`, with a per-harness timeout;
  5. the per-harness verdicts are parsed.  SUCCESSFUL -> ok; FAILED -> failed, except when the only
     failed checks are unwinding assertions (the bound of the harness is too small: undecided);
     compile errors, timeouts, crashes, harness not run -> undecided, never failed.

Harness file format (parsed here):

    // @append-to: src/streaming/wal.rs            (required, once)
    // @debug-assertions: off                      (optional, once; default on.  off = the harnesses of this
    //                                              file are compiled like the release build that serves clients:
    //                                              debug_assert!/cfg(debug_assertions) code is absent - the same
    //                                              drop as normalisation rule N2 of the Verus leg.  Uses its own
    //                                              dependency cache .cache/kani-target-nodebug)
    #[cfg(kani)]
    mod verif_kani_xyz {
        use super::*;
        // @harness: name_of_fn                    (immediately above each #[kani::proof] fn)
        // @bound: free text (what is bounded / "none")
        // @tier: quick|thorough
        // @complete: true|false                   (true = loop-free full-domain proof: counts_as_proof)
        // @props: C10 C14                         (optional: run only for these properties)
        #[kani::proof]
        fn name_of_fn() { .. }
    }

`contracts/<kunit>/kani_baseline.json` = {"passing": [harness names]} records the harnesses that
verified on the pinned tree (`python3 -m engine.kani_run --rebaseline <kunit>..` writes it).
"""
import json
import os
import random
import re
import shutil
import subprocess
import sys
import time

from . import rustscan as rs

VERIF = os.path.dirname(os.path.dirname(os.path.abspath(__file__)))
REPO = os.environ.get('VERIF_REPO', '/repo')
TARGET_DIR = os.path.join(VERIF, '.cache', 'kani-target')
SCRATCH_ROOT = '/var/tmp'

# wall-clock budgets (seconds)
BUILD_ALLOWANCE = {'quick': 420, 'thorough': 900}      # compile of deps (first run) + lib
PER_HARNESS = {'quick': 170, 'thorough': 900}           # --harness-timeout
DROP_NOTE = 'src/replication/lattice.rs: `#[cfg(kani)] mod kani_proofs` removed from the scratch copy (does not compile; dead under every other cfg)'


class KaniSetupError(Exception):
    pass


# --------------------------------------------------------------------------- harness files
def parse_harness_file(path):
    """-> (append_to, text, [harness dict])"""
    text = open(path, encoding='utf-8').read()
    mm = re.search(r'^//\s*@append-to:\s*(\S+)\s*$', text, re.M)
    if not mm:
        raise KaniSetupError('%s: no `// @append-to:` line' % path)
    append_to = mm.group(1)
    dm = re.search(r'^//\s*@debug-assertions:\s*(on|off)\s*$', text, re.M)
    debug_assertions = (dm.group(1) if dm else 'on')
    mod = re.search(r'^\s*(?:pub\s+)?mod\s+(\w+)', text, re.M)
    modname = mod.group(1) if mod else None
    hs = []
    lines = text.split('\n')
    i = 0
    while i < len(lines):
        m = re.match(r'\s*//\s*@harness:\s*(\w+)\s*$', lines[i])
        if not m:
            i += 1
            continue
        h = {'harness': m.group(1), 'bound': '', 'tier': 'quick', 'complete': False, 'props': None,
             'file': path, 'append_to': append_to, 'module': modname, 'debug_assertions': debug_assertions}
        i += 1
        while i < len(lines):
            m2 = re.match(r'\s*//\s*@(\w+):\s*(.*?)\s*$', lines[i])
            if not m2:
                break
            k, v = m2.group(1), m2.group(2)
            if k == 'bound':
                h['bound'] = v
            elif k == 'tier':
                h['tier'] = v
            elif k == 'complete':
                h['complete'] = (v.lower() == 'true')
            elif k == 'props':
                h['props'] = v.split()
            elif k == 'harness':
                break
            i += 1
        # the function must exist in the file
        if not re.search(r'\bfn\s+%s\s*\(' % re.escape(h['harness']), text):
            raise KaniSetupError('%s: @harness %s has no fn' % (path, h['harness']))
        hs.append(h)
    if not hs:
        raise KaniSetupError('%s: no `// @harness:` blocks' % path)
    return append_to, text, hs


def collect(kani_units):
    files = []
    harnesses = []
    for ku in kani_units:
        d = os.path.join(VERIF, 'contracts', ku, 'kani')
        if not os.path.isdir(d):
            raise KaniSetupError('kani unit %s: %s missing' % (ku, d))
        names = sorted(n for n in os.listdir(d) if n.endswith('.rs'))
        if not names:
            raise KaniSetupError('kani unit %s has no harness files' % ku)
        for n in names:
            append_to, text, hs = parse_harness_file(os.path.join(d, n))
            files.append((ku, os.path.join(d, n), append_to, text))
            for h in hs:
                h['kunit'] = ku
                harnesses.append(h)
    seen = {}
    for h in harnesses:
        if h['harness'] in seen:
            raise KaniSetupError('harness name %s used twice (%s, %s)' % (h['harness'], seen[h['harness']], h['file']))
        seen[h['harness']] = h['file']
    return files, harnesses


def baseline_of(kunit):
    try:
        return set(json.load(open(os.path.join(VERIF, 'contracts', kunit, 'kani_baseline.json'))).get('passing', []))
    except FileNotFoundError:
        return set()


# --------------------------------------------------------------------------- scratch copy
def make_scratch(pid):
    d = os.path.join(SCRATCH_ROOT, 'verif-kani-%s-%d-%06d' % (pid, os.getpid(), random.randrange(10 ** 6)))
    os.makedirs(d)
    cmd = ['rsync', '-a', '--exclude', '/target', '--exclude', '/.git', '--exclude', '/.cargo/config.toml',
           REPO.rstrip('/') + '/', d + '/']
    p = subprocess.run(cmd, stdout=subprocess.PIPE, stderr=subprocess.PIPE)
    if p.returncode != 0:
        shutil.rmtree(d, ignore_errors=True)
        raise KaniSetupError('rsync failed: ' + p.stderr.decode('utf-8', 'replace')[-300:])
    return d


def strip_intree_kani(scratch):
    """Stated drop: remove `#[cfg(kani)] mod kani_proofs {..}` from lattice.rs of the copy."""
    path = os.path.join(scratch, 'src/replication/lattice.rs')
    if not os.path.exists(path):
        return False
    text = open(path, encoding='utf-8').read()
    m = rs.mask(text)
    mm = re.search(r'#\s*\[\s*cfg\s*\(\s*kani\s*\)\s*\]\s*mod\s+kani_proofs\s*\{', m)
    if not mm:
        return False
    ob = m.index('{', mm.start())
    cl = rs.match_close(m, ob)
    open(path, 'w', encoding='utf-8').write(text[:mm.start()] + '// (verif: in-tree kani_proofs module dropped in this scratch copy)\n' + text[cl + 1:])
    return True


def overlay(scratch, files):
    for (ku, path, append_to, text) in files:
        dst = os.path.join(scratch, append_to)
        if not os.path.exists(dst):
            raise KaniSetupError('%s: anchor file %s missing in /repo' % (path, append_to))
        with open(dst, 'a', encoding='utf-8') as f:
            f.write('\n\n// ==== appended by /verif/engine/kani_run.py from %s ====\n' % os.path.relpath(path, VERIF))
            f.write(text)
            f.write('\n')


# --------------------------------------------------------------------------- output parsing
_CHECKING = re.compile(r'^Checking harness (\S+?)\.\.\.\s*$', re.M)


def split_per_harness(out):
    """-> {qualified harness name: text of its section}"""
    res = {}
    ms = list(_CHECKING.finditer(out))
    for k, mo in enumerate(ms):
        end = ms[k + 1].start() if k + 1 < len(ms) else len(out)
        res[mo.group(1)] = out[mo.start():end]
    return res


def verdict(section):
    """-> (status, reason)"""
    if re.search(r'VERIFICATION:-\s*SUCCESSFUL', section):
        # vacuity guard: kani::cover!() statements, if any, must be satisfied
        unsat = re.findall(r'Status:\s*(UNSATISFIABLE|UNREACHABLE)\s*\n\s*-\s*Description:\s*"?cover', section)
        cv = re.search(r'\*\*\s*(\d+) of (\d+) cover properties satisfied', section)
        if unsat or (cv and cv.group(1) != cv.group(2)):
            return 'undecided', 'verification succeeded but a kani::cover!() is not satisfiable (vacuous harness)'
        return 'ok', ''
    if re.search(r'VERIFICATION:-\s*FAILED', section):
        failed = re.findall(r'Failed Checks:\s*(.*)', section)
        if re.search(r'CBMC timed out|timed out|Timeout', section):
            return 'undecided', 'per-harness timeout'
        if failed and all('unwinding assertion' in f for f in failed):
            return 'undecided', 'only unwinding assertions failed: the unwind bound of the harness is too small'
        return 'failed', '; '.join(f.strip() for f in failed[:6]) or 'VERIFICATION FAILED'
    if re.search(r'timed out|Timeout|TIMEOUT', section):
        return 'undecided', 'per-harness timeout'
    return 'undecided', 'no verdict printed for this harness (crash, timeout of the whole run, or compile error)'


# --------------------------------------------------------------------------- driver
def run(pid, kani_units, tier='quick', seed=0, only=None):
    t0 = time.time()
    try:
        files, harnesses = collect(kani_units)
    except KaniSetupError as e:
        return [{'harness': '%s:*' % '+'.join(kani_units), 'status': 'undecided', 'reason': 'harness files: %s' % e, 'cmd': '',
                 'output': '', 'counts_as_proof': False, 'baseline': False, 'bound': '', 'wall_s': 0.0}]
    selected = [h for h in harnesses
                if (h['props'] is None or pid in h['props'] or pid == 'rebaseline') and (h['tier'] == 'quick' or (tier == 'thorough' and h['tier'] == 'thorough') or pid == 'rebaseline')]
    if only:
        selected = [h for h in harnesses if h['harness'] in only]
    skipped = [h for h in harnesses if h not in selected and (h['props'] is None or pid in h['props'])]
    results = []
    if not selected:
        return results
    scratch = None
    setup_err = None
    runs = {}     # mode -> dict(out, rc, cmd, wall)
    try:
        scratch = make_scratch(pid)
        strip_intree_kani(scratch)
        overlay(scratch, files)
        per = PER_HARNESS.get(tier, 170)
        for mode in ('on', 'off'):
            hs = [h for h in selected if h['debug_assertions'] == mode]
            if not hs:
                continue
            t1 = time.time()
            tdir = TARGET_DIR if mode == 'on' else TARGET_DIR + '-nodebug'
            os.makedirs(tdir, exist_ok=True)
            total = BUILD_ALLOWANCE.get(tier, 420) + per * len(hs)
            cmd = ['timeout', '-k', '10', str(total), 'cargo', 'kani', '--no-default-features',
                   '-Z', 'function-contracts', '-Z', 'stubbing', '-Z', 'unstable-options', '--harness-timeout', '%ds' % per]
            for h in hs:
                cmd += ['--harness', h['harness']]
            env = dict(os.environ)
            env.update({'CARGO_NET_OFFLINE': 'true', 'RUSTC_WRAPPER': '', 'CARGO_TARGET_DIR': tdir})
            envtxt = 'CARGO_NET_OFFLINE=true RUSTC_WRAPPER= CARGO_TARGET_DIR=%s' % tdir
            if mode == 'off':
                env['CARGO_PROFILE_DEV_DEBUG_ASSERTIONS'] = 'false'
                envtxt = 'CARGO_PROFILE_DEV_DEBUG_ASSERTIONS=false ' + envtxt
            p = subprocess.run(cmd, cwd=scratch, env=env, stdout=subprocess.PIPE, stderr=subprocess.STDOUT)
            runs[mode] = {'out': p.stdout.decode('utf-8', 'replace'), 'rc': p.returncode, 'wall': time.time() - t1,
                          'cmd': 'cd <scratch copy of /repo with the harness modules appended> && %s %s' % (envtxt, ' '.join(cmd))}
    except KaniSetupError as e:
        setup_err = str(e)
    finally:
        if scratch and os.path.isdir(scratch) and os.path.dirname(scratch) == SCRATCH_ROOT and os.path.basename(scratch).startswith('verif-kani-'):
            shutil.rmtree(scratch, ignore_errors=True)
    for mode, rn in runs.items():
        rn['sections'] = split_per_harness(rn['out'])
        rn['compile_err'] = None
        if not rn['sections']:
            errs = re.findall(r'^(error(?:\[E\d+\])?: .*)$', rn['out'], re.M)
            if rn['rc'] in (124, 137):
                rn['compile_err'] = 'whole run hit the wall-clock limit before any harness was checked'
            elif errs:
                rn['compile_err'] = 'scratch copy does not compile with the harness modules: ' + ' | '.join(errs[:3])
            else:
                rn['compile_err'] = 'cargo kani produced no harness output (rc=%s): %s' % (rn['rc'], rn['out'][-300:].replace('\n', ' '))
    for h in selected:
        base = h['harness'] in baseline_of(h['kunit'])
        rn = runs.get(h['debug_assertions'])
        d = {'harness': h['harness'], 'kunit': h['kunit'], 'cmd': rn['cmd'] if rn else '', 'counts_as_proof': bool(h['complete']),
             'baseline': base, 'bound': h['bound'] or ('none (loop-free, full input domain)' if h['complete'] else 'unspecified'),
             'tier': h['tier'], 'append_to': h['append_to'], 'dropped': DROP_NOTE,
             'debug_assertions': 'on' if h['debug_assertions'] == 'on' else 'off (release semantics: debug-only code absent, as rule N2 of the Verus leg)',
             'wall_s': round(rn['wall'], 2) if rn else round(time.time() - t0, 2)}
        if setup_err or rn is None:
            d.update(status='undecided', reason='setup: ' + (setup_err or 'not run'), output='')
        elif rn['compile_err']:
            d.update(status='undecided', reason=rn['compile_err'], output=rn['out'][-4000:])
        else:
            sec = None
            for q, sct in rn['sections'].items():
                if q == h['harness'] or q.endswith('::' + h['harness']):
                    sec = sct
                    break
            if sec is None:
                d.update(status='undecided', reason='harness was not run (not found by cargo kani, or the run stopped before it)', output=rn['out'][-2000:])
            else:
                st, why = verdict(sec)
                mt = re.search(r'Verification Time:\s*([0-9.]+)s', sec)
                d.update(status=st, reason=why, output=sec[-6000:], verify_s=(float(mt.group(1)) if mt else None))
        results.append(d)
    # harnesses of the thorough tier are simply not run (and not reported) in the quick tier
    for d in results:
        d['not_run_in_this_tier'] = [h['harness'] for h in skipped]
    return results


def rebaseline(kunits, tier='thorough'):
    res = run('rebaseline', kunits, tier)
    by = {}
    for r in res:
        by.setdefault(r.get('kunit', '?'), []).append(r)
    for ku, rr in by.items():
        passing = sorted(r['harness'] for r in rr if r['status'] == 'ok')
        path = os.path.join(VERIF, 'contracts', ku, 'kani_baseline.json')
        json.dump({'kunit': ku, 'passing': passing,
                   'not_passing': {r['harness']: '%s: %s' % (r['status'], r['reason']) for r in rr if r['status'] not in ('ok',)}},
                  open(path, 'w'), indent=1, sort_keys=True)
        print('%s: %d harnesses, %d passing -> %s' % (ku, len(rr), len(passing), path))
    return res


def main(argv):
    import argparse
    ap = argparse.ArgumentParser()
    ap.add_argument('kunits', nargs='+')
    ap.add_argument('--tier', default='quick')
    ap.add_argument('--pid', default='adhoc')
    ap.add_argument('--rebaseline', action='store_true')
    ap.add_argument('--only', default='', help='development: comma-separated harness names')
    ap.add_argument('-v', action='store_true')
    a = ap.parse_args(argv)
    res = rebaseline(a.kunits, a.tier) if a.rebaseline else run(a.pid, a.kunits, a.tier, only=[x for x in a.only.split(',') if x] or None)
    for r in res:
        print('%-44s %-9s proof=%-5s base=%-5s tier=%-8s %6.1fs  %s' % (r['harness'], r['status'], r['counts_as_proof'], r['baseline'],
              r.get('tier', ''), r.get('verify_s') or 0.0, r['reason'][:160]))
        if a.v and r['status'] not in ('ok', 'skipped'):
            print(r['output'][-3000:])
    if res:
        for c in sorted(set(r['cmd'] for r in res)):
            print('cmd:', c)
        print('wall (per cargo kani invocation): %s' % sorted(set(r['wall_s'] for r in res)))
    return 0


if __name__ == '__main__':
    sys.exit(main(sys.argv[1:]))
