"""Regenerate MANIFEST.json from contracts/units.json (+ static texts)."""
import json, os
V = os.path.dirname(os.path.dirname(os.path.abspath(__file__)))
reg = json.load(open(os.path.join(V, 'contracts', 'units.json')))
NA = {}
NA_OLD = {
 'C20': 'hyperproperty over two whole-process runs (per-process RandomState seeds, allocator, wall clock); a function contract cannot mention the hash seed and Verus/Kani model HashMap iteration as nondeterministic/fixed respectively.',
}
checks = []
for pid in sorted(reg):
    e = reg[pid]
    c = {
        'property_id': pid,
        'quick_cmd': './vcheck %s --tier quick' % pid,
        'thorough_cmd': './vcheck %s --tier thorough' % pid,
        'evidence_file': 'evidence/%s.json' % pid,
        'replay_cmd_template': './vcheck %s --replay {path}' % pid,
        'engine': 'vcheck',
        'level_claimed': {'category': 'proof', 'text': e['claim'], 'design_ref': 'DESIGN.md §5 ' + pid},
        'level_note': e['note'],
        'technique': e.get('technique', 'contract-based deductive verification: Verus (Z3) discharges requires/ensures/invariants spliced onto functions extracted mechanically from /repo on every run'),
    }
    checks.append(c)
na = [{'property_id': k, 'reason': v} for k, v in sorted(NA.items())]
for pid in ['C%02d' % i for i in range(1, 21)]:
    if pid not in reg and pid not in NA:
        na.append({'property_id': pid, 'reason': 'not yet under contract in this revision (planned in DESIGN.md §5); no check is registered, nothing is claimed'})
m = {
 'version': 1,
 'setup_cmd': 'sh ./setup.sh',
 'hooks': {'guard': 'verif-hooks', 'enable': 'cargo feature: redis-sim = { path = "/repo", features = ["verif-hooks"] } in the replay crate only; no proof depends on it',
           'baseline_off_cmd': 'cd /repo && RUSTC_WRAPPER= cargo test --workspace --no-fail-fast --offline',
           'source_commits': json.load(open(os.path.join(V, 'contracts', 'hooks.json')))['source_commits'], 'add_only': True},
 'engines': [{'name': 'vcheck', 'path': 'vcheck', 'serves_properties': sorted(reg),
              'kind_free_text': 'extract real functions from /repo -> normalise (N1-N10) -> splice contracts -> Verus; Kani for loop-free/bounded legs; replay crate executes the real code'}],
 'checks': checks,
 'notes': 'fix: commits in /repo and open findings are listed in known_findings.json; DESIGN.md explains each unit.',
 'not_applicable': sorted(na, key=lambda x: x['property_id']),
}
json.dump(m, open(os.path.join(V, 'MANIFEST.json'), 'w'), indent=1)
print('MANIFEST.json: %d checks, %d not_applicable' % (len(checks), len(na)))
