"""Syntax-aware scanning of Rust source text (no external parser available offline).

mask(text)      -> same-length string with comments and the *contents* of string/char
                   literals blanked, so brace matching and regex search are safe and
                   offsets coincide with the original text.
items(text,...) -> the items of a file / impl / mod body, each with its attribute block,
                   header and body extents.
"""
import re


class ScanError(Exception):
    pass


def mask(text):
    out = list(text)
    n = len(text)
    i = 0

    def blank(a, b):
        for k in range(a, b):
            if out[k] != '\n':
                out[k] = ' '

    while i < n:
        c = text[i]
        if c == '/' and i + 1 < n and text[i + 1] == '/':
            j = text.find('\n', i)
            if j < 0:
                j = n
            blank(i, j)
            i = j
        elif c == '/' and i + 1 < n and text[i + 1] == '*':
            depth = 1
            j = i + 2
            while j < n and depth > 0:
                if text.startswith('/*', j):
                    depth += 1
                    j += 2
                elif text.startswith('*/', j):
                    depth -= 1
                    j += 2
                else:
                    j += 1
            blank(i, j)
            i = j
        elif c == '"' or (c in 'br' and _raw_or_byte_string_start(text, i)):
            # string literal (plain, byte, raw)
            j = i
            if text[j] == 'b':
                j += 1
            if j < n and text[j] == 'r':
                k = j + 1
                hashes = 0
                while k < n and text[k] == '#':
                    hashes += 1
                    k += 1
                # text[k] == '"'
                close = '"' + '#' * hashes
                e = text.find(close, k + 1)
                if e < 0:
                    raise ScanError('unterminated raw string at %d' % i)
                blank(k + 1, e)
                i = e + len(close)
            else:
                # text[j] == '"'
                k = j + 1
                while k < n and text[k] != '"':
                    if text[k] == '\\':
                        k += 2
                    else:
                        k += 1
                blank(j + 1, k)
                i = k + 1
        elif c == "'" or (c == 'b' and i + 1 < n and text[i + 1] == "'" and not _ident_char(text[i - 1] if i else ' ')):
            j = i + 1 if c == "'" else i + 2
            # char literal or lifetime?
            if j < n and text[j] == '\\':
                k = j + 2
                while k < n and text[k] != "'":
                    k += 1
                blank(j, k)
                i = k + 1
            elif j + 1 < n and text[j + 1] == "'":
                blank(j, j + 1)
                i = j + 2
            else:
                # lifetime / label
                i = j
                while i < n and _ident_char(text[i]):
                    i += 1
        else:
            i += 1
    return ''.join(out)


def _ident_char(c):
    return c.isalnum() or c == '_'


def _raw_or_byte_string_start(text, i):
    if i > 0 and _ident_char(text[i - 1]):
        return False
    m = re.match(r'(b?r#*"|b")', text[i:i + 12])
    return m is not None


OPEN = {'{': '}', '(': ')', '[': ']'}
CLOSE = {'}': '{', ')': '(', ']': '['}


def match_close(m, i):
    """m: masked text, m[i] an opening bracket; returns index of its closing bracket."""
    stack = []
    n = len(m)
    k = i
    while k < n:
        c = m[k]
        if c in OPEN:
            stack.append(c)
        elif c in CLOSE:
            if not stack or stack[-1] != CLOSE[c]:
                raise ScanError('unbalanced %r at %d' % (c, k))
            stack.pop()
            if not stack:
                return k
        k += 1
    raise ScanError('no close for bracket at %d' % i)


class Item:
    __slots__ = ('kind', 'name', 'start', 'decl', 'body_open', 'end', 'attrs', 'header', 'trait', 'trait_full', 'cfgs')

    def __repr__(self):
        return 'Item(%s %s %d..%d)' % (self.kind, self.name, self.start, self.end)


_KW = re.compile(r'\b(fn|struct|enum|union|impl|trait|mod|type|const|static|use|macro_rules|extern)\b')


def _skip_ws(m, i, end):
    while i < end and m[i].isspace():
        i += 1
    return i


def items(text, m=None, lo=0, hi=None):
    """Items between lo and hi (a file, or the inside of an impl/mod/trait body)."""
    if m is None:
        m = mask(text)
    if hi is None:
        hi = len(text)
    res = []
    i = lo
    while True:
        i = _skip_ws(m, i, hi)
        if i >= hi:
            break
        it = Item()
        # attribute block start: include preceding doc comments (they are masked -> whitespace),
        # so "start" is simply the first attribute or the declaration.
        it.start = i
        attrs = []
        while i < hi and m[i] == '#':
            j = i + 1
            if j < hi and m[j] == '!':
                j += 1
            j = _skip_ws(m, j, hi)
            if j >= hi or m[j] != '[':
                raise ScanError('bad attribute at %d' % i)
            e = match_close(m, j)
            attrs.append(text[i:e + 1])
            i = _skip_ws(m, e + 1, hi)
        it.attrs = attrs
        it.decl = i
        # header: up to first '{' or ';' at bracket depth 0
        k = i
        depth = 0
        body_open = -1
        end = -1
        while k < hi:
            c = m[k]
            if c in '([':
                k = match_close(m, k) + 1
                continue
            if c == '<' or c == '>':
                k += 1
                continue
            if c == '{':
                body_open = k
                end = match_close(m, k) + 1
                break
            if c == ';':
                end = k + 1
                break
            k += 1
        if end < 0:
            raise ScanError('item without end at %d: %r' % (i, text[i:i + 60]))
        header = m[i:(body_open if body_open >= 0 else end)]
        it.header = header
        it.body_open = body_open
        # `struct X {..}` / fn: ends at '}' ; `const X: T = Foo {..};` : swallow trailing ';'
        kw = _KW.search(header)
        kind = kw.group(1) if kw else 'other'
        if kind == 'const' and re.search(r'\bfn\b', header):
            kind = 'fn'
        if kind == 'extern' and re.search(r'\bfn\b', header):
            kind = 'fn'
        if kind in ('const', 'static') and body_open >= 0:
            # initializer with braces: run on to the terminating ';'
            k = end
            while k < hi and m[k] != ';':
                if m[k] in OPEN:
                    k = match_close(m, k)
                k += 1
            end = k + 1
            body_open = -1
            it.body_open = -1
        if kind == 'other' and body_open >= 0:
            # macro invocation with braces e.g. `foo! { }`
            pass
        it.kind = kind
        it.end = end
        it.trait = None
        it.trait_full = None
        it.name = _name_of(kind, header, it)
        it.cfgs = [a for a in attrs if re.match(r'#\s*\[\s*cfg\b', a)]
        res.append(it)
        i = end
    return res


def _strip_generics(s):
    """remove one leading balanced <...> from s"""
    s = s.lstrip()
    if not s.startswith('<'):
        return s
    d = 0
    for k, c in enumerate(s):
        if c == '<':
            d += 1
        elif c == '>':
            if k > 0 and s[k - 1] == '-':
                continue
            d -= 1
            if d == 0:
                return s[k + 1:]
    return s


def _type_ident(s):
    s = s.strip()
    s = re.sub(r'^(&\s*(\'\w+\s+)?(mut\s+)?)', '', s)
    mm = re.match(r'((?:\w+\s*::\s*)*)(\w+)', s)
    return mm.group(2) if mm else s


def _name_of(kind, header, it):
    if kind == 'fn':
        mm = re.search(r'\bfn\s+(\w+)', header)
        return mm.group(1)
    if kind in ('struct', 'enum', 'union', 'trait', 'mod', 'type', 'const', 'static'):
        mm = re.search(r'\b%s\s+(?:mut\s+)?(\w+)' % kind, header)
        return mm.group(1) if mm else None
    if kind == 'impl':
        rest = header[header.index('impl') + 4:]
        rest = _strip_generics(rest)
        # cut where clause
        w = re.search(r'\bwhere\b', rest)
        if w:
            rest = rest[:w.start()]
        # split on ' for ' at angle depth 0
        d = 0
        split = -1
        for mm in re.finditer(r'<|>|\bfor\b', rest):
            t = mm.group(0)
            if t == '<':
                d += 1
            elif t == '>':
                if mm.start() > 0 and rest[mm.start() - 1] == '-':
                    continue
                d -= 1
            elif d == 0:
                split = mm.start()
                break
        if split >= 0:
            it.trait = _type_ident(rest[:split])
            it.trait_full = re.sub(r'\s+', '', rest[:split])
            return _type_ident(rest[split + 3:])
        return _type_ident(rest)
    if kind == 'macro_rules':
        mm = re.search(r'macro_rules!\s*(\w+)', header)
        return mm.group(1) if mm else None
    return None


def fn_parts(text, m, it):
    """For a fn item: (sig_start, params_open, params_close, arrow_pos or -1, ret_start, ret_end, where_pos or -1, body_open)."""
    h0 = it.decl
    mm = re.search(r'\bfn\s+\w+', m[h0:it.end])
    k = h0 + mm.end()
    k = _skip_ws(m, k, it.end)
    if m[k] == '<':
        # generics: balanced angle brackets
        d = 0
        while True:
            if m[k] == '<':
                d += 1
            elif m[k] == '>' and m[k - 1] != '-':
                d -= 1
                if d == 0:
                    k += 1
                    break
            k += 1
        k = _skip_ws(m, k, it.end)
    if m[k] != '(':
        raise ScanError('fn without params at %d' % k)
    po = k
    pc = match_close(m, k)
    stop = it.body_open if it.body_open >= 0 else it.end - 1
    rest = m[pc + 1:stop]
    arrow = rest.find('->')
    w = re.search(r'\bwhere\b', rest)
    where_pos = pc + 1 + w.start() if w else -1
    if arrow >= 0 and (where_pos < 0 or pc + 1 + arrow < where_pos):
        a = pc + 1 + arrow
        rs = a + 2
        re_ = where_pos if where_pos >= 0 else stop
        return (h0, po, pc, a, rs, re_, where_pos, it.body_open)
    return (h0, po, pc, -1, -1, -1, where_pos, it.body_open)


_LOOP = re.compile(r'\b(for|while|loop)\b')


def loops(m, lo, hi):
    """loops in m[lo:hi] in source order: list of (kw_pos, brace_pos)."""
    res = []
    for mm in _LOOP.finditer(m, lo, hi):
        kw = mm.group(1)
        p = mm.start()
        # exclude `for<'a>` HRTB and `impl X for Y`
        after = m[mm.end():mm.end() + 1]
        if kw == 'for' and after == '<':
            continue
        # label or start of expression: crude but adequate check on preceding char
        k = mm.end()
        d = 0
        brace = -1
        while k < hi:
            c = m[k]
            if c in '([':
                k = match_close(m, k) + 1
                continue
            if c == '{':
                brace = k
                break
            if c == ';':
                break
            k += 1
        if brace >= 0:
            res.append((p, brace))
    return res


def stmt_end(m, i, hi):
    """End (exclusive) of the statement/item starting at i (after leading ws)."""
    i = _skip_ws(m, i, hi)
    while i < hi and m[i] == '#':
        j = m.index('[', i)
        i = _skip_ws(m, match_close(m, j) + 1, hi)
    blockish = re.match(r'(\{|if\b|match\b|for\b|while\b|loop\b|unsafe\s*\{|(pub(\([^)]*\))?\s+)?(async\s+)?(const\s+)?fn\b|impl\b|mod\b)', m[i:i + 40])
    k = i
    if blockish:
        while k < hi:
            c = m[k]
            if c in '([':
                k = match_close(m, k) + 1
                continue
            if c == '{':
                k = match_close(m, k) + 1
                j = _skip_ws(m, k, hi)
                if m.startswith('else', j):
                    k = j + 4
                    continue
                return k
            if c == ';':
                return k + 1
            k += 1
        return hi
    seen_arrow = False
    # a field initialiser of a struct literal / a field declaration (`name: expr,` - what a `#[cfg(..)]` attribute in
    # front of a field governs) ends at the first top-level comma, not at the closing brace of the literal
    field = re.match(r'(pub(\([^)]*\))?\s+)?\w+\s*:(?!:)', m[i:i + 80]) is not None
    while k < hi:
        c = m[k]
        if c == ',' and field and not seen_arrow:
            return k + 1
        if c in OPEN:
            k = match_close(m, k) + 1
            if seen_arrow:
                # `pat => { block }` arm: ends after the block (and an optional comma)
                j = _skip_ws(m, k, hi)
                return j + 1 if j < hi and m[j] == ',' else k
            continue
        if c == '=' and m[k:k + 2] == '=>':
            seen_arrow = True
            k += 2
            continue
        if c == ',' and seen_arrow:
            return k + 1        # a match arm `pat => expr,`
        if c == ';':
            return k + 1
        if c == '}':
            return k
        k += 1
    return hi
