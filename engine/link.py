"""Cross-unit contract linking (modularity check of the proof itself).

Verification here is modular twice over: inside one generated file Verus checks a caller against its callee's contract,
and ACROSS files a unit that needs a callee whose body lives in another unit declares it as a contract-only stub
(`#[verifier::external_body] fn f(..) requires .. ensures .. { unimplemented!() }`).  Such a stub is an ASSUMPTION of the
unit that declares it.  It is discharged only if some other registered unit verifies the REAL body of the same function
against a contract that implies the stub's.  This module decides that implication syntactically, which is sound:

  stub S of `T::f` in unit A is LINKED to the verified `T::f` of unit B  iff
    (1) the two signatures have the same parameters up to a renaming of the bound names (applied before comparing),
    (2) every `requires` clause of B's contract occurs among S's `requires` clauses (A's callers establish at least
        what the real function needs),
    (3) every `ensures` clause of S occurs among B's `ensures` clauses (A's callers learn at most what was proved),
    (4) every spec function / view mentioned (transitively) by the clauses involved has the same definition text in
        both generated files - or the stub's unit leaves it `uninterp` with the same signature and no axiom of that unit
        mentions it (a proof over an unconstrained symbol holds for every interpretation, the proving unit's included).
  Clause texts are compared after whitespace normalisation; conjunctions at the top of a clause are split.

A stub that is not linked stays what it was: an assumed contract, listed as such in the evidence (with the clauses that
found no proof).  Nothing here ever turns a refuted obligation into a pass; it only sorts the trusted base into
"assumed here, proved there" and "assumed".

    python3 -m engine.link            report for every registered unit
    python3 -m engine.link C06        report for the units of one property
"""
import json
import os
import re
import sys

from . import rustscan as rs
from .gen import Unit, GenError, split_contract
from .run import scan_fns, VERIF, REPO

_WS = re.compile(r'\s+')


def _norm(s):
    s = _WS.sub(' ', s.strip())
    s = re.sub(r'\s*([(),\[\]{}<>=!&|+\-*/:;@.])\s*', r'\1', s)
    return s.rstrip(',')


def _strip_outer_parens(c):
    while c.startswith('(') and c.endswith(')'):
        m = rs.mask(c)
        try:
            if rs.match_close(m, 0) != len(c) - 1:
                break
        except rs.ScanError:
            break
        c = c[1:-1].strip()
    return c


def _split_conj(c):
    """Top-level `&&` conjuncts of one clause (a clause `a && b` proves / assumes a and b)."""
    c = _strip_outer_parens(c.strip().rstrip(',').strip())
    m = rs.mask(c)
    parts, depth, last, i = [], 0, 0, 0
    # a clause containing `==>` / `<==>` / `||` at depth 0 binds weaker than `&&`: do not split those
    d = 0
    for k, ch in enumerate(m):
        if ch in '([{':
            d += 1
        elif ch in ')]}':
            d -= 1
        elif d == 0 and (m.startswith('==>', k) or m.startswith('||', k) or m.startswith('<==', k)):
            return [c]
        elif d == 0 and ch == '|' and not m.startswith('||', k) and (k == 0 or m[k - 1] != '|'):
            return [c]           # quantifier / closure binder at depth 0: keep whole
    while i < len(m):
        ch = m[i]
        if ch in '([{':
            depth += 1
        elif ch in ')]}':
            depth -= 1
        elif depth == 0 and m.startswith('&&', i) and not m.startswith('&&&', i):
            parts.append(c[last:i])
            last = i + 2
            i += 2
            continue
        i += 1
    parts.append(c[last:])
    out = []
    for p in parts:
        p = p.strip()
        if p:
            out.append(_strip_outer_parens(p))
    return out or [c]


def _contract_of(text, f):
    """(params, requires clauses, ensures clauses) of a fn of a generated file."""
    end = f['body_open'] if f['body_open'] >= 0 else f['end']
    hdr = text[f['start']:end]
    m = rs.mask(hdr)
    mm = re.search(r'\bfn\s+\w+', m)
    if not mm:
        return None
    k = m.find('(', mm.end())
    if k < 0:
        return None
    # generics may contain parens only in Fn bounds; find the parameter list: first '(' at angle depth 0
    d = 0
    k = mm.end()
    while k < len(m):
        if m[k] == '<':
            d += 1
        elif m[k] == '>' and m[k - 1] != '-':
            d -= 1
        elif m[k] == '(' and d == 0:
            break
        k += 1
    if k >= len(m):
        return None
    pc = rs.match_close(m, k)
    params = []
    for p in _split_top(hdr[k + 1:pc]):
        p = p.strip()
        if not p:
            continue
        nm = p.split(':')[0].strip()
        nm = re.sub(r'^(mut\s+|&\s*mut\s+|&\s*)', '', nm).strip()
        params.append(nm)
    rest = hdr[pc + 1:]
    rm = rs.mask(rest)
    kw = re.search(r'\b(requires|ensures|recommends|decreases|opens_invariants|no_unwind)\b', rm)
    req, ens = [], []
    if kw:
        try:
            parts = split_contract(rest[kw.start():])
        except GenError:
            return None
        for sec, txt in parts:
            if sec == 'requires':
                req += [_norm(x) for x in _split_conj(txt)]
            elif sec == 'ensures':
                ens += [_norm(x) for x in _split_conj(txt)]
    ret = _norm(rest[:kw.start()] if kw else rest)
    return {'params': params, 'requires': req, 'ensures': ens, 'ret': ret, 'sig': _norm(hdr[:pc + 1]) + ' ' + ret}


def _split_top(s):
    m = rs.mask(s)
    out, d, last = [], 0, 0
    for i, ch in enumerate(m):
        if ch in '([{<':
            if ch == '<' and i > 0 and m[i - 1] == '-':
                continue
            d += 1
        elif ch in ')]}':
            d -= 1
        elif ch == '>' and i > 0 and m[i - 1] not in '-=':
            d -= 1
        elif ch == ',' and d == 0:
            out.append(s[last:i])
            last = i + 1
    out.append(s[last:])
    return out


def _spec_defs(text, fns):
    """name -> set of normalised definition texts of spec functions (by short and by qualified name)."""
    defs = {}
    for f in fns:
        h = f['header']
        if re.search(r'\bspec\s+fn\b', h) or re.search(r'\bspec\s*\(\s*checked\s*\)\s*fn\b', h):
            body = _norm(text[f['start']:f['end']])
            # drop attributes / visibility noise that does not change meaning
            body = re.sub(r'^(#\[[^\]]*\])+', '', body)
            defs.setdefault(f['qual_short'], set()).add(body)
    return defs


_IDENT = re.compile(r'[A-Za-z_]\w*')


def _axiom_text(text, fns):
    """Text of everything a unit ASSUMES about its spec vocabulary: external_body / admit proof fns (axioms).  An uninterpreted
    spec function that no axiom mentions is unconstrained: whatever the unit proves holds for EVERY interpretation of it."""
    out = []
    for f in fns:
        attrs = ' '.join(f['attrs'])
        h = f['header']
        body = text[f['start']:f['end']]
        if re.search(r'\bproof\s+fn\b', h) and ('external_body' in attrs or re.search(r'\badmit\s*\(', body) or re.search(r'\bassume\s*\(', body)):
            out.append(body)
        elif re.search(r'\baxiom\b', h):
            out.append(body)
    return set(_IDENT.findall(' '.join(out)))


def _sig_of(defn):
    """`fn name(params) -> ret` of a normalised spec fn definition (modifiers and body dropped)."""
    mm = re.search(r'\bfn\b.*', defn)
    if not mm:
        return None
    t = mm.group(0)
    cut = len(t)
    for stop in ('{', ';', 'decreases', 'recommends', 'when '):
        k = t.find(stop)
        if 0 <= k < cut:
            cut = k
    return t[:cut].strip()


def _uninterp_compatible(n, a, b, stub_axioms):
    """The stub's unit leaves `n` uninterpreted and assumes nothing about it: its proofs hold for every interpretation, in
    particular for the definition the proving unit gives - provided both declare the same signature."""
    short = n.rpartition('::')[2]
    if short in stub_axioms:
        return False
    if not a or not all(re.search(r'\buninterp\b', x) for x in a):
        return False
    sa = set(_sig_of(x) for x in a)
    sb = set(_sig_of(x) for x in b)
    return None not in sa and len(sa) == 1 and sa == sb


def _names_used(texts, sig, *defsets):
    """Keys of spec definitions a clause text can refer to: free spec fns by name, methods `.m(` as every `T::m` /
    `<T as Tr>::m`, and `@` / `.view()` as the View impls of every type named in the signature or in the clause."""
    keys = set()
    for d in defsets:
        keys.update(d)
    blob = ' '.join(texts)
    words = set(_IDENT.findall(blob))
    types = set(_IDENT.findall(sig)) | words
    used = set()
    for k in keys:
        if '::' not in k:
            if k in words:
                used.add(k)
            continue
        ty, _, meth = k.rpartition('::')
        tyname = re.sub(r'^<\s*(\w+).*', r'\1', ty)
        tyname = re.sub(r'<.*', '', tyname)
        if meth == 'view':
            if ('@' in blob or 'view' in words) and tyname in types:
                used.add(k)
        elif meth in words and (re.search(r'\.\s*%s\s*\(' % re.escape(meth), blob) or re.search(r'\b%s\s*::\s*%s\b' % (re.escape(tyname), re.escape(meth)), blob)):
            used.add(k)
    return used


def _closure(names, defs):
    seen, todo = set(), list(names)
    while todo:
        n = todo.pop()
        if n in seen or n not in defs:
            continue
        seen.add(n)
        for body in defs[n]:
            for k in _names_used([body], body, defs):
                if k not in seen:
                    todo.append(k)
    return seen


def analyse_unit(name):
    u = Unit(VERIF, REPO, name, ()).generate()
    text, _spans = u.render()
    fns, _m = scan_fns(text)
    verified_ids = set(f['id'] for f in u.functions)
    info = {'unit': name, 'stubs': {}, 'verified': {}, 'defs': _spec_defs(text, fns), 'axioms': _axiom_text(text, fns)}
    for f in fns:
        attrs = ' '.join(f['attrs'])
        q = f['qual_short']
        if re.search(r'\b(spec|proof)\s+fn\b', f['header']) or 'uninterp' in f['header']:
            continue
        c = None
        if 'external_body' in attrs and f['body_open'] >= 0:
            c = _contract_of(text, f)
            if c is not None:
                c['self_ty'] = q.rpartition('::')[0]
                info['stubs'].setdefault(q, []).append(c)
        elif f['qual'] in verified_ids or q in verified_ids:
            c = _contract_of(text, f)
            if c is not None:
                info['verified'].setdefault(q, []).append(c)
    return info


def _short(q):
    """`Type::f` / `<T as Tr>::f` / `vshim::f` -> comparable key.  Module-level shims never link."""
    return q


def link(units):
    infos = {}
    errors = {}
    for u in units:
        try:
            infos[u] = analyse_unit(u)
        except (GenError, rs.ScanError) as e:
            errors[u] = str(e)[:200]
    provers = {}
    for u, inf in infos.items():
        for q, cs in inf['verified'].items():
            for c in cs:
                provers.setdefault(q, []).append((u, c))
    report = []
    for u, inf in sorted(infos.items()):
        for q, cs in sorted(inf['stubs'].items()):
            if '::' not in q or q.startswith('vshim') or q not in provers:
                continue        # not a stub of a function some unit verifies
            if q in inf['verified']:
                continue
            for s in cs:
                best = None
                for (pu, pc) in provers[q]:
                    if pu == u:
                        continue
                    r = _compare(s, pc, inf['defs'], infos[pu]['defs'], inf['axioms'])
                    r['proved_in'] = pu
                    if best is None or len(r['unlinked_ensures']) + len(r['missing_requires']) + len(r['def_mismatch']) < \
                            len(best['unlinked_ensures']) + len(best['missing_requires']) + len(best['def_mismatch']):
                        best = r
                if best is None:
                    continue
                best.update({'unit': u, 'fn': q})
                report.append(best)
    return report, errors


_TYPE_INVARIANTS = [
    # (clause pattern, type the function must belong to or None, scans that must be clean)
    (re.compile(r'^sds_wf\(\*?(old\()?\w+\)?\)$'), None, ('sds_type_invariant', 'sds_encapsulation')),
    (re.compile(r'^(old\()?self\)?\.inv\(\)$'), 'RedisSortedSet', ('zset_type_invariant',)),
]
_SCAN_CACHE = {}


def _type_invariant_of(clause, self_ty):
    for pat, ty, scans in _TYPE_INVARIANTS:
        if pat.match(clause) and (ty is None or self_ty == ty):
            return scans
    return None


def _scan_clean(scans):
    from . import scans as SC
    ok = True
    for n in scans:
        if n not in _SCAN_CACHE:
            try:
                res = SC.run_scan(REPO, n)
                _SCAN_CACHE[n] = (not res['sites']) and res.get('files_scanned', 0) > 0
            except Exception:
                _SCAN_CACHE[n] = False
        ok = ok and _SCAN_CACHE[n]
    return ok


def _compare(stub, proved, sdefs, pdefs, stub_axioms=frozenset()):
    r = {'linked_ensures': [], 'unlinked_ensures': [], 'missing_requires': [], 'def_mismatch': [], 'param_mismatch': False}
    if stub['params'] != proved['params']:
        # parameter names are bound names: a stub that calls its parameters differently is compared after renaming them, position
        # by position, to the names of the verified signature (only when that cannot capture another identifier of the clauses)
        sp, pp = stub['params'], proved['params']
        words = set(_IDENT.findall(' '.join(stub['requires'] + stub['ensures'])))
        if len(sp) == len(pp) and len(set(sp)) == len(sp) and not any(b in words and b not in sp for b in pp):
            tmp = {a: '\x00%d\x00' % i for i, a in enumerate(sp)}
            def ren(c):
                c = re.sub(r'\b(%s)\b' % '|'.join(re.escape(a) for a in sp), lambda m: tmp[m.group(1)], c) if sp else c
                for i, b in enumerate(pp):
                    c = c.replace('\x00%d\x00' % i, b)
                return c
            stub = dict(stub, requires=[ren(c) for c in stub['requires']], ensures=[ren(c) for c in stub['ensures']])
        else:
            r['param_mismatch'] = True
    pens = set(proved['ensures'])
    for c in stub['ensures']:
        (r['linked_ensures'] if c in pens else r['unlinked_ensures']).append(c)
    sreq = set(stub['requires'])
    r['requires_by_type_invariant'] = []
    for c in proved['requires']:
        if c not in sreq:
            scan = _type_invariant_of(c, stub.get('self_ty', ''))
            if scan is not None and _scan_clean(scan):
                # a representation invariant that a clean type-invariant scan (engine/scans.py) shows to hold for EVERY value of
                # the type: the stub need not demand it
                r['requires_by_type_invariant'].append(c)
            else:
                r['missing_requires'].append(c)
    clauses = r['linked_ensures'] + proved['requires']
    used = _names_used(clauses, stub.get('sig', '') + ' ' + proved.get('sig', '') + ' ' + stub.get('self_ty', ''), sdefs, pdefs)
    for n in sorted(_closure(used, sdefs) | _closure(used, pdefs)):
        a, b = sdefs.get(n), pdefs.get(n)
        if a is None or b is None:
            # defined on one side only: a clause that mentions it cannot be textually shared, so it is not among the linked ones
            continue
        if a != b and not _uninterp_compatible(n, a, b, stub_axioms):
            r['def_mismatch'].append(n)
    r['status'] = 'linked' if not (r['unlinked_ensures'] or r['missing_requires'] or r['def_mismatch'] or r['param_mismatch']) else \
        ('partly linked' if r['linked_ensures'] and not (r['def_mismatch'] or r['param_mismatch']) else 'assumed')
    return r


def registry_units(pids=None):
    reg = json.load(open(os.path.join(VERIF, 'contracts', 'units.json')))
    units = []
    for pid, e in sorted(reg.items()):
        if pids and pid not in pids:
            continue
        for u in e['units']:
            if u not in units:
                units.append(u)
    return units


def report_for(pids=None, all_units=None):
    """Link report restricted to the stubs of the units of `pids`; provers are searched in every registered unit."""
    allu = all_units or registry_units()
    rep, errs = link(allu)
    if pids:
        mine = set(registry_units(pids))
        rep = [r for r in rep if r['unit'] in mine]
    return rep, errs


def main(argv):
    pids = [a for a in argv if re.match(r'C\d+$', a)] or None
    rep, errs = report_for(pids)
    n = {'linked': 0, 'partly linked': 0, 'assumed': 0}
    for r in rep:
        n[r['status']] += 1
    if '--json' in argv:
        print(json.dumps({'report': rep, 'errors': errs}, indent=1))
        return 0
    for r in rep:
        print('%-14s %-16s %-55s proved in %-16s ensures %d/%d%s%s%s' % (
            r['status'], r['unit'], r['fn'], r['proved_in'], len(r['linked_ensures']), len(r['linked_ensures']) + len(r['unlinked_ensures']),
            ('  missing requires %d' % len(r['missing_requires'])) if r['missing_requires'] else '',
            ('  defs differ: ' + ', '.join(r['def_mismatch'][:4])) if r['def_mismatch'] else '',
            '  params differ' if r['param_mismatch'] else ''))
        if '-v' in argv:
            for c in r['unlinked_ensures']:
                print('        assumed only: ' + c[:200])
            for c in r['missing_requires']:
                print('        real precondition not demanded by the stub: ' + c[:200])
    for u, e in errs.items():
        print('unit %s not analysed: %s' % (u, e))
    print('stubs of functions verified elsewhere: %d  linked %d  partly linked %d  assumed %d' % (len(rep), n['linked'], n['partly linked'], n['assumed']))
    return 0


if __name__ == '__main__':
    sys.exit(main(sys.argv[1:]))
