"""Mechanical ownership scans: a struct invariant proved over a type's methods is only meaningful if
nothing else writes the fields.  Each scan lists write sites outside the owning module; every site is a
failed obligation `scan/<name>@<file>:<line>` ("invariant re-established at <site>" is not proved)."""
import os
import re
from . import rustscan as rs

SCANS = {
    'shard_state_encapsulation': {
        'owner': 'src/replication/state/shard_state.rs',
        'what': 'writes to ShardReplicaState.replicated_keys / lamport_clock outside shard_state.rs (wf: the clock dominates every stored stamp)',
        'patterns': [
            r'\breplicated_keys\s*\.\s*(insert|remove|entry|clear|retain|get_mut|extend|drain|iter_mut|values_mut)\s*\(',
            r'\breplicated_keys\s*=[^=]',
            r'\blamport_clock\s*=[^=]',
            r'\blamport_clock\s*\.\s*(tick|update)\s*\(',
            r'\blamport_clock\s*\.\s*time\s*(=[^=]|\+=|-=)',
            r'&\s*mut\s+[\w\.]*\b(replicated_keys|lamport_clock)\b',
        ],
        # only sites that reach a ShardReplicaState: the receiver chain mentions replica_state / ShardReplicaState owner
        'receiver': r'(replica_state|shard_state|\bstate)\s*\.\s*$',
    },
    # The representation invariant of the byte-string type (sds_wf: an Inline value has len <= 23) is pre- and postcondition of
    # every function of sds.rs (units sds_codec / sds_ops).  The variants of a pub enum are public: the invariant holds for every
    # SDS value in the program only if no code outside sds.rs names a variant (builds one, or matches on one and writes through it).
    # This is the frame that lets the other units' SDS stubs omit sds_wf.
    'sds_encapsulation': {
        'owner': 'src/redis/data/sds.rs',
        'what': 'uses of the variants SDS::Inline / SDS::Heap outside sds.rs (sds_wf: representation invariant of the byte-string type)',
        'patterns': [r'\bSDS\s*::\s*(Inline|Heap)\b'],
        'any_receiver': True,
    },
}


def _strip_tests(text, m):
    """blank out #[cfg(test)] items"""
    out = list(m)
    for mm in re.finditer(r'#\s*\[\s*cfg\s*\(\s*test\s*\)\s*\]', m):
        e = rs.stmt_end(m, mm.end(), len(m))
        for k in range(mm.start(), e):
            if out[k] != '\n':
                out[k] = ' '
    return ''.join(out)


def run_scan(repo, name):
    sc = SCANS[name]
    sites = []
    nfiles = 0
    for root, dirs, files in os.walk(os.path.join(repo, 'src')):
        for f in files:
            if not f.endswith('.rs'):
                continue
            path = os.path.join(root, f)
            rel = os.path.relpath(path, repo)
            if rel == sc['owner'] or re.search(r'(_tests?|tests)\.rs$', rel):
                continue
            text = open(path, encoding='utf-8', errors='replace').read()
            try:
                m = _strip_tests(text, rs.mask(text))
            except rs.ScanError:
                continue
            nfiles += 1
            for pat in sc['patterns']:
                for mm in re.finditer(pat, m):
                    # receiver chain immediately before the field name
                    pre = m[max(0, mm.start() - 80):mm.start()]
                    pre = re.sub(r'\s+', '', pre)
                    if not sc.get('any_receiver') and not re.search(r'(replica_state|shard_state|state)\.$', pre) and not re.search(r'&mut', m[mm.start():mm.start() + 5]):
                        # `self.replicated_keys` inside another type that has its own field of that name
                        continue
                    line = text.count('\n', 0, mm.start()) + 1
                    sites.append({'file': rel, 'line': line, 'text': ' '.join(text[mm.start() - 40 if mm.start() > 40 else 0:mm.end() + 30].split())})
    uniq = {}
    for s in sites:
        uniq[(s['file'], s['line'])] = s
    return {'name': name, 'what': sc['what'], 'files_scanned': nfiles, 'sites': sorted(uniq.values(), key=lambda s: (s['file'], s['line']))}
