"""Mechanical ownership scans: a struct invariant proved over a type's methods is only meaningful if
nothing else writes the fields.  Each scan lists write sites outside the owning module; every site is a
failed obligation `scan/<name>@<file>:<line>` ("invariant re-established at <site>" is not proved)."""
import os
import re
from . import rustscan as rs

SCANS = {
    'shard_state_encapsulation': {
        'owner': 'src/replication/state/shard_state.rs',
        'what': 'writes to ShardReplicaState.replicated_keys / lamport_clock outside shard_state.rs (wf: the clock dominates every stored stamp)',
        'patterns': [
            r'\breplicated_keys\s*\.\s*(insert|remove|entry|clear|retain|get_mut|extend|drain|iter_mut|values_mut)\s*\(',
            r'\breplicated_keys\s*=[^=]',
            r'\blamport_clock\s*=[^=]',
            r'\blamport_clock\s*\.\s*(tick|update)\s*\(',
            r'\blamport_clock\s*\.\s*time\s*(=[^=]|\+=|-=)',
            r'&\s*mut\s+[\w\.]*\b(replicated_keys|lamport_clock)\b',
        ],
        # only sites that reach a ShardReplicaState: the receiver chain mentions replica_state / ShardReplicaState owner
        'receiver': r'(replica_state|shard_state|\bstate)\s*\.\s*$',
        # a write site outside shard_state.rs loses the FRAME of wf (the new site may well re-establish it): undecided; the replay
        # batteries of the property's units, which run on every check, turn a real stamp regression into a violation with an input
        'frame_only': True,
    },
    # The representation invariant of the byte-string type (sds_wf: an Inline value has len <= 23) is pre- and postcondition of
    # every function of sds.rs (units sds_codec / sds_ops).  The variants of a pub enum are public: the invariant holds for every
    # SDS value in the program only if no code outside sds.rs names a variant (builds one, or matches on one and writes through it).
    # This is the frame that lets the other units' SDS stubs omit sds_wf.
    'sds_encapsulation': {
        'owner': 'src/redis/data/sds.rs',
        'what': 'uses of the variants SDS::Inline / SDS::Heap outside sds.rs (sds_wf: representation invariant of the byte-string type)',
        'patterns': [r'\bSDS\s*::\s*(Inline|Heap)\b'],
        'any_receiver': True,
        # naming a variant outside sds.rs loses the FRAME of the invariant (a match that only reads is harmless): undecided, never an alarm
        'frame_only': True,
    },
    # TYPE INVARIANTS.  A representation invariant that a unit states as pre- and postcondition of a type's methods holds for
    # every value of the type in the program - so callers (and the other units' contract-only stubs) need not demand it - iff
    # (1) the fields are private to the defining file (Rust privacy then confines construction and mutation to that file), and
    # (2) EVERY function of the defining file that can create or change a value of the type (a `&mut self` / `self` method, a
    # function returning Self or the type, in inherent and trait impls alike) is verified in one of the named units with the
    # invariant among its postconditions.  Each violation of (1) or (2) is a site.  Derived impls (Clone, Default) have no body:
    # they are listed as assumed.
    'zset_type_invariant': {
        'kind': 'type_invariant', 'owner': 'src/redis/data/sorted_set.rs', 'type': 'RedisSortedSet', 'inv': r'\binv\(\)',
        'units': ['zset_container', 'sds_ops'],
        'what': 'RedisSortedSet.inv() (map and skip list hold the same members with the same, non-NaN scores) as a type invariant: private fields, every creating / mutating function of sorted_set.rs verified with inv() among its postconditions',
    },
    'sds_type_invariant': {
        'kind': 'type_invariant', 'owner': 'src/redis/data/sds.rs', 'type': 'SDS', 'inv': r'\bsds_wf\(',
        'units': ['sds_codec', 'sds_ops'], 'enum_ok': True,
        # a trait-impl method takes its contract from the trait-level spec (Verus allows no ensures on the impl method)
        'via': {'<SDS as Deserialize>::deserialize': r'fn\s+de_ok\b[^}]*sds_wf\('},
        'what': 'sds_wf (an Inline value holds at most 23 bytes) as a type invariant of SDS: every creating / mutating function of sds.rs verified with sds_wf among its postconditions (the variants of the enum are public: scan sds_encapsulation shows nothing outside sds.rs names them)',
    },
}


def _strip_tests(text, m):
    """blank out #[cfg(test)] items"""
    out = list(m)
    for mm in re.finditer(r'#\s*\[\s*cfg\s*\(\s*test\s*\)\s*\]', m):
        e = rs.stmt_end(m, mm.end(), len(m))
        for k in range(mm.start(), e):
            if out[k] != '\n':
                out[k] = ' '
    return ''.join(out)


def run_scan(repo, name):
    sc = SCANS[name]
    if sc.get('kind') == 'type_invariant':
        return _run_type_invariant(repo, name, sc)
    sites = []
    nfiles = 0
    for root, dirs, files in os.walk(os.path.join(repo, 'src')):
        for f in files:
            if not f.endswith('.rs'):
                continue
            path = os.path.join(root, f)
            rel = os.path.relpath(path, repo)
            if rel == sc['owner'] or re.search(r'(_tests?|tests)\.rs$', rel):
                continue
            text = open(path, encoding='utf-8', errors='replace').read()
            try:
                m = _strip_tests(text, rs.mask(text))
            except rs.ScanError:
                continue
            nfiles += 1
            for pat in sc['patterns']:
                for mm in re.finditer(pat, m):
                    # receiver chain immediately before the field name
                    pre = m[max(0, mm.start() - 80):mm.start()]
                    pre = re.sub(r'\s+', '', pre)
                    if not sc.get('any_receiver') and not re.search(r'(replica_state|shard_state|state)\.$', pre) and not re.search(r'&mut', m[mm.start():mm.start() + 5]):
                        # `self.replicated_keys` inside another type that has its own field of that name
                        continue
                    line = text.count('\n', 0, mm.start()) + 1
                    sites.append({'file': rel, 'line': line, 'text': ' '.join(text[mm.start() - 40 if mm.start() > 40 else 0:mm.end() + 30].split())})
    uniq = {}
    for s in sites:
        uniq[(s['file'], s['line'])] = s
    return {'name': name, 'what': sc['what'], 'files_scanned': nfiles, 'sites': sorted(uniq.values(), key=lambda s: (s['file'], s['line']))}


def _run_type_invariant(repo, name, sc):
    """See the comment at SCANS['zset_type_invariant']."""
    from .gen import Unit, GenError
    from .run import scan_fns, VERIF
    sites = []
    path = os.path.join(repo, sc['owner'])
    text = open(path, encoding='utf-8', errors='replace').read()
    m = _strip_tests(text, rs.mask(text))
    ty = sc['type']
    # (1) private fields
    decl = None
    for it in rs.items(text, m):
        if it.kind in ('struct', 'enum') and it.name == ty:
            decl = it
    if decl is None:
        return {'name': name, 'what': sc['what'], 'files_scanned': 0, 'sites': [], 'note': 'type not found'}
    if decl.kind == 'struct' and decl.body_open >= 0:
        body = m[decl.body_open + 1:decl.end - 1]
        for mm in re.finditer(r'(^|[,{\n])\s*(pub(\s*\([^)]*\))?)\s+(\w+)\s*:', body):
            line = text.count('\n', 0, decl.body_open + 1 + mm.start(2)) + 1
            sites.append({'file': sc['owner'], 'line': line, 'text': 'field `%s` of %s is not private to the defining file' % (mm.group(4), ty)})
    elif decl.kind == 'enum' and not sc.get('enum_ok'):
        sites.append({'file': sc['owner'], 'line': text.count('\n', 0, decl.start) + 1, 'text': 'enum variants are public'})
    # verified functions of the proving units, with their contract text
    verified = {}
    for u in sc['units']:
        try:
            un = Unit(VERIF, repo, u, ()).generate()
            gtext, _sp = un.render()
        except (GenError, rs.ScanError) as e:
            return {'name': name, 'what': sc['what'], 'files_scanned': 0, 'sites': [], 'note': 'unit %s could not be generated: %s' % (u, str(e)[:120])}
        ids = set(f['id'] for f in un.functions if f['file'] == sc['owner'])
        fns, _gm = scan_fns(gtext)
        for q, pat in sc.get('via', {}).items():
            if q in ids and re.search(pat, gtext, flags=re.S):
                verified.setdefault(q, []).append(re.search(pat, gtext, flags=re.S).group(0))
        for f in fns:
            if f['qual'] in ids or f['qual_short'] in ids:
                hdr = gtext[f['start']:(f['body_open'] if f['body_open'] >= 0 else f['end'])]
                k = hdr.find('ensures')
                verified.setdefault(f['qual_short'], []).append(hdr[k:] if k >= 0 else '')
    # (2) every creating / mutating function of the defining file
    derived = []
    for mm in re.finditer(r'#\s*\[\s*derive\s*\(([^)]*)\)\s*\]', m[max(0, decl.start - 200):decl.decl + 1]):
        derived += [d.strip() for d in mm.group(1).split(',') if d.strip() in ('Clone', 'Default')]
    checked = 0

    def walk(lo, hi, prefix):
        nonlocal checked
        for it in rs.items(text, m, lo, hi):
            if it.kind == 'impl' and it.body_open >= 0 and it.name == ty:
                q = ('<%s as %s>::' % (ty, it.trait)) if it.trait else ty + '::'
                walk(it.body_open + 1, it.end - 1, q)
            elif it.kind == 'fn' and prefix:
                if any('debug_assertions' in c and 'not' not in c for c in (it.cfgs or [])):
                    continue
                parts = rs.fn_parts(text, m, it)
                params = m[parts[1] + 1:parts[2]]
                ret = m[parts[4]:parts[5]] if parts[3] >= 0 else ''
                mutates = re.search(r'&\s*(\'\w+\s+)?mut\s+self\b', params) or re.match(r'\s*(mut\s+)?self\b', params)
                creates = re.search(r'\b(Self|%s)\b' % re.escape(ty), ret) is not None
                if not (mutates or creates):
                    continue
                checked += 1
                q = prefix + it.name
                line = text.count('\n', 0, it.decl) + 1
                if q not in verified:
                    sites.append({'file': sc['owner'], 'line': line, 'text': '%s can create or change a %s and is not verified in %s' % (q, ty, ' / '.join(sc['units']))})
                elif not any(re.search(sc['inv'], e) for e in verified[q]):
                    sites.append({'file': sc['owner'], 'line': line, 'text': '%s is verified but its postcondition does not re-establish the invariant' % q})
    walk(0, len(text), '')
    return {'name': name, 'what': sc['what'], 'files_scanned': 1 if checked else 0, 'functions_checked': checked,
            'assumed_derived_impls': sorted(set(derived)), 'sites': sites}
