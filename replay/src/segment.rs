//! Unit `segment` (C14): SegmentWriter -> SegmentReader round trip; every single-byte corruption / truncation of the
//! encoded segment makes open / validate / read_all return Err or yield exactly the written deltas (never different
//! data); a record_count that disagrees with the record data is an error.
use crate::deltas::{crc32, delta_id, gen_delta_auto, show_delta};
use crate::rng::Rng;
use crate::Found;
use redis_sim::replication::state::ReplicationDelta;
use redis_sim::streaming::segment::{Compression, SegmentReader, SegmentWriter};
use std::panic::catch_unwind;

const HEADER: usize = 40;
const FOOTER: usize = 24;

/// the consumer pipeline: open, validate, read_all.  Ok(deltas) | Err(stage: message) ; outer Err = panic
fn read(img: &[u8]) -> Result<Result<Vec<ReplicationDelta>, String>, String> {
    let img = img.to_vec();
    catch_unwind(move || {
        let r = SegmentReader::open(&img).map_err(|e| format!("open: {}", e))?;
        r.validate().map_err(|e| format!("validate: {}", e))?;
        r.read_all().map_err(|e| format!("read_all: {}", e))
    }).map_err(|e| e.downcast_ref::<String>().cloned().or_else(|| e.downcast_ref::<&str>().map(|s| s.to_string())).unwrap_or_default())
}

fn ids(ds: &[ReplicationDelta]) -> Vec<String> { ds.iter().map(delta_id).collect() }
fn brief(ds: &[ReplicationDelta]) -> String { format!("{} updates [{}]", ds.len(), ds.iter().take(4).map(show_delta).collect::<Vec<_>>().join(", ")) }

fn region(at: usize, len: usize) -> &'static str {
    if at < 4 { "header magic" } else if at == 4 { "header version" } else if at == 5 { "header flags" } else if at < 10 { "header record_count" }
    else if at < 18 { "header min_timestamp" } else if at < 26 { "header max_timestamp" } else if at < 30 { "header checksum" } else if at < HEADER { "header padding" }
    else if at < len - FOOTER { "record data" } else if at < len - 20 { "footer data checksum" } else if at < len - 12 { "footer uncompressed_size" } else if at < len - 4 { "footer compressed_size" } else { "footer magic" }
}

fn build(ds: &[ReplicationDelta]) -> Result<Vec<u8>, String> {
    let mut w = SegmentWriter::new(Compression::None);
    for d in ds { w.write_delta(d).map_err(|e| e.to_string())?; }
    if w.record_count() != ds.len() || w.is_empty() != ds.is_empty() { return Err(format!("writer reports {} records", w.record_count())); }
    w.finish().map_err(|e| e.to_string())
}

fn check(ds: &[ReplicationDelta], rng: &mut Rng, exhaustive: bool, strict_trailing: bool) -> Option<Found> {
    let want = ids(ds);
    let img = match build(ds) { Ok(i) => i, Err(e) => return Some(Found { input: format!("SegmentWriter over {}", brief(ds)), observed: format!("Err({})", e), required: "an encoded segment".into() }) };
    // layout facts the reader relies on
    let min = ds.iter().map(|d| d.value.timestamp.time).min().unwrap_or(0);
    let max = ds.iter().map(|d| d.value.timestamp.time).max().unwrap_or(0);
    match catch_unwind(|| SegmentReader::open(&img).map(|r| (r.header().record_count, r.header().min_timestamp, r.header().max_timestamp, r.footer().data_checksum, r.segment().size_bytes()))) {
        Ok(Ok((c, lo, hi, ck, sz))) if c as usize == ds.len() && lo == min && hi == max && ck == crc32(&img[HEADER..img.len() - FOOTER]) && sz == img.len() => {}
        other => return Some(Found { input: format!("segment of {}", brief(ds)), observed: format!("open -> {:?}", other.map(|r| r.map_err(|e| e.to_string()))), required: format!("record_count={} min={} max={} data crc={:08x} size={}", ds.len(), min, max, crc32(&img[HEADER..img.len() - FOOTER]), img.len()) }),
    }
    match read(&img) {
        Ok(Ok(got)) if ids(&got) == want => {}
        other => return Some(Found { input: format!("round trip of {}", brief(ds)), observed: format!("{:?}", other.map(|r| r.map(|g| brief(&g)))), required: "exactly the written updates, in order".into() }),
    }
    let verdict = |what: String, r: Result<Result<Vec<ReplicationDelta>, String>, String>| -> Option<Found> {
        match r {
            Ok(Err(_)) => None,
            Ok(Ok(got)) if ids(&got) == want => None,
            Ok(Ok(got)) => Some(Found { input: format!("segment of {} ({} bytes) with {}", brief(ds), img.len(), what), observed: format!("open, validate and read_all succeed and yield {}", brief(&got)), required: "an error, or exactly the written updates - never different data".into() }),
            Err(m) => Some(Found { input: format!("segment of {} ({} bytes) with {}", brief(ds), img.len(), what), observed: format!("panic: {}", m), required: "an error".into() }),
        }
    };
    // truncations (every length for small images)
    let cuts: Vec<usize> = if exhaustive || img.len() < 600 { (0..img.len()).collect() } else { let mut c: Vec<usize> = (0..80).collect(); c.extend((img.len() - 80)..img.len()); c.extend((0..150).map(|_| rng.below(img.len() as u64) as usize)); c };
    for cut in cuts { if let Some(f) = verdict(format!("the image truncated to {} bytes", cut), read(&img[..cut])) { return Some(f); } }
    // every single-byte corruption: one bit, all bits, and a random other value
    let positions: Vec<usize> = if exhaustive || img.len() < 600 { (0..img.len()).collect() } else { let mut p: Vec<usize> = (0..HEADER + 40).collect(); p.extend((img.len() - FOOTER - 20)..img.len()); p.extend((0..300).map(|_| rng.below(img.len() as u64) as usize)); p };
    let mut work = img.clone();
    for at in positions {
        let orig = work[at];
        for v in [orig ^ (1 << rng.below(8)), orig ^ 0xff, (rng.next() & 0xff) as u8, 0u8] {
            if v == orig { continue; }
            work[at] = v;
            let r = read(&work);
            work[at] = orig;
            if let Some(f) = verdict(format!("byte {} ({}) changed from {:#04x} to {:#04x}", at, region(at, img.len()), orig, v), r) { return Some(f); }
        }
    }
    // bytes appended / removed in front of the footer, garbage after the image
    let mut longer = img.clone(); longer.extend_from_slice(&[0u8; 7]);
    if let Some(f) = verdict("7 zero bytes appended".to_string(), read(&longer)) { return Some(f); }
    let mut twice = img.clone(); twice.extend_from_slice(&img);
    if let Some(f) = verdict("the same image appended to itself".to_string(), read(&twice)) { return Some(f); }
    // a record_count that disagrees with the records (header checksum recomputed, so only the count is inconsistent)
    // count > records: must be an error (contract of DeltaIterator::next: exactly record_count items or an error).
    // count < records (trailing records silently ignored) needs a forged header checksum, is not reachable by
    // truncation / bit corruption and is accepted by the contract; it is only checked on request (strict_trailing).
    for delta_count in [1i64, 2, 1000, -1] {
        let c = ds.len() as i64 + delta_count;
        if c < 0 || (delta_count < 0 && !strict_trailing) { continue; }
        let mut x = img.clone();
        x[6..10].copy_from_slice(&(c as u32).to_le_bytes());
        let mut crc_in = Vec::new(); crc_in.extend_from_slice(&x[0..4]); crc_in.extend_from_slice(&x[4..6]); crc_in.extend_from_slice(&x[6..10]); crc_in.extend_from_slice(&x[10..18]); crc_in.extend_from_slice(&x[18..26]);
        let ck = crc32(&crc_in);
        x[26..30].copy_from_slice(&ck.to_le_bytes());
        match read(&x) {
            Ok(Err(_)) => {}
            Ok(Ok(got)) => return Some(Found { input: format!("segment of {} whose header says record_count={} (header checksum consistent)", brief(ds), c), observed: format!("open, validate and read_all succeed and yield {} updates", got.len()), required: "an error: the record count disagrees with the record data".into() }),
            Err(m) => return Some(Found { input: format!("segment of {} whose header says record_count={}", brief(ds), c), observed: format!("panic: {}", m), required: "an error".into() }),
        }
    }
    None
}

pub fn search(_pid: &str, oid: &str, seed: u64) -> Option<Found> {
    let mut rng = Rng::new(seed + 14);
    let strict = oid.contains("trailing") || std::env::var("VERIF_SEGMENT_STRICT").map(|v| v == "1").unwrap_or(false);
    // empty writer
    match catch_unwind(|| SegmentWriter::new(Compression::None).finish()) {
        Ok(Err(_)) => {}
        other => return Some(Found { input: "SegmentWriter::new().finish() without any delta".into(), observed: format!("{:?}", other.map(|r| r.map(|b| b.len()).map_err(|e| e.to_string()))), required: "Err(Empty)".into() }),
    }
    // structured: one update of every kind alone, then all kinds together, exhaustive damage
    for kind in 0..crate::deltas::KINDS {
        let d = gen_delta_auto(&mut rng, kind);
        if let Some(f) = check(&[d], &mut rng, kind != 3, strict) { return Some(f); }
    }
    let all: Vec<ReplicationDelta> = (0..crate::deltas::KINDS).filter(|k| *k != 3).map(|k| gen_delta_auto(&mut rng, k)).collect();
    if let Some(f) = check(&all, &mut rng, true, strict) { return Some(f); }
    // seeded random batches
    for it in 0..60u64 {
        let n = 1 + rng.below(if it % 10 == 0 { 120 } else { 12 });
        let ds: Vec<ReplicationDelta> = (0..n).map(|i| gen_delta_auto(&mut rng, 10 + i)).collect();
        if let Some(f) = check(&ds, &mut rng, false, strict) { return Some(f); }
    }
    None
}
