//! Unit `sync_exchange` (C18): the REAL MultiNodeSimulation::run_anti_entropy_sync between two simulated nodes.
//! Both nodes write (overlapping keys, newer on either side, keys on one side only, deletes) while nothing is gossiped; then ONE
//! exchange runs.  Required (the divergent keys fit under max_keys_per_sync = 1000): every key holds, on BOTH sides, an
//! observationally equal value that is merge(A0[k], B0[k]); the executors serve that value (GET); third nodes are untouched;
//! a second exchange changes nothing and the digests agree.
use crate::lattice::obs;
use crate::rng::Rng;
use crate::Found;
use redis_sim::redis::{Command, RespValue, SDS};
use redis_sim::replication::state::ReplicatedValue;
use redis_sim::simulator::multi_node::MultiNodeSimulation;
use std::collections::BTreeMap;

fn snapshot(sim: &MultiNodeSimulation, n: usize) -> BTreeMap<String, ReplicatedValue> {
    sim.nodes[n].replica_state.replicated_keys.iter().map(|(k, v)| (k.clone(), v.clone())).collect()
}
fn show(m: &BTreeMap<String, ReplicatedValue>, k: &str) -> String { m.get(k).map(obs).unwrap_or_else(|| "(absent)".into()) }

pub fn search(_pid: &str, _oid: &str, seed: u64) -> Option<Found> {
    let mut rng = Rng::new(seed + 1818);
    for it in 0..120u64 {
        let nn = 2 + rng.below(2) as usize;
        let mut sim = MultiNodeSimulation::new(nn, seed * 1000 + it);
        let nkeys = 1 + rng.below(12);
        let mut script = Vec::new();
        let nops = 1 + rng.below(30);
        for _ in 0..nops {
            let node = rng.below(2) as usize;
            let k = format!("k{}", rng.below(nkeys));
            if rng.chance(1, 5) { sim.nodes[node].execute(&Command::del(k.clone())); script.push(format!("n{} DEL {}", node, k)); }
            else { let v = format!("v{}", rng.below(1000)); sim.nodes[node].execute(&Command::set(k.clone(), SDS::from_str(&v))); script.push(format!("n{} SET {} {}", node, k, v)); }
        }
        // the pending gossip is dropped (a partition): only anti-entropy can reconcile
        for n in 0..nn { let _ = sim.nodes[n].drain_deltas(); }
        let (a0, b0) = (snapshot(&sim, 0), snapshot(&sim, 1));
        let third0 = if nn > 2 { Some(snapshot(&sim, 2)) } else { None };
        sim.run_anti_entropy_sync(0, 1);
        let (a1, b1) = (snapshot(&sim, 0), snapshot(&sim, 1));
        let input = || format!("{} nodes; [{}]; gossip dropped; run_anti_entropy_sync(0, 1)", nn, script.join("; "));
        let mut keys: Vec<&String> = a0.keys().chain(b0.keys()).collect(); keys.sort(); keys.dedup();
        for k in keys {
            let want = match (a0.get(k), b0.get(k)) { (Some(x), Some(y)) => x.merge(y), (Some(x), None) => x.clone(), (None, Some(y)) => y.clone(), _ => continue };
            for (side, m) in [("node 0", &a1), ("node 1", &b1)] {
                if m.get(k).map(obs) != Some(obs(&want)) {
                    return Some(Found { input: input(), observed: format!("{} holds {} = {}", side, k, show(m, k)), required: format!("merge(prior of node 0 = {}, prior of node 1 = {}) = {}", show(&a0, k), show(&b0, k), obs(&want)) });
                }
            }
            // what the replica serves is what its replication state says
            for n in 0..2usize {
                let got = sim.nodes[n].executor.execute(&Command::Get(k.clone()));
                let exp = if want.is_tombstone() { RespValue::BulkString(None) } else { match want.get() { Some(s) => RespValue::BulkString(Some(s.as_bytes().to_vec())), None => continue } };
                if got != exp { return Some(Found { input: input(), observed: format!("node {} GET {} -> {:?}", n, k, got), required: format!("{:?} (the merged value)", exp) }); }
            }
        }
        if let Some(t0) = third0 { let t1 = snapshot(&sim, 2); if t0.iter().map(|(k, v)| (k.clone(), obs(v))).collect::<Vec<_>>() != t1.iter().map(|(k, v)| (k.clone(), obs(v))).collect::<Vec<_>>() {
            return Some(Found { input: input(), observed: "node 2 changed".into(), required: "an exchange between nodes 0 and 1 touches nobody else".into() }); } }
        if sim.nodes[0].generate_digest().differs_from(&sim.nodes[1].generate_digest()) {
            return Some(Found { input: input(), observed: "the digests of node 0 and node 1 still differ after the exchange".into(), required: "equal states digest equal".into() });
        }
    }
    None
}
