//! Unit `cmd_parse_opts` (C16, first sentence): "The two RESP command parsers accept exactly the same frames and produce the same
//! command or the same error text for each" - for the 13 commands whose arguments are parsed by loops (SET EXPIRE PEXPIRE MSET
//! MSETNX HSET ZADD ZRANGEBYSCORE SCAN HSCAN ZSCAN GETEX SORT).
//! Every frame of the battery is given to BOTH real parsers (`Command::from_resp` over RespValue, `Command::from_resp_zero_copy`
//! over RespValueZeroCopy) and to an executable transcription of the unit's specification grammar
//! (contracts/cmd_parse_opts/grammar_loops.vt: option list = left-to-right fold, first offending argument decides the error).
//! A frame on which a parser panics, or on which its result (the command's Debug text or the error text) is not the grammar's,
//! is a witness; so is every frame on which the two parsers differ from each other.
//! Battery: per command, the fixed prefix in all arities from 1 on, followed by EVERY option list of length 0..=3 over the
//! command's option alphabet (keywords in upper / lower / mixed case, foreign keywords, numbers at and beyond the i64 / isize /
//! u64 limits, floats incl. nan / inf, empty and non-UTF-8 arguments, integer and non-bulk elements), then seeded random frames
//! of length up to 12 over the same alphabet.
use crate::rng::Rng;
use crate::Found;
use bytes::Bytes;
use redis_sim::redis::{Command, RespValue, RespValueZeroCopy, SDS};
use std::panic::{catch_unwind, AssertUnwindSafe};

#[derive(Clone, Debug)]
enum El { Bulk(Vec<u8>), Int(i64), Other(u8) }

fn b(s: &str) -> El { El::Bulk(s.as_bytes().to_vec()) }

fn to_resp(e: &[El]) -> RespValue {
    RespValue::Array(Some(e.iter().map(|x| match x {
        El::Bulk(d) => RespValue::BulkString(Some(d.clone())),
        El::Int(n) => RespValue::Integer(*n),
        El::Other(0) => RespValue::BulkString(None),
        El::Other(1) => RespValue::SimpleString("EX".into()),
        El::Other(_) => RespValue::Array(Some(vec![])),
    }).collect()))
}
fn to_zc(e: &[El]) -> RespValueZeroCopy {
    RespValueZeroCopy::Array(Some(e.iter().map(|x| match x {
        El::Bulk(d) => RespValueZeroCopy::BulkString(Some(Bytes::copy_from_slice(d))),
        El::Int(n) => RespValueZeroCopy::Integer(*n),
        El::Other(0) => RespValueZeroCopy::BulkString(None),
        El::Other(1) => RespValueZeroCopy::SimpleString(Bytes::from_static(b"EX")),
        El::Other(_) => RespValueZeroCopy::Array(Some(vec![])),
    }).collect()))
}
fn show_frame(e: &[El]) -> String {
    e.iter().map(|x| match x {
        El::Bulk(d) => {
            let mut o = String::from("\"");
            for &c in d { if (0x20..0x7f).contains(&c) && c != b'"' && c != b'\\' { o.push(c as char); } else { o.push_str(&format!("\\x{:02x}", c)); } }
            o.push('"');
            o
        }
        El::Int(n) => format!(":{}", n),
        El::Other(0) => "$-1".to_string(),
        El::Other(1) => "+EX".to_string(),
        El::Other(_) => "*0".to_string(),
    }).collect::<Vec<_>>().join(" ")
}
fn show(r: &Result<Command, String>) -> String {
    match r { Ok(c) => format!("Ok({:?})", c), Err(e) => format!("Err({:?})", e) }
}

// ---------------------------------------------------------------- the grammar (executable transcription) ----------------------------------------------------------------
const INT_ERR: &str = "ERR value is not an integer or out of range";
fn lossy(d: &[u8]) -> String { String::from_utf8_lossy(d).to_string() }
fn x_string(e: &El) -> Result<String, String> { match e { El::Bulk(d) => Ok(lossy(d)), _ => Err("Expected bulk string".into()) } }
fn x_sds(e: &El) -> Result<SDS, String> { match e { El::Bulk(d) => Ok(SDS::new(d.clone())), _ => Err("Expected bulk string".into()) } }
fn x_integer(e: &El) -> Result<isize, String> {
    match e { El::Bulk(d) => lossy(d).parse::<isize>().map_err(|_| INT_ERR.to_string()), El::Int(n) => Ok(*n as isize), _ => Err(INT_ERR.into()) }
}
fn x_i64(e: &El) -> Result<i64, String> {
    match e { El::Bulk(d) => lossy(d).parse::<i64>().map_err(|_| INT_ERR.to_string()), El::Int(n) => Ok(*n), _ => Err(INT_ERR.into()) }
}
fn x_u64(e: &El) -> Result<u64, String> {
    match e { El::Bulk(d) => lossy(d).parse::<u64>().map_err(|e| e.to_string()), El::Int(n) => Ok(*n as u64), _ => Err("Expected unsigned integer".into()) }
}
fn x_float(e: &El) -> Result<f64, String> {
    let bad = || "ERR value is not a valid float".to_string();
    match e { El::Bulk(d) => lossy(d).parse::<f64>().ok().filter(|v| !v.is_nan()).ok_or_else(bad), _ => Err(bad()) }
}
fn kw(e: &El) -> Result<String, String> { Ok(x_string(e)?.to_uppercase()) }
fn opt_i64(e: &[El], i: usize, missing: &str) -> Result<i64, String> { if i + 1 >= e.len() { Err(missing.to_string()) } else { x_i64(&e[i + 1]) } }

fn g_set(e: &[El]) -> Result<Command, String> {
    if e.len() < 3 { return Err("SET requires at least 2 arguments".into()); }
    let key = x_string(&e[1])?;
    let value = x_sds(&e[2])?;
    let (mut ex, mut px, mut exat, mut pxat, mut nx, mut xx, mut get, mut keepttl) = (None, None, None, None, false, false, false, false);
    let mut i = 3;
    while i < e.len() {
        let o = kw(&e[i])?;
        match o.as_str() {
            "NX" => { nx = true; i += 1; }
            "XX" => { xx = true; i += 1; }
            "GET" => { get = true; i += 1; }
            "KEEPTTL" => { keepttl = true; i += 1; }
            "EX" => { ex = Some(opt_i64(e, i, "SET EX requires a value")?); i += 2; }
            "PX" => { px = Some(opt_i64(e, i, "SET PX requires a value")?); i += 2; }
            "EXAT" => { exat = Some(opt_i64(e, i, "SET EXAT requires a value")?); i += 2; }
            "PXAT" => { pxat = Some(opt_i64(e, i, "SET PXAT requires a value")?); i += 2; }
            "IFEQ" | "IFGT" => return Err(format!("SET {} option not yet supported", o)),
            _ => return Err("ERR syntax error".into()),
        }
    }
    if nx && xx { return Err("ERR XX and NX options at the same time are not compatible".into()); }
    if keepttl && (ex.is_some() || px.is_some() || exat.is_some() || pxat.is_some()) { return Err("ERR syntax error".into()); }
    Ok(Command::Set { key, value, ex, px, exat, pxat, nx, xx, get, keepttl })
}
fn g_expire(e: &[El], ms: bool) -> Result<Command, String> {
    if e.len() < 3 { return Err(if ms { "PEXPIRE requires at least 2 arguments" } else { "EXPIRE requires at least 2 arguments" }.into()); }
    let key = x_string(&e[1])?;
    let t = x_integer(&e[2])? as i64;
    let (mut nx, mut xx, mut gt, mut lt) = (false, false, false, false);
    for a in &e[3..] {
        let o = kw(a)?;
        match o.as_str() { "NX" => nx = true, "XX" => xx = true, "GT" => gt = true, "LT" => lt = true, _ => return Err(format!("ERR Unsupported option {}", o)) }
    }
    if nx && (xx || gt || lt) { return Err("ERR NX and XX, GT or LT options at the same time are not compatible".into()); }
    if gt && lt { return Err("ERR GT and LT options at the same time are not compatible".into()); }
    Ok(if ms { Command::PExpire { key, milliseconds: t, nx, xx, gt, lt } } else { Command::Expire { key, seconds: t, nx, xx, gt, lt } })
}
fn g_mset(e: &[El], nx: bool) -> Result<Command, String> {
    if e.len() < 3 || (e.len() - 1) % 2 != 0 {
        return Err(if nx { "ERR wrong number of arguments for 'msetnx' command" } else { "ERR wrong number of arguments for 'mset' command" }.into());
    }
    let mut p = Vec::new();
    for c in e[1..].chunks(2) { p.push((x_string(&c[0])?, x_sds(&c[1])?)); }
    Ok(if nx { Command::MSetNx(p) } else { Command::MSet(p) })
}
fn g_hset(e: &[El]) -> Result<Command, String> {
    if e.len() < 4 || (e.len() - 2) % 2 != 0 { return Err("HSET requires key and field-value pairs".into()); }
    let key = x_string(&e[1])?;
    let mut p = Vec::new();
    for c in e[2..].chunks(2) { p.push((x_sds(&c[0])?, x_sds(&c[1])?)); }
    Ok(Command::HSet(key, p))
}
fn g_zadd(e: &[El]) -> Result<Command, String> {
    if e.len() < 4 { return Err("ZADD requires key and score-member pairs".into()); }
    let key = x_string(&e[1])?;
    let (mut nx, mut xx, mut gt, mut lt, mut ch) = (false, false, false, false, false);
    let mut i = 2;
    while i < e.len() {
        match kw(&e[i])?.as_str() { "NX" => nx = true, "XX" => xx = true, "GT" => gt = true, "LT" => lt = true, "CH" => ch = true, _ => break }
        i += 1;
    }
    if (e.len() - i) % 2 != 0 || i >= e.len() { return Err("ZADD requires score-member pairs".into()); }
    let mut pairs = Vec::new();
    for c in e[i..].chunks(2) { pairs.push((x_float(&c[0])?, x_sds(&c[1])?)); }
    Ok(Command::ZAdd { key, pairs, nx, xx, gt, lt, ch })
}
fn g_zrangebyscore(e: &[El]) -> Result<Command, String> {
    if e.len() < 4 { return Err("ZRANGEBYSCORE requires at least 3 arguments".into()); }
    let key = x_string(&e[1])?;
    let min = x_string(&e[2])?;
    let max = x_string(&e[3])?;
    let (mut with_scores, mut limit) = (false, None);
    let mut i = 4;
    while i < e.len() {
        let o = kw(&e[i])?;
        match o.as_str() {
            "WITHSCORES" => { with_scores = true; i += 1; }
            "LIMIT" => {
                if i + 2 >= e.len() { return Err("LIMIT requires offset and count".into()); }
                limit = Some((x_integer(&e[i + 1])?, x_integer(&e[i + 2])? as usize));
                i += 3;
            }
            _ => return Err(format!("Unknown ZRANGEBYSCORE option: {}", o)),
        }
    }
    Ok(Command::ZRangeByScore { key, min, max, with_scores, limit })
}
fn scan_opts(e: &[El], from: usize, name: &str) -> Result<(Option<String>, Option<usize>), String> {
    let (mut pattern, mut count) = (None, None);
    let mut i = from;
    while i < e.len() {
        let o = kw(&e[i])?;
        match o.as_str() {
            "MATCH" => { if i + 1 >= e.len() { return Err("ERR syntax error".into()); } pattern = Some(x_string(&e[i + 1])?); }
            "COUNT" => { if i + 1 >= e.len() { return Err("ERR syntax error".into()); } count = Some(x_integer(&e[i + 1])? as usize); }
            _ => return Err(format!("Unknown {} option: {}", name, o)),
        }
        i += 2;
    }
    Ok((pattern, count))
}
fn g_scan(e: &[El]) -> Result<Command, String> {
    if e.len() < 2 { return Err("SCAN requires at least 1 argument".into()); }
    let cursor = x_u64(&e[1])?;
    let (pattern, count) = scan_opts(e, 2, "SCAN")?;
    Ok(Command::Scan { cursor, pattern, count })
}
fn g_kscan(e: &[El], z: bool) -> Result<Command, String> {
    if e.len() < 3 { return Err(if z { "ZSCAN requires at least 2 arguments" } else { "HSCAN requires at least 2 arguments" }.into()); }
    let key = x_string(&e[1])?;
    let cursor = x_u64(&e[2])?;
    let (pattern, count) = scan_opts(e, 3, if z { "ZSCAN" } else { "HSCAN" })?;
    Ok(if z { Command::ZScan { key, cursor, pattern, count } } else { Command::HScan { key, cursor, pattern, count } })
}
fn g_getex(e: &[El]) -> Result<Command, String> {
    if e.len() < 2 { return Err("ERR wrong number of arguments for 'getex' command".into()); }
    let key = x_string(&e[1])?;
    let (mut ex, mut px, mut exat, mut pxat, mut persist) = (None, None, None, None, false);
    let mut i = 2;
    while i < e.len() {
        match kw(&e[i])?.as_str() {
            "EX" => { ex = Some(opt_i64(e, i, "GETEX EX requires a value")?); i += 2; }
            "PX" => { px = Some(opt_i64(e, i, "GETEX PX requires a value")?); i += 2; }
            "EXAT" => { exat = Some(opt_i64(e, i, "GETEX EXAT requires a value")?); i += 2; }
            "PXAT" => { pxat = Some(opt_i64(e, i, "GETEX PXAT requires a value")?); i += 2; }
            "PERSIST" => { persist = true; i += 1; }
            _ => return Err("ERR syntax error".into()),
        }
    }
    let n = ex.is_some() as u8 + px.is_some() as u8 + exat.is_some() as u8 + pxat.is_some() as u8 + persist as u8;
    if n > 1 { return Err("ERR syntax error".into()); }
    Ok(Command::GetEx { key, ex, px, exat, pxat, persist })
}
fn g_sort(e: &[El]) -> Result<Command, String> {
    if e.len() < 2 { return Err("ERR wrong number of arguments for 'sort' command".into()); }
    let key = x_string(&e[1])?;
    let mut store = None;
    let mut i = 2;
    while i < e.len() {
        if kw(&e[i])? == "STORE" {
            if i + 1 < e.len() { store = Some(x_string(&e[i + 1])?); i += 2; } else { break; }
        } else { i += 1; }
    }
    Ok(Command::Sort { key, store })
}
/// the grammar's answer for a frame of one of the 13 commands (None: not one of them / not a command frame)
fn grammar(e: &[El]) -> Option<Result<Command, String>> {
    let name = match e.first()? { El::Bulk(d) => lossy(d).to_uppercase(), _ => return None };
    Some(match name.as_str() {
        "SET" => g_set(e), "EXPIRE" => g_expire(e, false), "PEXPIRE" => g_expire(e, true), "MSET" => g_mset(e, false), "MSETNX" => g_mset(e, true),
        "HSET" => g_hset(e), "ZADD" => g_zadd(e), "ZRANGEBYSCORE" => g_zrangebyscore(e), "SCAN" => g_scan(e), "HSCAN" => g_kscan(e, false),
        "ZSCAN" => g_kscan(e, true), "GETEX" => g_getex(e), "SORT" => g_sort(e),
        _ => return None,
    })
}

// ---------------------------------------------------------------- the check ----------------------------------------------------------------
fn check(e: &[El]) -> Option<Found> {
    let want = show(&grammar(e)?);
    let a = to_resp(e);
    let z = to_zc(e);
    let ra = catch_unwind(AssertUnwindSafe(|| Command::from_resp(&a))).map(|r| show(&r)).unwrap_or_else(|_| "PANIC".to_string());
    let rz = catch_unwind(AssertUnwindSafe(|| Command::from_resp_zero_copy(&z))).map(|r| show(&r)).unwrap_or_else(|_| "PANIC".to_string());
    if ra == want && rz == want { return None; }
    Some(Found {
        input: format!("frame [{}] given to both command parsers", show_frame(e)),
        observed: format!("from_resp -> {} ; from_resp_zero_copy -> {}{}", ra, rz, if ra != rz { "  (the two parsers DIFFER)" } else { "" }),
        required: format!("both parsers return what the one grammar prescribes: {}", want),
    })
}

// ---------------------------------------------------------------- the battery ----------------------------------------------------------------
fn numbers() -> Vec<El> {
    ["0", "1", "-1", "10", "+7", "007", " 5", "5 ", "", "9223372036854775807", "9223372036854775808", "-9223372036854775808", "-9223372036854775809",
     "18446744073709551615", "18446744073709551616", "1.5", "-0.0", "1e3", "inf", "-inf", "nan", "NaN", "(1", "abc"].iter().map(|s| b(s))
        .chain([El::Int(0), El::Int(-1), El::Int(i64::MAX), El::Int(i64::MIN), El::Bulk(vec![0xff, 0xfe]), El::Bulk(vec![b'1', 0xff]), El::Other(0), El::Other(1), El::Other(2)]).collect()
}
fn cases(k: &str) -> Vec<El> {
    let mut v = vec![b(k), b(&k.to_lowercase()), b(&{ let mut c = k.to_lowercase().into_bytes(); c[0] = c[0].to_ascii_uppercase(); String::from_utf8(c).unwrap() })];
    // letters outside ASCII whose Unicode upper case IS an ASCII letter (U+0131 dotless i -> I, U+017F long s -> S): the grammar's
    // keyword is upper(text), so these spell the keyword too - a parser that folds case in ASCII only disagrees (seed C16-1)
    let low = k.to_lowercase();
    if low.contains('i') { v.push(b(&low.replacen('i', "\u{131}", 1))); }
    if low.contains('s') { v.push(b(&low.replacen('s', "\u{17f}", 1))); }
    v
}
/// (command name, fixed prefix after the name, option alphabet)
fn commands() -> Vec<(&'static str, Vec<El>, Vec<El>)> {
    let kws = |ks: &[&str]| -> Vec<El> { ks.iter().flat_map(|k| cases(k)).collect() };
    let few_nums = || vec![b("10"), b("-1"), b("9223372036854775808"), b(""), b("x"), El::Int(5), El::Other(0), El::Bulk(vec![0xff])];
    let mut v = Vec::new();
    let mut a = kws(&["NX", "XX", "GET", "EX", "PX", "EXAT", "PXAT", "KEEPTTL", "IFEQ", "IFGT"]); a.extend(few_nums()); a.push(b("PERSIST"));
    v.push(("SET", vec![b("k"), b("v")], a));
    let mut a = kws(&["NX", "XX", "GT", "LT"]); a.extend(few_nums()); a.push(b("CH"));
    v.push(("EXPIRE", vec![b("k"), b("100")], a.clone()));
    v.push(("PEXPIRE", vec![b("k"), El::Int(-5)], a));
    let a = vec![b("k1"), b("v1"), b(""), El::Bulk(vec![0xff, 0x00]), El::Int(3), El::Other(0), El::Other(2)];
    v.push(("MSET", vec![], a.clone()));
    v.push(("MSETNX", vec![], a.clone()));
    v.push(("HSET", vec![b("h")], a));
    let mut a = kws(&["NX", "XX", "GT", "LT", "CH"]); a.extend([b("INCR"), b("1.5"), b("-inf"), b("nan"), b("m"), b(""), b("1e400"), El::Int(2), El::Other(1), El::Bulk(vec![0xff])]);
    v.push(("ZADD", vec![b("z")], a));
    let mut a = kws(&["WITHSCORES", "LIMIT"]); a.extend([b("0"), b("-1"), b("5"), b("9223372036854775808"), b("x"), El::Int(-7), El::Other(0), b("BYSCORE")]);
    v.push(("ZRANGEBYSCORE", vec![b("z"), b("-inf"), b("(5")], a));
    let mut a = kws(&["MATCH", "COUNT"]); a.extend([b("*"), b("10"), b("-1"), b("18446744073709551616"), b("x"), b(""), El::Int(9), El::Other(0), b("TYPE"), El::Bulk(vec![0xc3, 0x28])]);
    v.push(("SCAN", vec![b("0")], a.clone()));
    v.push(("HSCAN", vec![b("h"), b("18446744073709551615")], a.clone()));
    v.push(("ZSCAN", vec![b("z"), El::Int(-1)], a));
    let mut a = kws(&["EX", "PX", "EXAT", "PXAT", "PERSIST"]); a.extend(few_nums()); a.push(b("KEEPTTL"));
    v.push(("GETEX", vec![b("k")], a));
    let mut a = kws(&["STORE"]); a.extend([b("dst"), b("BY"), b("LIMIT"), b("0"), b("ALPHA"), b("DESC"), b(""), El::Int(1), El::Other(0), El::Bulk(vec![0xff])]);
    v.push(("SORT", vec![b("k")], a));
    v
}

pub fn search(_pid: &str, _oid: &str, seed: u64) -> Option<Found> {
    let cmds = commands();
    let nums = numbers();
    // (1) arities: the name alone, then the prefix one element at a time, each prefix element also replaced by every number / non-bulk element
    for (name, prefix, alpha) in &cmds {
        for nm in cases(name) {
            let mut f = vec![nm.clone()];
            if let Some(x) = check(&f) { return Some(x); }
            for p in prefix {
                f.push(p.clone());
                if let Some(x) = check(&f) { return Some(x); }
                for n in &nums {
                    let mut g = f.clone(); *g.last_mut().unwrap() = n.clone();
                    if let Some(x) = check(&g) { return Some(x); }
                    // the replaced prefix element followed by the rest of the prefix and one option
                    let mut h = vec![nm.clone()]; h.extend(prefix.iter().cloned()); h[g.len() - 1] = n.clone();
                    if let Some(x) = check(&h) { return Some(x); }
                    for o in alpha.iter().take(6) { let mut k = h.clone(); k.push(o.clone()); if let Some(x) = check(&k) { return Some(x); } }
                }
            }
        }
    }
    // (2) every option list of length 0..=3 over the command's alphabet (a value position also sees every number once)
    for (name, prefix, alpha) in &cmds {
        let mut base = vec![b(name)]; base.extend(prefix.iter().cloned());
        if let Some(x) = check(&base) { return Some(x); }
        for o1 in alpha {
            let mut f1 = base.clone(); f1.push(o1.clone());
            if let Some(x) = check(&f1) { return Some(x); }
            for n in &nums { let mut g = f1.clone(); g.push(n.clone()); if let Some(x) = check(&g) { return Some(x); } }
            for o2 in alpha {
                let mut f2 = f1.clone(); f2.push(o2.clone());
                if let Some(x) = check(&f2) { return Some(x); }
                for o3 in alpha {
                    let mut f3 = f2.clone(); f3.push(o3.clone());
                    if let Some(x) = check(&f3) { return Some(x); }
                }
            }
        }
    }
    // (3) seeded random frames: longer option lists, keyword repetitions, values from the number pool
    let mut rng = Rng::new(seed ^ 0xC16_0075);
    for _ in 0..60_000 {
        let (name, prefix, alpha) = rng.pick(&cmds);
        let mut f = vec![rng.pick(&cases(name)).clone()];
        for p in prefix { f.push(if rng.chance(1, 12) { rng.pick(&nums).clone() } else { p.clone() }); }
        if rng.chance(1, 15) { let keep = 1 + rng.below(f.len() as u64) as usize; f.truncate(keep); }
        let n = rng.below(10);
        for _ in 0..n { f.push(if rng.chance(1, 4) { rng.pick(&nums).clone() } else { rng.pick(alpha).clone() }); }
        if let Some(x) = check(&f) { return Some(x); }
    }
    None
}
