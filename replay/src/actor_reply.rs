//! Unit `actor_reply` (C02): "every reply goes to the requester that asked" on the REAL ShardedActorState, including the
//! case the contracts K2/K3 speak about and ordinary tests never exercise: a requester that STOPS WAITING after its
//! message was posted (timeout / select! / task abort = the request future is dropped after its first poll).  The
//! abandoned request's reply must never surface as the answer to somebody else's request, however the pooled response
//! slots are recycled afterwards.
//!
//! Battery (bounded, deterministic, current-thread runtime):  N keys key:i = val:i; one request of kind A (pooled GET,
//! pooled SET, oneshot GET, generic execute) is polled once and dropped; then `rounds` sequential requests of kind B over
//! distinct keys, each of which must receive exactly its own reply (GET key:i -> val:i, SET -> OK then GET -> the value set).
use crate::Found;
use bytes::Bytes;
use redis_sim::production::{ShardConfig, ShardedActorState};
use redis_sim::redis::{Command, RespValue, SDS};
use std::future::Future;
use std::pin::Pin;
use std::sync::Arc;
use std::task::{Context, Poll, Wake, Waker};

struct Noop;
impl Wake for Noop { fn wake(self: Arc<Self>) {} }

/// poll a future exactly once, then drop it (what `select!` / `timeout` do to the losing branch)
fn poll_once_and_drop<F: Future>(f: F) -> bool {
    let w = Waker::from(Arc::new(Noop));
    let mut cx = Context::from_waker(&w);
    let mut p: Pin<Box<F>> = Box::pin(f);
    matches!(p.as_mut().poll(&mut cx), Poll::Ready(_))
}

fn show(r: &RespValue) -> String {
    match r {
        RespValue::BulkString(None) => "nil".into(),
        RespValue::BulkString(Some(b)) => format!("\"{}\"", String::from_utf8_lossy(b)),
        RespValue::SimpleString(s) => format!("+{}", s),
        RespValue::Error(e) => format!("-{}", e),
        RespValue::Integer(i) => format!(":{}", i),
        other => format!("{:?}", other),
    }
}

const ABANDON: [&str; 4] = ["pooled_fast_get", "pooled_fast_set", "fast_get", "execute(GET)"];

pub fn search(_pid: &str, _oid: &str, seed: u64) -> Option<Found> {
    let rt = tokio::runtime::Builder::new_current_thread().enable_all().build().ok()?;
    rt.block_on(async {
        for shards in [1usize, 4] {
            for abandon in ABANDON {
                for n_abandoned in [1usize, 3] {
                    let st = ShardedActorState::with_config(ShardConfig::with_shards(shards));
                    let n = 160 + (seed as usize % 7) * 16;
                    for i in 0..n {
                        let r = st.execute(&Command::set(format!("key:{}", i), SDS::new(format!("val:{}", i).into_bytes()))).await;
                        if show(&r) != "+OK" { return None; }
                    }
                    let _ = st.execute(&Command::set("victim".to_string(), SDS::new(b"VICTIM-VALUE".to_vec()))).await;
                    // the requester stops waiting after its message was posted
                    for _ in 0..n_abandoned {
                        let vb = Bytes::from_static(b"victim");
                        let ready = match abandon {
                            "pooled_fast_get" => poll_once_and_drop(st.pooled_fast_get(vb)),
                            "pooled_fast_set" => poll_once_and_drop(st.pooled_fast_set(vb, Bytes::from_static(b"VICTIM-VALUE"))),
                            "fast_get" => poll_once_and_drop(st.fast_get(vb)),
                            _ => poll_once_and_drop(st.execute(&Command::Get("victim".to_string()))),
                        };
                        if ready { break; }
                    }
                    let setup = format!("{} shard(s); SET key:i val:i for i < {}; SET victim VICTIM-VALUE; {} request(s) {}(victim) polled once and dropped (the requester stopped waiting)", shards, n, n_abandoned, abandon);
                    // every later requester must get exactly its own reply, whatever slot it is handed
                    for round in 0..(2 * n) {
                        let i = round % n;
                        let key = format!("key:{}", i);
                        let kb = Bytes::copy_from_slice(key.as_bytes());
                        if round % 3 == 2 {
                            let nv = format!("new:{}:{}", i, round);
                            let r = show(&st.pooled_fast_set(kb.clone(), Bytes::copy_from_slice(nv.as_bytes())).await);
                            if r != "+OK" {
                                return Some(Found { input: format!("{}; then request #{}: pooled_fast_set({}, {})", setup, round, key, nv), observed: r, required: "+OK (the reply to THIS request)".into() });
                            }
                            let g = show(&st.pooled_fast_get(kb).await);
                            if g != format!("\"{}\"", nv) {
                                return Some(Found { input: format!("{}; then request #{}: pooled_fast_set({}, {}) -> +OK; pooled_fast_get({})", setup, round, key, nv, key), observed: g, required: format!("\"{}\" (the value this client just wrote; single writer per key)", nv) });
                            }
                            // restore
                            let _ = st.pooled_fast_set(Bytes::copy_from_slice(key.as_bytes()), Bytes::copy_from_slice(format!("val:{}", i).as_bytes())).await;
                        } else {
                            let g = show(&st.pooled_fast_get(kb).await);
                            let want = format!("\"val:{}\"", i);
                            if g != want {
                                return Some(Found { input: format!("{}; then sequential request #{}: pooled_fast_get({})", setup, round, key), observed: g, required: format!("{} (no other client writes this key: any other reply belongs to another request)", want) });
                            }
                        }
                    }
                    // the oneshot and generic paths as well
                    for i in 0..n.min(40) {
                        let key = format!("key:{}", i);
                        let g1 = show(&st.fast_get(Bytes::copy_from_slice(key.as_bytes())).await);
                        let g2 = show(&st.execute(&Command::Get(key.clone())).await);
                        let want = format!("\"val:{}\"", i);
                        if g1 != want || g2 != want {
                            return Some(Found { input: format!("{}; then fast_get({}) / execute(GET {})", setup, key, key), observed: format!("{} / {}", g1, g2), required: want });
                        }
                    }
                }
            }
        }
        None
    })
}
