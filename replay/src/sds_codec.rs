//! Unit `sds_codec` (C14): every encoding of a replicated update is byte-exact for arbitrary binary payloads: gossip JSON
//! (GossipMessage::{DeltaBatch, TargetedDelta, SyncResponse}.serialize/deserialize), WAL entry, segment, checkpoint - string
//! values AND hash-field values that are not valid UTF-8 (0xff 0xfe, lone continuation bytes, truncated sequences, NUL, empty,
//! the bytes of U+FFFD itself, all 256 byte values, random blobs).
use crate::deltas::{bytes_of, delta_id, hex, lc};
use crate::rng::Rng;
use crate::Found;
use redis_sim::redis::SDS;
use redis_sim::replication::gossip::GossipMessage;
use redis_sim::replication::lattice::ReplicaId;
use redis_sim::replication::state::{CrdtValue, ReplicatedValue, ReplicationDelta};
use redis_sim::streaming::segment::{Compression, SegmentReader, SegmentWriter};
use redis_sim::streaming::{CheckpointReader, CheckpointWriter, WalEntry};
use std::collections::HashMap;

fn payloads(rng: &mut Rng) -> Vec<(String, Vec<u8>)> {
    let mut v: Vec<(String, Vec<u8>)> = vec![
        ("0xff 0xfe".into(), vec![0xff, 0xfe]), ("lone continuation byte 0x80".into(), vec![0x80]), ("truncated 2-byte sequence 0xc3".into(), vec![0xc3]),
        ("truncated 3-byte sequence e2 82".into(), vec![b'a', 0xe2, 0x82]), ("overlong encoding c0 af".into(), vec![0xc0, 0xaf]), ("UTF-16 surrogate ed a0 80".into(), vec![0xed, 0xa0, 0x80]),
        ("the bytes of U+FFFD".into(), "\u{fffd}".as_bytes().to_vec()), ("valid UTF-8 then 0xff".into(), [ "é键".as_bytes(), &[0xff] ].concat()),
        ("NUL bytes".into(), vec![0, 0, 0]), ("empty".into(), vec![]), ("ASCII".into(), b"hello".to_vec()), ("valid UTF-8".into(), "ключ 键 🔑".as_bytes().to_vec()),
        ("little-endian integer".into(), 0xdead_beef_u32.to_le_bytes().to_vec()), ("all 256 byte values".into(), (0..=255u8).collect()),
        ("all 256 byte values, descending".into(), (0..=255u8).rev().collect()), ("quotes, backslashes and control bytes".into(), b"\"\\\n\r\t\x01\x1f\x7f".to_vec()),
        ("23 bytes (inline capacity) of 0xfe".into(), vec![0xfe; 23]), ("24 bytes of 0xfe".into(), vec![0xfe; 24]),
    ];
    for i in 0..20 { let n = 1 + rng.below(if i % 5 == 0 { 3000 } else { 40 }) as usize; v.push((format!("{} random bytes", n), bytes_of(rng, n))); }
    v
}

fn deltas_for(name: &str, p: &[u8]) -> Vec<(String, ReplicationDelta)> {
    let mut out = Vec::new();
    let s = ReplicatedValue::with_value(SDS::new(p.to_vec()), lc(7, 1));
    out.push((format!("string value = {}", name), ReplicationDelta::new("k".into(), s, ReplicaId(1))));
    let mut h = ReplicatedValue::with_crdt(CrdtValue::new_hash(), ReplicaId(2));
    let mut c = lc(3, 2);
    h.hash_set("f".into(), SDS::new(p.to_vec()), &mut c);
    h.hash_set("plain".into(), SDS::from_str("x"), &mut c);
    h.hash_set("g".into(), SDS::new([p, &[0xff][..]].concat()), &mut c);
    h.hash_delete("plain", &mut c);
    out.push((format!("hash with field values = {}", name), ReplicationDelta::new("h\0key".into(), h, ReplicaId(2))));
    let mut t = ReplicatedValue::with_value(SDS::new(p.to_vec()), lc(9, 3)); let mut c3 = lc(9, 3); t.delete(&mut c3);
    out.push((format!("tombstone of a string value = {}", name), ReplicationDelta::new("t".into(), t, ReplicaId(3))));
    out
}

fn same(a: &[ReplicationDelta], b: &[ReplicationDelta]) -> bool { a.len() == b.len() && a.iter().zip(b.iter()).all(|(x, y)| delta_id(x) == delta_id(y)) }
fn render(d: &[ReplicationDelta]) -> String { d.iter().map(delta_id).collect::<Vec<_>>().join(" ; ") }

fn check_one(what: &str, payload: &[u8], ds: &[ReplicationDelta]) -> Option<Found> {
    let input = |enc: &str| format!("{} (payload bytes {}), through {}", what, hex(payload), enc);
    let bad = |enc: &str, got: String| Some(Found { input: input(enc), observed: got, required: format!("the update(s) that were encoded, byte for byte: {}", render(ds)) });
    // gossip JSON: the three delta-carrying messages
    let msgs = vec![
        ("GossipMessage::DeltaBatch serialize/deserialize (JSON)", GossipMessage::new_delta_batch(ReplicaId(1), ds.to_vec(), 42)),
        ("GossipMessage::TargetedDelta serialize/deserialize (JSON)", GossipMessage::new_targeted_delta(ReplicaId(1), ReplicaId(2), ds.to_vec(), 43)),
        ("GossipMessage::SyncResponse serialize/deserialize (JSON)", GossipMessage::SyncResponse { source_replica: ReplicaId(3), deltas: ds.to_vec() }),
    ];
    for (enc, m) in msgs {
        let bytes = match m.serialize() { Ok(b) => b, Err(e) => return bad(enc, format!("serialize failed: {}", e)) };
        let back = match GossipMessage::deserialize(&bytes) { Ok(b) => b, Err(e) => return bad(enc, format!("deserialize failed: {} (wire {})", e, String::from_utf8_lossy(&bytes[..bytes.len().min(300)]))) };
        let meta_ok = match (&m, &back) {
            (GossipMessage::DeltaBatch { source_replica: a, epoch: e, .. }, GossipMessage::DeltaBatch { source_replica: b, epoch: f, .. }) => a == b && e == f,
            (GossipMessage::TargetedDelta { source_replica: a, target_replica: t, epoch: e, .. }, GossipMessage::TargetedDelta { source_replica: b, target_replica: u, epoch: f, .. }) => a == b && t == u && e == f,
            (GossipMessage::SyncResponse { source_replica: a, .. }, GossipMessage::SyncResponse { source_replica: b, .. }) => a == b,
            _ => false,
        };
        let got = back.into_deltas().unwrap_or_default();
        if !meta_ok || !same(&got, ds) { return bad(enc, format!("{}{}", if meta_ok { "" } else { "message kind/source/epoch changed; " }, render(&got))); }
        // a second hop (re-serialise what was received) must not change anything either
        let again = GossipMessage::new_delta_batch(ReplicaId(9), got, 1).serialize().ok().and_then(|b| GossipMessage::deserialize(&b).ok()).and_then(|m| m.into_deltas()).unwrap_or_default();
        if !same(&again, ds) { return bad(&format!("{} twice (relay)", enc), render(&again)); }
    }
    // WAL entry
    for d in ds {
        let got = WalEntry::from_delta(d, 5).map_err(|e| e.to_string()).and_then(|e| WalEntry::decode(&e.encode()).ok_or("decode returned None".to_string())).and_then(|(e, _)| e.to_delta().map_err(|e| e.to_string()));
        match got { Ok(g) if delta_id(&g) == delta_id(d) => {} other => return bad("WalEntry::from_delta/encode/decode/to_delta", format!("{:?}", other.map(|g| delta_id(&g)))) }
    }
    // segment
    let mut w = SegmentWriter::new(Compression::None);
    for d in ds { if let Err(e) = w.write_delta(d) { return bad("SegmentWriter::write_delta", e.to_string()); } }
    let got = w.finish().map_err(|e| e.to_string()).and_then(|img| { let r = SegmentReader::open(&img).map_err(|e| e.to_string())?; r.validate().map_err(|e| e.to_string())?; r.read_all().map_err(|e| e.to_string()) });
    match got { Ok(g) if same(&g, ds) => {} other => return bad("SegmentWriter -> SegmentReader", format!("{:?}", other.map(|g| render(&g)))) }
    // checkpoint
    let state: HashMap<String, ReplicatedValue> = ds.iter().map(|d| (d.key.clone(), d.value.clone())).collect();
    let got = CheckpointWriter::new(Compression::None).write(state.clone(), 1234, 7).map_err(|e| e.to_string()).and_then(|img| { let r = CheckpointReader::open(&img).map_err(|e| e.to_string())?; r.validate().map_err(|e| e.to_string())?; if r.key_count() != state.len() as u64 || r.timestamp_ms() != 1234 || r.last_segment_id() != 7 { return Err(format!("header says {} keys, ts {}, segment {}", r.key_count(), r.timestamp_ms(), r.last_segment_id())); } r.load().map_err(|e| e.to_string()) });
    match got {
        Ok(data) => {
            let mut a: Vec<String> = data.state.iter().map(|(k, v)| format!("{:?}|{}", k, crate::lattice::obs(v))).collect(); a.sort();
            let mut b: Vec<String> = state.iter().map(|(k, v)| format!("{:?}|{}", k, crate::lattice::obs(v))).collect(); b.sort();
            if a != b { return bad("CheckpointWriter -> CheckpointReader", a.join(" ; ")); }
        }
        Err(e) => return bad("CheckpointWriter -> CheckpointReader", e),
    }
    None
}

pub fn search(_pid: &str, _oid: &str, seed: u64) -> Option<Found> {
    let mut rng = Rng::new(seed + 140);
    // SDS itself: new / len / as_bytes are exact
    for (name, p) in payloads(&mut rng) {
        let s = SDS::new(p.clone());
        if s.as_bytes() != &p[..] || s.len() != p.len() || s.clone().as_bytes() != &p[..] { return Some(Found { input: format!("SDS::new({}) [{}]", hex(&p), name), observed: format!("len {} bytes {}", s.len(), hex(s.as_bytes())), required: "the bytes it was built from".into() }); }
    }
    let ps = payloads(&mut rng);
    for (name, p) in &ps {
        for (what, d) in deltas_for(name, p) { if let Some(f) = check_one(&what, p, std::slice::from_ref(&d)) { return Some(f); } }
    }
    // batches mixing several payloads
    for _ in 0..20 {
        let mut batch = Vec::new();
        for i in 0..(2 + rng.below(6)) { let (n, p) = rng.pick(&ps).clone(); let mut ds = deltas_for(&n, &p); let (_, mut d) = ds.swap_remove(rng.below(3) as usize); d.key = format!("{}#{}", d.key, i); batch.push(d); }
        if let Some(f) = check_one(&format!("a batch of {} updates with mixed binary payloads", batch.len()), &[], &batch) { return Some(f); }
    }
    None
}
