//! Unit `sds_codec` (C14): every encoding of a replicated update is byte-exact for arbitrary binary payloads: gossip JSON
//! (GossipMessage::{DeltaBatch, TargetedDelta, SyncResponse}.serialize/deserialize), WAL entry, segment, checkpoint - string
//! values AND hash-field values that are not valid UTF-8 (0xff 0xfe, lone continuation bytes, truncated sequences, NUL, empty,
//! the bytes of U+FFFD itself, all 256 byte values, random blobs).
use crate::deltas::{bytes_of, delta_id, gen_value, hex, lc, show_delta, KINDS};
use crate::rng::Rng;
use crate::Found;
use redis_sim::redis::SDS;
use redis_sim::replication::gossip::GossipMessage;
use redis_sim::replication::lattice::{GCounter, PNCounter, ReplicaId, VectorClock};
use redis_sim::replication::state::{CrdtValue, ReplicatedValue, ReplicationDelta};
use redis_sim::streaming::segment::{Compression, SegmentReader, SegmentWriter};
use redis_sim::streaming::{CheckpointReader, CheckpointWriter, WalEntry};
use std::collections::HashMap;

fn payloads(rng: &mut Rng) -> Vec<(String, Vec<u8>)> {
    let mut v: Vec<(String, Vec<u8>)> = vec![
        ("0xff 0xfe".into(), vec![0xff, 0xfe]), ("lone continuation byte 0x80".into(), vec![0x80]), ("truncated 2-byte sequence 0xc3".into(), vec![0xc3]),
        ("truncated 3-byte sequence e2 82".into(), vec![b'a', 0xe2, 0x82]), ("overlong encoding c0 af".into(), vec![0xc0, 0xaf]), ("UTF-16 surrogate ed a0 80".into(), vec![0xed, 0xa0, 0x80]),
        ("the bytes of U+FFFD".into(), "\u{fffd}".as_bytes().to_vec()), ("valid UTF-8 then 0xff".into(), [ "é键".as_bytes(), &[0xff] ].concat()),
        ("NUL bytes".into(), vec![0, 0, 0]), ("empty".into(), vec![]), ("ASCII".into(), b"hello".to_vec()), ("valid UTF-8".into(), "ключ 键 🔑".as_bytes().to_vec()),
        ("little-endian integer".into(), 0xdead_beef_u32.to_le_bytes().to_vec()), ("all 256 byte values".into(), (0..=255u8).collect()),
        ("all 256 byte values, descending".into(), (0..=255u8).rev().collect()), ("quotes, backslashes and control bytes".into(), b"\"\\\n\r\t\x01\x1f\x7f".to_vec()),
        ("23 bytes (inline capacity) of 0xfe".into(), vec![0xfe; 23]), ("24 bytes of 0xfe".into(), vec![0xfe; 24]),
    ];
    for i in 0..20 { let n = 1 + rng.below(if i % 5 == 0 { 3000 } else { 40 }) as usize; v.push((format!("{} random bytes", n), bytes_of(rng, n))); }
    v
}

fn deltas_for(name: &str, p: &[u8]) -> Vec<(String, ReplicationDelta)> {
    let mut out = Vec::new();
    let s = ReplicatedValue::with_value(SDS::new(p.to_vec()), lc(7, 1));
    out.push((format!("string value = {}", name), ReplicationDelta::new("k".into(), s, ReplicaId(1))));
    let mut h = ReplicatedValue::with_crdt(CrdtValue::new_hash(), ReplicaId(2));
    let mut c = lc(3, 2);
    h.hash_set("f".into(), SDS::new(p.to_vec()), &mut c);
    h.hash_set("plain".into(), SDS::from_str("x"), &mut c);
    h.hash_set("g".into(), SDS::new([p, &[0xff][..]].concat()), &mut c);
    h.hash_delete("plain", &mut c);
    out.push((format!("hash with field values = {}", name), ReplicationDelta::new("h\0key".into(), h, ReplicaId(2))));
    let mut t = ReplicatedValue::with_value(SDS::new(p.to_vec()), lc(9, 3)); let mut c3 = lc(9, 3); t.delete(&mut c3);
    out.push((format!("tombstone of a string value = {}", name), ReplicationDelta::new("t".into(), t, ReplicaId(3))));
    out
}

fn same(a: &[ReplicationDelta], b: &[ReplicationDelta]) -> bool { a.len() == b.len() && a.iter().zip(b.iter()).all(|(x, y)| delta_id(x) == delta_id(y)) }
fn render(d: &[ReplicationDelta]) -> String { d.iter().map(delta_id).collect::<Vec<_>>().join(" ; ") }

fn check_one(what: &str, payload: &[u8], ds: &[ReplicationDelta]) -> Option<Found> {
    let input = |enc: &str| format!("{} (payload bytes {}), through {}", what, hex(payload), enc);
    let bad = |enc: &str, got: String| Some(Found { input: input(enc), observed: got, required: format!("the update(s) that were encoded, byte for byte: {}", render(ds)) });
    // gossip JSON: the three delta-carrying messages
    let msgs = vec![
        ("GossipMessage::DeltaBatch serialize/deserialize (JSON)", GossipMessage::new_delta_batch(ReplicaId(1), ds.to_vec(), 42)),
        ("GossipMessage::TargetedDelta serialize/deserialize (JSON)", GossipMessage::new_targeted_delta(ReplicaId(1), ReplicaId(2), ds.to_vec(), 43)),
        ("GossipMessage::SyncResponse serialize/deserialize (JSON)", GossipMessage::SyncResponse { source_replica: ReplicaId(3), deltas: ds.to_vec() }),
    ];
    for (enc, m) in msgs {
        let bytes = match m.serialize() { Ok(b) => b, Err(e) => return bad(enc, format!("serialize failed: {}", e)) };
        let back = match GossipMessage::deserialize(&bytes) { Ok(b) => b, Err(e) => return bad(enc, format!("deserialize failed: {} (wire {})", e, String::from_utf8_lossy(&bytes[..bytes.len().min(300)]))) };
        let meta_ok = match (&m, &back) {
            (GossipMessage::DeltaBatch { source_replica: a, epoch: e, .. }, GossipMessage::DeltaBatch { source_replica: b, epoch: f, .. }) => a == b && e == f,
            (GossipMessage::TargetedDelta { source_replica: a, target_replica: t, epoch: e, .. }, GossipMessage::TargetedDelta { source_replica: b, target_replica: u, epoch: f, .. }) => a == b && t == u && e == f,
            (GossipMessage::SyncResponse { source_replica: a, .. }, GossipMessage::SyncResponse { source_replica: b, .. }) => a == b,
            _ => false,
        };
        let got = back.into_deltas().unwrap_or_default();
        if !meta_ok || !same(&got, ds) { return bad(enc, format!("{}{}", if meta_ok { "" } else { "message kind/source/epoch changed; " }, render(&got))); }
        // a second hop (re-serialise what was received) must not change anything either
        let again = GossipMessage::new_delta_batch(ReplicaId(9), got, 1).serialize().ok().and_then(|b| GossipMessage::deserialize(&b).ok()).and_then(|m| m.into_deltas()).unwrap_or_default();
        if !same(&again, ds) { return bad(&format!("{} twice (relay)", enc), render(&again)); }
    }
    // WAL entry
    for d in ds {
        let got = WalEntry::from_delta(d, 5).map_err(|e| e.to_string()).and_then(|e| WalEntry::decode(&e.encode()).ok_or("decode returned None".to_string())).and_then(|(e, _)| e.to_delta().map_err(|e| e.to_string()));
        match got { Ok(g) if delta_id(&g) == delta_id(d) => {} other => return bad("WalEntry::from_delta/encode/decode/to_delta", format!("{:?}", other.map(|g| delta_id(&g)))) }
    }
    // segment
    let mut w = SegmentWriter::new(Compression::None);
    for d in ds { if let Err(e) = w.write_delta(d) { return bad("SegmentWriter::write_delta", e.to_string()); } }
    let got = w.finish().map_err(|e| e.to_string()).and_then(|img| { let r = SegmentReader::open(&img).map_err(|e| e.to_string())?; r.validate().map_err(|e| e.to_string())?; r.read_all().map_err(|e| e.to_string()) });
    match got { Ok(g) if same(&g, ds) => {} other => return bad("SegmentWriter -> SegmentReader", format!("{:?}", other.map(|g| render(&g)))) }
    // checkpoint
    let state: HashMap<String, ReplicatedValue> = ds.iter().map(|d| (d.key.clone(), d.value.clone())).collect();
    let got = CheckpointWriter::new(Compression::None).write(state.clone(), 1234, 7).map_err(|e| e.to_string()).and_then(|img| { let r = CheckpointReader::open(&img).map_err(|e| e.to_string())?; r.validate().map_err(|e| e.to_string())?; if r.key_count() != state.len() as u64 || r.timestamp_ms() != 1234 || r.last_segment_id() != 7 { return Err(format!("header says {} keys, ts {}, segment {}", r.key_count(), r.timestamp_ms(), r.last_segment_id())); } r.load().map_err(|e| e.to_string()) });
    match got {
        Ok(data) => {
            let mut a: Vec<String> = data.state.iter().map(|(k, v)| format!("{:?}|{}", k, crate::lattice::obs(v))).collect(); a.sort();
            let mut b: Vec<String> = state.iter().map(|(k, v)| format!("{:?}|{}", k, crate::lattice::obs(v))).collect(); b.sort();
            if a != b { return bad("CheckpointWriter -> CheckpointReader", a.join(" ; ")); }
        }
        Err(e) => return bad("CheckpointWriter -> CheckpointReader", e),
    }
    None
}

// ======================= the gossip envelope (C14): every GossipMessage variant x every CRDT value kind =======================
// serialize() then deserialize() must succeed and give the same message: same variant, same source / target / epoch, the same updates in
// the same order (full observable rendering), and - for what the accessors do not show (per-replica counter maps of a PNCounter, the
// unique tags and sequence counters of an ORSet, every entry of a vector clock) - the same wire document when it is serialised again
// (documents compared after parsing: object members and set-valued arrays have no order).  Heartbeats and sync requests as well.

#[derive(Clone, PartialEq)]
enum J { Null, Bool(bool), Num(String), Str(String), Arr(Vec<J>), Obj(Vec<(String, J)>) }

struct JP<'a> { b: &'a [u8], i: usize }
impl<'a> JP<'a> {
    fn ws(&mut self) { while self.i < self.b.len() && matches!(self.b[self.i], b' ' | b'\n' | b'\r' | b'\t') { self.i += 1; } }
    fn string(&mut self) -> Option<String> {
        if self.b.get(self.i) != Some(&b'"') { return None; }
        self.i += 1; let st = self.i;
        while self.i < self.b.len() { match self.b[self.i] { b'\\' => self.i += 2, b'"' => { let s = String::from_utf8_lossy(&self.b[st..self.i]).into_owned(); self.i += 1; return Some(s); } _ => self.i += 1 } }
        None
    }
    fn value(&mut self, depth: usize) -> Option<J> {
        if depth > 64 { return None; }
        self.ws();
        match *self.b.get(self.i)? {
            b'n' => { self.i += 4; Some(J::Null) }
            b't' => { self.i += 4; Some(J::Bool(true)) }
            b'f' => { self.i += 5; Some(J::Bool(false)) }
            b'"' => self.string().map(J::Str),
            b'[' => {
                self.i += 1; let mut v = Vec::new();
                loop { self.ws(); if self.b.get(self.i) == Some(&b']') { self.i += 1; return Some(J::Arr(v)); } if !v.is_empty() { if self.b.get(self.i) != Some(&b',') { return None; } self.i += 1; } v.push(self.value(depth + 1)?); }
            }
            b'{' => {
                self.i += 1; let mut v = Vec::new();
                loop {
                    self.ws(); if self.b.get(self.i) == Some(&b'}') { self.i += 1; return Some(J::Obj(v)); }
                    if !v.is_empty() { if self.b.get(self.i) != Some(&b',') { return None; } self.i += 1; self.ws(); }
                    let k = self.string()?; self.ws(); if self.b.get(self.i) != Some(&b':') { return None; } self.i += 1;
                    v.push((k, self.value(depth + 1)?));
                }
            }
            _ => { let st = self.i; while self.i < self.b.len() && matches!(self.b[self.i], b'-' | b'+' | b'.' | b'e' | b'E' | b'0'..=b'9') { self.i += 1; } if self.i == st { None } else { Some(J::Num(String::from_utf8_lossy(&self.b[st..self.i]).into_owned())) } }
        }
    }
}
fn parse_json(b: &[u8]) -> Option<J> { let mut p = JP { b, i: 0 }; let v = p.value(0)?; p.ws(); if p.i == b.len() { Some(v) } else { None } }
/// order-free rendering: object members sorted by key; arrays sorted when `sets` (arrays that serialise hash sets have no order)
fn canon_json(j: &J, sets: bool) -> String {
    match j {
        J::Null => "null".into(), J::Bool(b) => b.to_string(), J::Num(n) => n.clone(), J::Str(s) => format!("\"{}\"", s),
        J::Arr(v) => { let mut e: Vec<String> = v.iter().map(|x| canon_json(x, sets)).collect(); if sets { e.sort(); } format!("[{}]", e.join(",")) }
        J::Obj(v) => { let mut e: Vec<String> = v.iter().map(|(k, x)| format!("\"{}\":{}", k, canon_json(x, sets))).collect(); e.sort(); format!("{{{}}}", e.join(",")) }
    }
}

fn vclock(ids: &[(u64, u64)]) -> VectorClock { let mut vc = VectorClock::new(); for (r, n) in ids { for _ in 0..*n { vc.increment(ReplicaId(*r)); } } vc }

/// every CRDT value kind, hand-made corner cases
fn gossip_values(rng: &mut Rng) -> Vec<(String, ReplicatedValue)> {
    let mut v: Vec<(String, ReplicatedValue)> = Vec::new();
    v.push(("LWW string, ASCII".into(), ReplicatedValue::with_value(SDS::from_str("hello"), lc(7, 1))));
    v.push(("LWW string, all 256 byte values".into(), ReplicatedValue::with_value(SDS::new((0..=255u8).collect()), lc(8, 2))));
    v.push(("LWW string, empty".into(), ReplicatedValue::with_value(SDS::new(Vec::new()), lc(9, 3))));
    v.push(("LWW string, 6000 random bytes".into(), ReplicatedValue::with_value(SDS::new(bytes_of(rng, 6000)), lc(10, 1))));
    v.push(("LWW string stamped (u64::MAX, replica u64::MAX)".into(), ReplicatedValue::with_value(SDS::from_str("late"), lc(u64::MAX, u64::MAX))));
    { let mut t = ReplicatedValue::with_value(SDS::from_str("gone"), lc(11, 2)); let mut c = lc(11, 2); t.delete(&mut c); v.push(("tombstone".into(), t)); }
    { let mut g = GCounter::new(); g.increment_by(ReplicaId(1), 5); let mut x = ReplicatedValue::with_crdt(CrdtValue::GCounter(g), ReplicaId(1)); x.timestamp = lc(12, 1); v.push(("GCounter, one replica".into(), x)); }
    { let mut g = GCounter::new(); for (r, n) in [(0u64, 1u64), (1, 2), (2, 9_007_199_254_740_993), (77, 3), (u64::MAX, 4)] { g.increment_by(ReplicaId(r), n); } let mut x = ReplicatedValue::with_crdt(CrdtValue::GCounter(g), ReplicaId(2)); x.timestamp = lc(13, 2); v.push(("GCounter, five replicas (ids 0, 1, 2, 77, u64::MAX; a count of 2^53+1)".into(), x)); }
    { let x = ReplicatedValue::with_crdt(CrdtValue::GCounter(GCounter::new()), ReplicaId(1)); v.push(("GCounter, empty".into(), x)); }
    { let mut p = PNCounter::new(); p.increment_by(ReplicaId(1), 10); p.decrement_by(ReplicaId(1), 3); p.increment_by(ReplicaId(2), 7); p.decrement_by(ReplicaId(3), 20); p.increment_by(ReplicaId(40), 1 << 40); let mut x = ReplicatedValue::with_crdt(CrdtValue::PNCounter(p), ReplicaId(1)); x.timestamp = lc(14, 1); v.push(("PNCounter, four replicas, increments and decrements".into(), x)); }
    { let mut p = PNCounter::new(); p.decrement_by(ReplicaId(2), 1); let x = ReplicatedValue::with_crdt(CrdtValue::PNCounter(p), ReplicaId(2)); v.push(("PNCounter, only a decrement".into(), x)); }
    { let mut c = CrdtValue::new_gset(); if let Some(s) = c.as_gset_mut() { for e in ["", "a", "with \"quotes\" and \\", "nul\0inside", "ключ 键 🔑", "line\r\nbreak"] { s.add(e.to_string()); } } let mut x = ReplicatedValue::with_crdt(c, ReplicaId(3)); x.timestamp = lc(15, 3); v.push(("GSet with odd members".into(), x)); }
    { let mut c = CrdtValue::new_orset(); if let Some(s) = c.as_orset_mut() { s.add("a".into(), ReplicaId(1)); s.add("b".into(), ReplicaId(1)); s.add("a".into(), ReplicaId(2)); s.add("c".into(), ReplicaId(3)); s.remove(&"b".to_string()); s.add("b".into(), ReplicaId(2)); s.remove(&"c".to_string()); s.add("é\0".into(), ReplicaId(u64::MAX)); } let mut x = ReplicatedValue::with_crdt(c, ReplicaId(1)); x.timestamp = lc(16, 1); v.push(("ORSet: adds by four replicas, removes, a re-add".into(), x)); }
    { let mut c = CrdtValue::new_orset(); if let Some(s) = c.as_orset_mut() { s.add("x".into(), ReplicaId(1)); s.remove(&"x".to_string()); } let x = ReplicatedValue::with_crdt(c, ReplicaId(1)); v.push(("ORSet: everything removed".into(), x)); }
    { let mut h = ReplicatedValue::with_crdt(CrdtValue::new_hash(), ReplicaId(2)); let mut c = lc(3, 2); h.hash_set("f".into(), SDS::new(vec![0xff, 0xfe, 0]), &mut c); h.hash_set("gone".into(), SDS::from_str("x"), &mut c); h.hash_set("".into(), SDS::new(Vec::new()), &mut c); h.hash_set("ключ".into(), SDS::new((0..=255u8).rev().collect()), &mut c); h.hash_delete("gone", &mut c); h.hash_set("also gone".into(), SDS::from_str("y"), &mut c); h.hash_delete("also gone", &mut c); v.push(("Hash: live fields (binary values, empty field name) and two tombstoned fields".into(), h)); }
    { let x = ReplicatedValue::with_crdt(CrdtValue::new_hash(), ReplicaId(2)); v.push(("Hash, empty".into(), x)); }
    // each of them also with a vector clock / expiry / replication factor
    let base = v.clone();
    for (i, (name, val)) in base.iter().enumerate() {
        let mut a = val.clone(); a.vector_clock = Some(vclock(&[(1, 3), (2, 1), (u64::MAX, 2), (0, 1)])); a.expiry_ms = Some([0u64, 12345, 9_007_199_254_740_993, u64::MAX][i % 4]); a.replication_factor = Some([0u8, 1, 3, 255][i % 4]);
        v.push((format!("{} + vector clock of four replicas + expiry {:?} + replication factor {:?}", name, a.expiry_ms, a.replication_factor), a));
        let mut b = val.clone(); b.vector_clock = Some(VectorClock::new()); b.expiry_ms = None;
        if i % 3 == 0 { v.push((format!("{} + empty vector clock, no expiry", name), b)); }
    }
    // and what the shared generator makes of every kind
    for k in 0..(2 * KINDS) { let t = 1 + rng.below(500); let r = 1 + rng.below(3); v.push((format!("generated value of kind {}", k % KINDS), gen_value(rng, k % KINDS, t, r))); }
    v
}

fn gossip_roundtrip(what: &str, m: &GossipMessage) -> Option<Found> {
    let describe = || -> String { let d = format!("{:?}", m); if d.len() > 700 { format!("{}..({} chars)", d.chars().take(500).collect::<String>(), d.len()) } else { d } };
    let bad = |step: &str, got: String, req: &str| Some(Found { input: format!("{}: {} through GossipMessage::serialize / deserialize{}", what, describe(), step), observed: got, required: req.to_string() });
    let wire = match m.serialize() { Ok(b) => b, Err(e) => return bad("", format!("serialize failed: {}", e), "Ok: every message is serialisable") };
    let back = match GossipMessage::deserialize(&wire) { Ok(b) => b, Err(e) => return bad("", format!("deserialize of its own output failed: {} (wire: {})", e, String::from_utf8_lossy(&wire[..wire.len().min(400)])), "the message that was serialised") };
    let meta_ok = match (m, &back) {
        (GossipMessage::DeltaBatch { source_replica: a, epoch: e, .. }, GossipMessage::DeltaBatch { source_replica: b, epoch: f, .. }) => a == b && e == f,
        (GossipMessage::TargetedDelta { source_replica: a, target_replica: t, epoch: e, .. }, GossipMessage::TargetedDelta { source_replica: b, target_replica: u, epoch: f, .. }) => a == b && t == u && e == f,
        (GossipMessage::SyncResponse { source_replica: a, .. }, GossipMessage::SyncResponse { source_replica: b, .. }) => a == b,
        (GossipMessage::SyncRequest { source_replica: a, known_versions: k }, GossipMessage::SyncRequest { source_replica: b, known_versions: l }) => a == b && k == l,
        (GossipMessage::Heartbeat { source_replica: a, epoch: e }, GossipMessage::Heartbeat { source_replica: b, epoch: f }) => a == b && e == f,
        _ => false,
    };
    if !meta_ok || back.source_replica() != m.source_replica() || back.is_delta_message() != m.is_delta_message() {
        let d = format!("{:?}", back);
        return bad("", format!("{}", d.chars().take(500).collect::<String>()), "the same variant with the same source / target / epoch / known versions");
    }
    let (want, got) = (m.clone().into_deltas(), back.clone().into_deltas());
    match (&want, &got) {
        (None, None) => {}
        (Some(w), Some(g)) if same(w, g) => {}
        _ => return bad("", format!("updates: {}", got.map(|g| render(&g)).unwrap_or_else(|| "none".into())), &format!("the same updates in the same order: {}", want.map(|w| w.iter().map(show_delta).collect::<Vec<_>>().join(" ; ")).unwrap_or_else(|| "none".into()))),
    }
    // everything that is on the wire, not only what the accessors show
    let wire2 = match back.serialize() { Ok(b) => b, Err(e) => return bad(" / serialize again", format!("serialize failed: {}", e), "Ok") };
    match (parse_json(&wire), parse_json(&wire2)) {
        (Some(a), Some(b)) => {
            if canon_json(&a, true) != canon_json(&b, true) {
                let (ca, cb) = (canon_json(&a, true), canon_json(&b, true));
                let at = ca.bytes().zip(cb.bytes()).position(|(x, y)| x != y).unwrap_or(ca.len().min(cb.len()));
                let cut = |s: &str| -> String { let lo = at.saturating_sub(60); s.chars().skip(lo).take(160).collect() };
                return bad(" / serialize again", format!("the document differs (members and sets compared without order): ..{}..", cut(&cb)), &format!("the document that was sent: ..{}..", cut(&ca)));
            }
        }
        _ => return bad("", format!("the wire bytes are not a JSON document: {}", String::from_utf8_lossy(&wire[..wire.len().min(200)])), "a JSON document"),
    }
    None
}

fn check_gossip_envelope(rng: &mut Rng) -> Option<Found> {
    let vals = gossip_values(rng);
    let ids = [0u64, 1, 2, 3, 77, u64::MAX];
    let epochs = [0u64, 1, 42, 9_007_199_254_740_993, u64::MAX];
    let keys = ["k", "", "k\0ey", "ключ 键 🔑", "with \"quotes\" \\ and\r\nnewline"];
    let envelopes = |rng: &mut Rng, ds: Vec<ReplicationDelta>| -> Vec<(&'static str, GossipMessage)> {
        let (s, t, e) = (ReplicaId(*rng.pick(&ids)), ReplicaId(*rng.pick(&ids)), *rng.pick(&epochs));
        vec![("DeltaBatch", GossipMessage::new_delta_batch(s, ds.clone(), e)), ("TargetedDelta", GossipMessage::new_targeted_delta(s, t, ds.clone(), e)), ("SyncResponse", GossipMessage::SyncResponse { source_replica: s, deltas: ds })]
    };
    // one update per message: every kind in every delta-carrying variant
    for (i, (name, val)) in vals.iter().enumerate() {
        let d = ReplicationDelta::new(keys[i % keys.len()].to_string(), val.clone(), ReplicaId(ids[i % ids.len()]));
        for (variant, m) in envelopes(rng, vec![d.clone()]) { if let Some(f) = gossip_roundtrip(&format!("{} carrying one update ({})", variant, name), &m) { return Some(f); } }
        // the other encodings of the same update (WAL entry, segment, checkpoint) and the relay hop
        if let Some(f) = check_one(&format!("update with a {}", name), &[], std::slice::from_ref(&d)) { return Some(f); }
    }
    // mixed batches, the empty batch
    for (variant, m) in envelopes(rng, Vec::new()) { if let Some(f) = gossip_roundtrip(&format!("{} carrying no update", variant), &m) { return Some(f); } }
    for n in 0..30u64 {
        let k = 2 + rng.below(9);
        let ds: Vec<ReplicationDelta> = (0..k).map(|j| { let (_, val) = rng.pick(&vals); ReplicationDelta::new(format!("{}#{}", rng.pick(&keys), j), val.clone(), ReplicaId(*rng.pick(&ids))) }).collect();
        for (variant, m) in envelopes(rng, ds.clone()) { if let Some(f) = gossip_roundtrip(&format!("{} carrying a mixed batch of {} updates", variant, k), &m) { return Some(f); } }
        if n < 6 { if let Some(f) = check_one(&format!("a mixed batch of {} updates of all kinds", k), &[], &ds) { return Some(f); } }
    }
    // the whole zoo in one message
    let all: Vec<ReplicationDelta> = vals.iter().enumerate().map(|(i, (_, val))| ReplicationDelta::new(format!("all#{}", i), val.clone(), ReplicaId(1))).collect();
    for (variant, m) in envelopes(rng, all) { if let Some(f) = gossip_roundtrip(&format!("{} carrying one update of every kind ({} updates)", variant, vals.len()), &m) { return Some(f); } }
    // heartbeats and sync requests
    for s in ids { for e in epochs { if let Some(f) = gossip_roundtrip("Heartbeat", &GossipMessage::new_heartbeat(ReplicaId(s), e)) { return Some(f); } } }
    for n in 0..12u64 {
        let mut kv: HashMap<String, u64> = HashMap::new();
        for j in 0..(n % 6) * 3 { kv.insert(format!("{}{}", rng.pick(&keys), j), *rng.pick(&epochs)); }
        if n % 2 == 1 { for k in keys { kv.insert(k.to_string(), rng.next()); } }
        let m = GossipMessage::SyncRequest { source_replica: ReplicaId(*rng.pick(&ids)), known_versions: kv };
        if let Some(f) = gossip_roundtrip(&format!("SyncRequest with {} known versions", match &m { GossipMessage::SyncRequest { known_versions, .. } => known_versions.len(), _ => 0 }), &m) { return Some(f); }
    }
    None
}

pub fn search(_pid: &str, _oid: &str, seed: u64) -> Option<Found> {
    let mut rng = Rng::new(seed + 140);
    // SDS itself: new / len / as_bytes are exact
    for (name, p) in payloads(&mut rng) {
        let s = SDS::new(p.clone());
        if s.as_bytes() != &p[..] || s.len() != p.len() || s.clone().as_bytes() != &p[..] { return Some(Found { input: format!("SDS::new({}) [{}]", hex(&p), name), observed: format!("len {} bytes {}", s.len(), hex(s.as_bytes())), required: "the bytes it was built from".into() }); }
    }
    let ps = payloads(&mut rng);
    for (name, p) in &ps {
        for (what, d) in deltas_for(name, p) { if let Some(f) = check_one(&what, p, std::slice::from_ref(&d)) { return Some(f); } }
    }
    // batches mixing several payloads
    for _ in 0..20 {
        let mut batch = Vec::new();
        for i in 0..(2 + rng.below(6)) { let (n, p) = rng.pick(&ps).clone(); let mut ds = deltas_for(&n, &p); let (_, mut d) = ds.swap_remove(rng.below(3) as usize); d.key = format!("{}#{}", d.key, i); batch.push(d); }
        if let Some(f) = check_one(&format!("a batch of {} updates with mixed binary payloads", batch.len()), &[], &batch) { return Some(f); }
    }
    check_gossip_envelope(&mut rng)
}
