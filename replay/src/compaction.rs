//! Unit `compaction` (C13; compaction half of C12): the REAL Compactor::compact over a fault-injecting object store.
//! A layout of segments is generated (small segments that compaction selects, segments padded above the size target that stay
//! outside, overlapping stamp ranges, tombstones, hashes and counters, updates of three replicas; every key keeps one kind and
//! every (time, replica) stamp identifies one write - the side conditions of the convergence theorems).  Then compact() runs
//! once or twice while the store fails or "kills the process" at a chosen call, and FROM INSIDE THE STORE - right after every
//! mutating call whatever its outcome - the image is recovered (RecoveryManager::recover + the merge fold recovery applies) and
//! compared, key by key and observationally, with what the image at entry recovered to:
//!   (R1) recovery succeeds on every intermediate image (no listed object missing or torn);
//!   (R2) every key recovers to an observationally equal value; a TOMBSTONE may have vanished instead (the key then reads as
//!        deleted either way) - anything else (a value resurfacing under a deleted key, a lost hash field, a different LWW winner)
//!        is a finding.
//! Obligation `compaction/Compactor::compact/assert#...ttl` (witness of the open finding): a tombstone that is seconds old is
//! dropped although the configured TTL is 24 hours.
use crate::deltas::lc;
use crate::lattice::obs;
use crate::rng::Rng;
use crate::Found;
use redis_sim::redis::SDS;
use redis_sim::replication::lattice::{GCounter, ReplicaId};
use redis_sim::replication::state::{CrdtValue, ReplicatedValue, ReplicationDelta};
use redis_sim::streaming::compaction::{CompactionConfig, Compactor};
use redis_sim::streaming::{CheckpointConfig, CheckpointInfo, CheckpointManager, Compression, InMemoryObjectStore, ListResult, Manifest, ManifestManager, ObjectMeta, ObjectStore, RecoveryManager, SegmentInfo, SegmentWriter};
use std::collections::{BTreeMap, HashMap, HashSet};
use std::future::Future;
use std::io::{Error as IoError, ErrorKind, Result as IoResult};
use std::pin::Pin;
use std::sync::{Arc, Mutex};
use std::time::Duration;

const PREFIX: &str = "t";

#[derive(Clone, Copy, PartialEq, Debug)]
enum Effect { NotApplied, Applied, Half }
#[derive(Clone, Copy, Debug)]
struct Fault { at: u64, effect: Effect, die: bool }

#[derive(Default)]
struct Shared {
    calls: u64, faults: Vec<Fault>, dead: bool, log: Vec<String>,
    reference: BTreeMap<String, (String, bool)>,   // key -> (observable value, is tombstone) recovered from the image at entry
    violation: Option<(String, String, String)>,
}
#[derive(Clone)]
struct FaultStore { inner: InMemoryObjectStore, sh: Arc<Mutex<Shared>> }
enum Verdict { Pass, Fail(Effect) }
fn injected() -> IoError { IoError::new(ErrorKind::Other, "injected failure") }

/// what recovery rebuilds from an image: per key the merge of every recovered delta (apply_recovered_state does exactly this)
async fn recover_fold(store: &InMemoryObjectStore) -> Result<BTreeMap<String, (String, bool)>, String> {
    let st = RecoveryManager::new(store.clone(), PREFIX, 1).recover().await.map_err(|e| e.to_string())?;
    let mut m: BTreeMap<String, ReplicatedValue> = BTreeMap::new();
    if let Some(cs) = &st.checkpoint_state { for (k, v) in cs { m.insert(k.clone(), v.clone()); } }     // apply_recovered_state installs the checkpoint first
    for d in &st.deltas {
        let v = match m.get(&d.key) { Some(old) => old.merge(&d.value), None => d.value.clone() };
        m.insert(d.key.clone(), v);
    }
    Ok(m.into_iter().map(|(k, v)| { let t = v.is_tombstone(); (k, (obs(&v), t)) }).collect())
}

impl FaultStore {
    fn verdict(&self, what: String) -> Verdict {
        let mut s = self.sh.lock().unwrap();
        let k = s.calls; s.calls += 1;
        if s.dead { s.log.push(format!("#{} {} -> (process dead)", k, what)); return Verdict::Fail(Effect::NotApplied); }
        if let Some(f) = s.faults.iter().find(|f| f.at == k).cloned() {
            if f.die { s.dead = true; }
            s.log.push(format!("#{} {} -> {} ({:?})", k, what, if f.die { "process dies" } else { "Err" }, f.effect));
            return Verdict::Fail(f.effect);
        }
        s.log.push(format!("#{} {}", k, what));
        Verdict::Pass
    }
    fn note(&self, when: String, observed: String, required: String) { let mut s = self.sh.lock().unwrap(); if s.violation.is_none() { s.violation = Some((when, observed, required)); } }
    async fn check_image(&self, when: String) {
        let reference = self.sh.lock().unwrap().reference.clone();
        // every listed SegmentInfo tells the truth about the oldest stamp of its object (the tombstone rule reads it)
        if let Ok(m) = ManifestManager::new(self.inner.clone(), PREFIX).load().await {
            for seg in &m.segments {
                if let Ok(bytes) = self.inner.get(&seg.key).await {
                    if let Ok(r) = redis_sim::streaming::SegmentReader::open(&bytes) { if let Ok(ds) = r.read_all() {
                        if let Some(d) = ds.iter().find(|d| d.value.timestamp.time < seg.min_timestamp) {
                            self.note(when.clone(), format!("segment {} is listed with min_timestamp {} but holds {:?} stamped ({},{})", seg.key, seg.min_timestamp, d.key, d.value.timestamp.time, d.value.timestamp.replica_id.0), "SegmentInfo.min_timestamp <= every stamp in the segment (a later compaction decides from it whether an older value can resurface)".into());
                        }
                    } }
                }
            }
        }
        match recover_fold(&self.inner).await {
            Err(e) => self.note(when, format!("RecoveryManager::recover failed: {}", e), "recovery succeeds on every store image compaction exposes (the manifest never references a missing or partially written object)".into()),
            Ok(now) => {
                for (k, (want, tomb)) in &reference {
                    match now.get(k) {
                        Some((got, _)) if got == want => {}
                        None if *tomb => {}      // a dropped tombstone: the key reads as deleted either way
                        Some((got, _)) => { self.note(when.clone(), format!("key {:?} recovers to {}", k, got), format!("the value recovered before the compaction: {}", want)); return; }
                        None => { self.note(when.clone(), format!("key {:?} is gone", k), format!("the value recovered before the compaction: {}", want)); return; }
                    }
                }
                if let Some((k, (got, _))) = now.iter().find(|(k, _)| !reference.contains_key(*k)) { self.note(when, format!("key {:?} appeared: {}", k, got), "only keys that were persisted".into()); }
            }
        }
    }
}
impl ObjectStore for FaultStore {
    fn put<'a>(&'a self, key: &'a str, data: &'a [u8]) -> Pin<Box<dyn Future<Output = IoResult<()>> + Send + 'a>> {
        Box::pin(async move {
            let r = match self.verdict(format!("put {} ({} bytes)", key, data.len())) {
                Verdict::Pass => self.inner.put(key, data).await,
                Verdict::Fail(Effect::NotApplied) => Err(injected()),
                Verdict::Fail(Effect::Applied) => { self.inner.put(key, data).await?; Err(injected()) }
                Verdict::Fail(Effect::Half) => { self.inner.put(key, &data[..data.len() / 2]).await?; Err(injected()) }
            };
            self.check_image(format!("right after `put {}` ({})", key, if r.is_ok() { "Ok" } else { "Err / death" })).await;
            r
        })
    }
    fn get<'a>(&'a self, key: &'a str) -> Pin<Box<dyn Future<Output = IoResult<Vec<u8>>> + Send + 'a>> {
        Box::pin(async move { match self.verdict(format!("get {}", key)) { Verdict::Pass => self.inner.get(key).await, Verdict::Fail(..) => Err(IoError::new(ErrorKind::TimedOut, "injected failure")) } })
    }
    fn exists<'a>(&'a self, key: &'a str) -> Pin<Box<dyn Future<Output = IoResult<bool>> + Send + 'a>> {
        Box::pin(async move { match self.verdict(format!("exists {}", key)) { Verdict::Pass => self.inner.exists(key).await, Verdict::Fail(..) => Err(injected()) } })
    }
    fn delete<'a>(&'a self, key: &'a str) -> Pin<Box<dyn Future<Output = IoResult<()>> + Send + 'a>> {
        Box::pin(async move {
            let r = match self.verdict(format!("delete {}", key)) { Verdict::Pass => self.inner.delete(key).await, Verdict::Fail(Effect::Applied) => { self.inner.delete(key).await?; Err(injected()) } Verdict::Fail(..) => Err(injected()) };
            self.check_image(format!("right after `delete {}`", key)).await;
            r
        })
    }
    fn list<'a>(&'a self, prefix: &'a str, token: Option<&'a str>) -> Pin<Box<dyn Future<Output = IoResult<ListResult>> + Send + 'a>> {
        Box::pin(async move { match self.verdict(format!("list {}", prefix)) { Verdict::Pass => self.inner.list(prefix, token).await, Verdict::Fail(..) => Err(injected()) } })
    }
    fn rename<'a>(&'a self, from: &'a str, to: &'a str) -> Pin<Box<dyn Future<Output = IoResult<()>> + Send + 'a>> {
        Box::pin(async move {
            let r = match self.verdict(format!("rename {} -> {}", from, to)) {
                Verdict::Pass => self.inner.rename(from, to).await,
                Verdict::Fail(Effect::NotApplied) => Err(injected()),
                Verdict::Fail(Effect::Applied) => { self.inner.rename(from, to).await?; Err(injected()) }
                Verdict::Fail(Effect::Half) => { let d = self.inner.get(from).await?; self.inner.put(to, &d).await?; Err(injected()) }
            };
            self.check_image(format!("right after `rename {} -> {}` ({})", from, to, if r.is_ok() { "Ok" } else { "Err / death" })).await;
            r
        })
    }
    fn head<'a>(&'a self, key: &'a str) -> Pin<Box<dyn Future<Output = IoResult<ObjectMeta>> + Send + 'a>> {
        Box::pin(async move { match self.verdict(format!("head {}", key)) { Verdict::Pass => self.inner.head(key).await, Verdict::Fail(..) => Err(injected()) } })
    }
}

/// key i has one kind for its whole life: 0,1,4 LWW string (values and tombstones), 2 hash, 3 grow-only counter
fn kind_of(i: u64) -> u64 { match i % 5 { 2 => 2, 3 => 3, _ => 0 } }
fn value(kind: u64, tomb: bool, t: u64, r: u64) -> ReplicatedValue {
    let ts = lc(t, r);
    match kind {
        0 if tomb => { let mut v = ReplicatedValue::new(ReplicaId(r)); let mut c = lc(t - 1, r); v.delete(&mut c); v }
        0 => ReplicatedValue::with_value(SDS::from_str(&format!("v{}_{}", t, r)), ts),
        2 => {
            let mut v = ReplicatedValue::with_crdt(CrdtValue::new_hash(), ReplicaId(r));
            let mut c = lc(t - 1, r);
            v.hash_set(format!("f{}", (t * 7 + r) % 4), SDS::from_str(&format!("h{}_{}", t, r)), &mut c);
            v
        }
        _ => { let mut g = GCounter::new(); g.increment_by(ReplicaId(r), t); let mut v = ReplicatedValue::with_crdt(CrdtValue::GCounter(g), ReplicaId(r)); v.timestamp = ts; v }
    }
}
struct Layout { segs: Vec<(Vec<ReplicationDelta>, bool)>, text: String, ckpt: Vec<(String, ReplicatedValue)> }
fn layout(rng: &mut Rng) -> Layout {
    let nseg = 2 + rng.below(5);
    let nkeys = 1 + rng.below(5);
    let mut used: HashSet<(u64, u64, u64)> = HashSet::new();
    let mut segs = Vec::new();
    let mut text = Vec::new();
    for s in 0..nseg {
        let big = rng.chance(1, 4);
        let n = rng.below(5);
        let mut ds = Vec::new();
        let mut keys_here: HashSet<u64> = HashSet::new();
        for _ in 0..n {
            let ki = rng.below(nkeys);
            if !keys_here.insert(ki) { continue; }        // a flush buffer may hold a key several times; keep one per segment for readability
            let span = if rng.chance(1, 3) { 4 } else { 40 };
            let (t, r) = (1 + rng.below(span), 1 + rng.below(3));
            if !used.insert((ki, t, r)) { continue; }       // a stamp identifies one write
            let kind = kind_of(ki);
            let tomb = kind == 0 && rng.chance(1, 3);
            ds.push(ReplicationDelta::new(format!("k{}", ki), value(kind, tomb, t, r), ReplicaId(r)));
            text.push(format!("seg{}{}: k{} {}@({},{})", s, if big { "(big)" } else { "" }, ki, if tomb { "DEL".to_string() } else { ["SET", "", "HSET", "INCR"][kind as usize].to_string() }, t, r));
        }
        if big { for p in 0..30 { ds.push(ReplicationDelta::new(format!("pad{}_{}", s, p), ReplicatedValue::with_value(SDS::from_str("xxxxxxxxxxxxxxxxxxxxxxxxxxxxxxxxxxxxxxxxxxxxxxxx"), lc(100 + p, 1)), ReplicaId(1))); } }
        if ds.is_empty() { ds.push(ReplicationDelta::new(format!("solo{}", s), ReplicatedValue::with_value(SDS::from_str("s"), lc(90 + s, 2)), ReplicaId(2))); }
        segs.push((ds, big));
    }
    // one layout in four has a checkpoint holding an OLDER value (stamp time 0) of some LWW keys: what a tombstone must keep shadowing
    let mut ckpt = Vec::new();
    if rng.chance(1, 4) {
        for ki in 0..nkeys { if kind_of(ki) == 0 && rng.chance(1, 2) { ckpt.push((format!("k{}", ki), ReplicatedValue::with_value(SDS::from_str(&format!("ckpt{}", ki)), lc(0, 1)))); text.push(format!("checkpoint: k{} SET@(0,1)", ki)); } }
    }
    Layout { segs, text: text.join("; "), ckpt }
}
async fn install(store: &InMemoryObjectStore, l: &Layout) {
    let mut m = Manifest::new(1);
    // with a checkpoint the segment ids start at 1: the checkpoint "covers" segment 0, which is gone (last_segment_id cannot say "covers nothing")
    let first = if l.ckpt.is_empty() { 0 } else { 1 };
    for (id, (ds, _)) in l.segs.iter().enumerate() {
        let id = id + first;
        let key = format!("{}/segments/segment-{:08}.seg", PREFIX, id);
        let mut w = SegmentWriter::new(Compression::None);
        let (mut lo, mut hi) = (u64::MAX, 0u64);
        for d in ds { w.write_delta(d).unwrap(); lo = lo.min(d.value.timestamp.time); hi = hi.max(d.value.timestamp.time); }
        let data = w.finish().unwrap();
        store.put(&key, &data).await.unwrap();
        m.add_segment(SegmentInfo { id: id as u64, key, record_count: ds.len() as u32, size_bytes: data.len() as u64, min_timestamp: lo, max_timestamp: hi });
        m.next_segment_id = id as u64 + 1;
    }
    let mm = ManifestManager::new(store.clone(), PREFIX);
    mm.save(&m).await.unwrap();
    if !l.ckpt.is_empty() {
        let state: HashMap<String, ReplicatedValue> = l.ckpt.iter().cloned().collect();
        let cm = CheckpointManager::new(Arc::new(store.clone()), PREFIX.to_string(), mm.clone(), CheckpointConfig::test());
        let res = cm.create_checkpoint(state, 0).await.unwrap();
        m.checkpoint = Some(CheckpointInfo { key: res.key.clone(), timestamp_ms: res.timestamp_ms, key_count: res.key_count, last_segment_id: res.last_segment_id });
        m.version += 1;
        mm.save(&m).await.unwrap();
    }
}

async fn run(lseed: u64, faults: Vec<Fault>, passes: usize, ttl: Duration) -> (Option<Found>, u64) {
    let inner = InMemoryObjectStore::new();
    let mut rng = Rng::new(lseed);
    let l = layout(&mut rng);
    install(&inner, &l).await;
    let reference = match recover_fold(&inner).await { Ok(r) => r, Err(_) => return (None, 0) };
    let fs = FaultStore { inner: inner.clone(), sh: Arc::new(Mutex::new(Shared { faults: faults.clone(), reference, ..Default::default() })) };
    let store = Arc::new(fs.clone());
    let mut cfg = CompactionConfig::test();
    cfg.tombstone_ttl = ttl;
    let mut trace = Vec::new();
    for p in 0..passes {
        let mut c = Compactor::new(store.clone(), PREFIX.to_string(), ManifestManager::new((*store).clone(), PREFIX), cfg.clone());
        let res = c.compact().await;
        trace.push(format!("compact #{} -> {}", p, match &res { Ok(r) => format!("Ok(removed {}, created {}, tombstones_removed {})", r.segments_removed.len(), r.segment_created.is_some(), r.tombstones_removed), Err(e) => format!("Err({})", e) }));
        if fs.sh.lock().unwrap().dead { trace.push("process restarts".into()); fs.sh.lock().unwrap().dead = false; }
        fs.check_image(format!("after compact #{} returned", p)).await;
        if fs.sh.lock().unwrap().violation.is_some() { break; }
    }
    let s = fs.sh.lock().unwrap();
    let ctx = format!("layout (seed {}): [{}]; tombstone_ttl {:?}; faults {:?}; {}; store calls: [{}]", lseed, l.text, ttl, faults, trace.join("; "), s.log.join(", "));
    if let Some((when, observed, required)) = s.violation.clone() { return (Some(Found { input: format!("{}; checked {}", ctx, when), observed, required }), s.calls); }
    (None, s.calls)
}

/// witness of the open finding: the TTL half of the drop rule
async fn ttl_witness() -> Option<Found> {
    let store = InMemoryObjectStore::new();
    let l = Layout { segs: vec![(vec![ReplicationDelta::new("k".into(), value(0, false, 1, 1), ReplicaId(1))], false), (vec![ReplicationDelta::new("k".into(), value(0, true, 50, 1), ReplicaId(1))], false)], text: String::new(), ckpt: Vec::new() };
    install(&store, &l).await;
    let mut cfg = CompactionConfig::test();
    cfg.tombstone_ttl = Duration::from_secs(24 * 3600);
    let a = Arc::new(store.clone());
    let mut c = Compactor::new(a.clone(), PREFIX.to_string(), ManifestManager::new(store.clone(), PREFIX), cfg);
    let res = c.compact().await.ok()?;
    let st = RecoveryManager::new(store.clone(), PREFIX, 1).recover().await.ok()?;
    let has_tomb = st.deltas.iter().any(|d| d.key == "k" && d.value.is_tombstone());
    if res.tombstones_removed > 0 && !has_tomb {
        return Some(Found { input: "segments [SET k@(1,1)], [DEL k@(50,1)] written a moment ago; CompactionConfig.tombstone_ttl = 24 h; compact()".into(),
            observed: format!("tombstones_removed = {}: the tombstone of k is in no segment any more (Lamport tick 50 was compared with wall-clock milliseconds minus the TTL)", res.tombstones_removed),
            required: "a tombstone may be dropped only when it is older than the configured TTL (a replica that has not yet seen the delete, or a delayed older SET, resurrects k)".into() });
    }
    None
}

pub fn search(_pid: &str, oid: &str, seed: u64) -> Option<Found> {
    let rt = tokio::runtime::Builder::new_current_thread().enable_all().build().ok()?;
    redis_sim::buggify::set_config(redis_sim::buggify::FaultConfig::new());
    if oid.contains("ttl") { return rt.block_on(ttl_witness()); }   // lemma_dropped_tombstone_outlived_ttl
    let day = Duration::from_secs(24 * 3600);
    // ---- no fault: many layouts, one and two passes
    for ls in 0..400u64 {
        let (f, _) = rt.block_on(run(ls * 31 + seed, vec![], 1 + (ls % 2) as usize, day));
        if f.is_some() { return f; }
    }
    // ---- one fault at every call index, every effect, failing or fatal
    for ls in 0..24u64 {
        let lseed = ls * 977 + seed;
        let (_, total) = rt.block_on(run(lseed, vec![], 1, day));
        for k in 0..total { for die in [false, true] { for effect in [Effect::NotApplied, Effect::Applied, Effect::Half] {
            let (f, _) = rt.block_on(run(lseed, vec![Fault { at: k, effect, die }], 2, day));
            if f.is_some() { return f; }
        } } }
    }
    // ---- seeded random: up to 3 faults
    let mut rng = Rng::new(seed + 1313);
    for _ in 0..300u64 {
        let nf = 1 + rng.below(3);
        let faults: Vec<Fault> = (0..nf).map(|_| Fault { at: rng.below(30), effect: *rng.pick(&[Effect::NotApplied, Effect::Applied, Effect::Half]), die: rng.chance(1, 3) }).collect();
        let (f, _) = rt.block_on(run(rng.next() % 100000, faults, 2, day));
        if f.is_some() { return f; }
    }
    None
}
