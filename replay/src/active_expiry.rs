//! Unit `active_expiry` (C01 / C17): the executor's clock and sweep entries and its read-only entry, on the real CommandExecutor.
//!  (A) a sweep is UNOBSERVABLE: one command script (writes of every type, every way of attaching / changing / dropping a
//!      deadline, reads) is run twice on twin executors over the same clock steps - once with the clock moved by
//!      update_time_readonly only (expiry is lazy), once with set_time / evict_expired_direct sweeps at the clock steps and in
//!      between commands: the sequences of replies must be THE SAME (a key with a deadline is visible at every instant strictly
//!      before it and at none at or after it, whoever removes it).  Every evict_expired_direct returns the number of keys that
//!      were due (stored keys minus visible keys), and leaves exactly the visible keys stored.
//!  (B) execute_readonly answers GET / EXISTS / KEYS / DBSIZE / PING exactly as execute does on the same state (the replicated
//!      node fans reads out through it), including states that still hold expired keys.
//!  (C) KEYS pattern == an independent matcher written from the Redis documentation of KEYS (`?` one byte, `*` any run, `[ae]`,
//!      `[^e]`, `[a-c]`), on conforming patterns: no backslash, every class closed, ranges ordered and complete.
use crate::executor::{cmd_text, sds, show};
use crate::rng::Rng;
use crate::Found;
use redis_sim::redis::{Command, CommandExecutor, RespValue};
use redis_sim::simulator::VirtualTime;
use std::collections::BTreeSet;
use std::panic::{catch_unwind, AssertUnwindSafe};

const EPOCH_MS: i64 = 1_700_000_000_000;
const KEYS: [&str; 6] = ["k0", "k1", "k2", "k3", "list", "é"];

fn pmsg(e: Box<dyn std::any::Any + Send>) -> String { e.downcast_ref::<String>().cloned().or_else(|| e.downcast_ref::<&str>().map(|s| s.to_string())).unwrap_or_default() }

/// a reply with the freedom the protocol leaves removed (KEYS / SMEMBERS / HKEYS / HVALS come in table order)
fn norm(c: &Command, r: &RespValue) -> String {
    match (c, r) {
        (Command::Keys(_) | Command::SMembers(_) | Command::HKeys(_) | Command::HVals(_), RespValue::Array(Some(a))) => { let mut v: Vec<String> = a.iter().map(show).collect(); v.sort(); format!("[{}] (any order)", v.join(",")) }
        _ => show(r),
    }
}
fn exec(ex: &mut CommandExecutor, c: &Command) -> String { match catch_unwind(AssertUnwindSafe(|| ex.execute(c))) { Ok(r) => norm(c, &r), Err(e) => format!("PANIC({})", pmsg(e)) } }
fn exec_ro(ex: &CommandExecutor, c: &Command) -> String { match catch_unwind(AssertUnwindSafe(|| ex.execute_readonly(c))) { Ok(r) => norm(c, &r), Err(e) => format!("PANIC({})", pmsg(e)) } }

fn fresh(t0: u64) -> CommandExecutor {
    let mut ex = CommandExecutor::new();
    ex.set_simulation_start_epoch_ms(EPOCH_MS);
    ex.set_simulation_start_epoch(EPOCH_MS / 1000);
    ex.set_time(VirtualTime::from_millis(t0));
    ex
}

#[derive(Clone, Debug)]
enum Step { Cmd(Command), Clock(u64) }
fn step_text(s: &Step) -> String { match s { Step::Cmd(c) => cmd_text(c), Step::Clock(t) => format!("[clock -> {} ms]", t) } }

/// is this one of the commands the read-only entry answers?
fn ro_cmd(c: &Command) -> bool { matches!(c, Command::Get(_) | Command::Exists(_) | Command::Keys(_) | Command::DbSize | Command::Ping(_)) }

/// replies of the two entries agree (error TEXTS are not part of the contract: an error is an error of the same class)
fn same_reply(a: &str, b: &str) -> bool {
    if a.starts_with('-') && b.starts_with('-') { return a.split_whitespace().next() == b.split_whitespace().next(); }
    a == b
}

/// (B) on the live state: the read-only entry first (it cannot change anything), then execute
fn ro_vs_execute(ex: &mut CommandExecutor, c: &Command, ctx: &dyn Fn() -> String) -> Result<String, Found> {
    let ro = if ro_cmd(c) { Some(exec_ro(ex, c)) } else { None };
    let r = exec(ex, c);
    if let Some(ro) = ro {
        if !same_reply(&ro, &r) {
            return Err(Found { input: format!("{}; then {} through both entries", ctx(), cmd_text(c)), observed: format!("execute_readonly replies {}", ro), required: format!("{} - what execute replies on the same state (the replicated node sends this command through execute_readonly)", r) });
        }
    }
    Ok(r)
}

/// evict_expired_direct at the executor's current clock: returns the number of due keys, leaves exactly the visible keys
fn counted_sweep(ex: &mut CommandExecutor, t: u64, ctx: &dyn Fn() -> String) -> Option<Found> {
    ex.update_time_readonly(VirtualTime::from_millis(t));
    let visible: BTreeSet<String> = match ex.execute_readonly(&Command::Keys("*".into())) { RespValue::Array(Some(a)) => a.iter().filter_map(|x| if let RespValue::BulkString(Some(b)) = x { Some(String::from_utf8_lossy(b).to_string()) } else { None }).collect(), other => return Some(Found { input: ctx(), observed: format!("KEYS * -> {}", show(&other)), required: "an array".into() }) };
    let stored = ex.get_data().len();
    let n = match catch_unwind(AssertUnwindSafe(|| ex.evict_expired_direct(VirtualTime::from_millis(t)))) { Ok(n) => n, Err(e) => return Some(Found { input: format!("{}; evict_expired_direct({} ms)", ctx(), t), observed: format!("panic: {}", pmsg(e)), required: "the sweep returns".into() }) };
    let left: BTreeSet<String> = ex.get_data().keys().cloned().collect();
    if n != stored - visible.len().min(stored) || left != visible {
        return Some(Found { input: format!("{}; evict_expired_direct({} ms) with {} keys stored, of which visible at that instant: {:?}", ctx(), t, stored, visible), observed: format!("returned {}; keys stored afterwards: {:?}", n, left), required: format!("returns {} (the number of keys whose deadline is at or before the clock) and removes exactly those", stored - visible.len().min(stored)) });
    }
    None
}

fn gen_script(rng: &mut Rng, t0: u64, n: usize) -> Vec<Step> {
    let mut now = t0;
    let mut deadlines: Vec<u64> = Vec::new();
    let mut steps = Vec::new();
    for i in 0..n {
        let k = rng.pick(&KEYS).to_string();
        let k2 = rng.pick(&KEYS).to_string();
        let v = format!("v{}", i);
        let rel: i64 = match rng.below(8) { 0 => 0, 1 => -5, 2 => 1, _ => 1 + rng.below(4000) as i64 };
        let (nx, xx, gt, lt) = *rng.pick(&[(false, false, false, false), (false, false, false, false), (true, false, false, false), (false, true, false, false), (false, false, true, false), (false, false, false, true)]);
        let c = match rng.below(44) {
            0..=3 => Command::Set { key: k, value: sds(&v), ex: None, px: Some(rel.max(1)), exat: None, pxat: None, nx: false, xx: false, get: rng.chance(1, 5), keepttl: false },
            4 => Command::Set { key: k, value: sds(&v), ex: Some(rel.max(1) / 1000 + 1), px: None, exat: None, pxat: None, nx: rng.chance(1, 3), xx: false, get: false, keepttl: false },
            5 => Command::Set { key: k, value: sds(&v), ex: None, px: None, exat: None, pxat: None, nx: false, xx: rng.chance(1, 3), get: false, keepttl: rng.chance(1, 2) },
            6 => Command::Set { key: k, value: sds(&v), ex: None, px: None, exat: None, pxat: Some(EPOCH_MS + now as i64 + rel), nx: false, xx: false, get: false, keepttl: false },
            7..=9 => Command::PExpire { key: k, milliseconds: rel, nx, xx, gt, lt },
            10 => Command::Expire { key: k, seconds: rel / 1000 + 1, nx, xx, gt, lt },
            11 => Command::PExpireAt(k, EPOCH_MS + now as i64 + rel),
            12 => Command::Persist(k),
            13 => Command::Del(vec![k, k2]),
            14 => Command::RPush(k, vec![sds(&v)]),
            15 => Command::LPop(k),
            16 => Command::HSet(k, vec![(sds("f"), sds(&v))]),
            17 => Command::HDel(k, vec![sds("f")]),
            18 => Command::SAdd(k, vec![sds(&v), sds("m")]),
            19 => Command::SRem(k, vec![sds("m")]),
            20 => Command::ZAdd { key: k, pairs: vec![(i as f64, sds("z"))], nx: false, xx: false, gt: false, lt: false, ch: false },
            21 => Command::Incr(k),
            22 => Command::Append(k, sds("+")),
            23 => Command::Rename(k, k2),
            24 => Command::RenameNx(k, k2),
            25 => Command::GetEx { key: k, ex: None, px: if rng.chance(1, 2) { Some(rel.max(1)) } else { None }, exat: None, pxat: None, persist: rng.chance(1, 4) },
            26 => Command::GetDel(k),
            27 => Command::GetSet(k, sds(&v)),
            28 => Command::MSet(vec![(k, sds(&v)), (k2, sds("w"))]),
            29 => Command::SetNx(k, sds(&v)),
            30 => Command::Get(k),
            31 => Command::Exists(vec![k, k2, "k0".into()]),
            32 => Command::Keys(rng.pick(&["*", "k*", "k[0-2]", "?", "??", "[^k]*"]).to_string()),
            33 => Command::DbSize,
            34 => Command::Pttl(k),
            35 => Command::Ttl(k),
            36 => Command::TypeOf(k),
            37 => match rng.below(6) { 0 => Command::StrLen(k), 1 => Command::LLen(k), 2 => Command::HGet(k, sds("f")), 3 => Command::SCard(k), 4 => Command::ZCard(k), _ => Command::SMembers(k) },
            38 => Command::MGet(vec![k, k2]),
            39 => Command::PExpireTime(k),
            40 => if rng.chance(1, 6) { Command::FlushDb } else { Command::Ping(if rng.chance(1, 2) { Some(sds("hello")) } else { None }) },
            _ => {
                let target = if !deadlines.is_empty() && rng.chance(3, 4) { let d = *rng.pick(&deadlines); match rng.below(3) { 0 => d.saturating_sub(1), 1 => d, _ => d + 1 } } else { now + rng.below(2500) };
                if target > now { now = target; }
                steps.push(Step::Clock(now));
                continue;
            }
        };
        match &c {
            Command::PExpire { milliseconds, .. } if *milliseconds > 0 => deadlines.push(now + *milliseconds as u64),
            Command::Expire { seconds, .. } if *seconds > 0 => deadlines.push(now + *seconds as u64 * 1000),
            Command::Set { px: Some(p), .. } | Command::GetEx { px: Some(p), .. } if *p > 0 => deadlines.push(now + *p as u64),
            Command::Set { ex: Some(s), .. } if *s > 0 => deadlines.push(now + *s as u64 * 1000),
            Command::PExpireAt(_, t) | Command::Set { pxat: Some(t), .. } if *t > EPOCH_MS => deadlines.push((*t - EPOCH_MS) as u64),
            _ => {}
        }
        steps.push(Step::Cmd(c));
    }
    steps
}

/// (A) + (B): the script on twins; `sweep_seed` decides where the swept twin sweeps and how
fn check_script(steps: &[Step], t0: u64, sweep_seed: u64, label: &str) -> Option<Found> {
    let mut lazy = fresh(t0);
    let mut swept = fresh(t0);
    let mut srng = Rng::new(sweep_seed);
    let eager = sweep_seed % 3 == 0; // every clock step sweeps, and every command is preceded by a sweep
    let mut now = t0;
    let mut sweeps: Vec<String> = Vec::new();
    for (i, st) in steps.iter().enumerate() {
        let ctx = |sw: &Vec<String>| format!("{}: clock starts at {} ms; script: {}; sweeps on the second executor: [{}]", label, t0, steps[..i].iter().map(step_text).collect::<Vec<_>>().join("; "), if sw.len() > 8 { format!("{} earlier sweeps (set_time / evict_expired_direct{}), {}", sw.len() - 6, if eager { " before every command" } else { "" }, sw[sw.len() - 6..].join(", ")) } else { sw.join(", ") });
        match st {
            Step::Clock(t) => {
                now = *t;
                lazy.update_time_readonly(VirtualTime::from_millis(now));
                match if eager { srng.below(2) } else { srng.below(3) } {
                    0 => { swept.set_time(VirtualTime::from_millis(now)); sweeps.push(format!("set_time({}) at step {}", now, i)); }
                    1 => { sweeps.push(format!("evict_expired_direct({}) at step {}", now, i)); let sw = sweeps.clone(); if let Some(f) = counted_sweep(&mut swept, now, &|| ctx(&sw)) { return Some(f); } }
                    _ => swept.update_time_readonly(VirtualTime::from_millis(now)),
                }
            }
            Step::Cmd(c) => {
                if eager || srng.chance(1, 4) {
                    if srng.chance(1, 2) { swept.set_time(VirtualTime::from_millis(now)); sweeps.push(format!("set_time({}) before step {}", now, i)); }
                    else { sweeps.push(format!("evict_expired_direct({}) before step {}", now, i)); let sw = sweeps.clone(); if let Some(f) = counted_sweep(&mut swept, now, &|| ctx(&sw)) { return Some(f); } }
                }
                let none: Vec<String> = Vec::new();
                let a = match ro_vs_execute(&mut lazy, c, &|| ctx(&none)) { Ok(r) => r, Err(f) => return Some(f) };
                let sw = sweeps.clone();
                let b = match ro_vs_execute(&mut swept, c, &|| ctx(&sw)) { Ok(r) => r, Err(f) => return Some(f) };
                if a != b {
                    return Some(Found { input: format!("{}; then {} at clock {} ms", ctx(&sweeps), cmd_text(c), now), observed: format!("the executor that was swept replies {}", b), required: format!("{} - the reply of the executor whose clock moved without any sweep: removing expired keys early must not be observable", a) });
                }
            }
        }
    }
    // at the end: one sweep of the lazy twin returns what is due and both hold the same keys
    if let Some(f) = counted_sweep(&mut lazy, now, &|| format!("{}: clock starts at {} ms; script: {}; no sweep so far", label, t0, steps.iter().map(step_text).collect::<Vec<_>>().join("; "))) { return Some(f); }
    swept.set_time(VirtualTime::from_millis(now));
    let (a, b): (BTreeSet<String>, BTreeSet<String>) = (lazy.get_data().keys().cloned().collect(), swept.get_data().keys().cloned().collect());
    if a != b { return Some(Found { input: format!("{}: script: {}; then both executors are swept at {} ms", label, steps.iter().map(step_text).collect::<Vec<_>>().join("; "), now), observed: format!("keys stored: {:?} (never swept before) vs {:?} (swept at [{}])", a, b, sweeps.join(", ")), required: "the same keys".into() }); }
    None
}

fn structured_scripts() -> Vec<(String, Vec<Step>)> {
    let set_px = |k: &str, px: i64| Step::Cmd(Command::Set { key: k.into(), value: sds("v"), ex: None, px: Some(px), exat: None, pxat: None, nx: false, xx: false, get: false, keepttl: false });
    let reads = |k: &str| vec![Step::Cmd(Command::Get(k.into())), Step::Cmd(Command::Exists(vec![k.into(), "k1".into()])), Step::Cmd(Command::Keys("*".into())), Step::Cmd(Command::DbSize), Step::Cmd(Command::Pttl(k.into())), Step::Cmd(Command::TypeOf(k.into()))];
    let mut out = Vec::new();
    for d in [1i64, 500, 1000] {
        for off in [-1i64, 0, 1] {
            let mut s = vec![set_px("k0", d), Step::Cmd(Command::set("k1".into(), sds("w"))), Step::Clock((100 + d + off) as u64)];
            s.extend(reads("k0"));
            out.push((format!("SET PX {} then reads at deadline{:+}", d, off), s));
        }
    }
    // every type under a deadline; write commands that meet an expired key
    let mk: Vec<(&str, Command)> = vec![
        ("list", Command::RPush("k0".into(), vec![sds("a")])), ("hash", Command::HSet("k0".into(), vec![(sds("f"), sds("a"))])),
        ("set", Command::SAdd("k0".into(), vec![sds("a")])), ("zset", Command::ZAdd { key: "k0".into(), pairs: vec![(1.0, sds("a"))], nx: false, xx: false, gt: false, lt: false, ch: false }),
        ("string", Command::set("k0".into(), sds("5"))),
    ];
    let after: Vec<Command> = vec![
        Command::Incr("k0".into()), Command::Append("k0".into(), sds("x")), Command::RPush("k0".into(), vec![sds("b")]), Command::SAdd("k0".into(), vec![sds("b")]), Command::HSet("k0".into(), vec![(sds("g"), sds("b"))]),
        Command::Rename("k0".into(), "k2".into()), Command::RenameNx("k0".into(), "k2".into()), Command::Rename("k1".into(), "k0".into()), Command::SetNx("k0".into(), sds("n")), Command::Persist("k0".into()),
        Command::PExpire { key: "k0".into(), milliseconds: 50, nx: false, xx: false, gt: false, lt: false }, Command::GetDel("k0".into()), Command::GetSet("k0".into(), sds("n")), Command::Del(vec!["k0".into()]),
        Command::Set { key: "k0".into(), value: sds("n"), ex: None, px: None, exat: None, pxat: None, nx: true, xx: false, get: false, keepttl: false },
        Command::Set { key: "k0".into(), value: sds("n"), ex: None, px: None, exat: None, pxat: None, nx: false, xx: true, get: true, keepttl: true },
        Command::MGet(vec!["k0".into(), "k1".into()]), Command::StrLen("k0".into()), Command::LLen("k0".into()),
    ];
    for (ty, c) in &mk { for a in &after { for off in [0u64, 1] {
        let mut s = vec![Step::Cmd(c.clone()), Step::Cmd(Command::set("k1".into(), sds("w"))), Step::Cmd(Command::PExpire { key: "k0".into(), milliseconds: 300, nx: false, xx: false, gt: false, lt: false }), Step::Clock(100 + 300 - 1 + off), Step::Cmd(a.clone())];
        s.extend(reads("k0")); s.extend(reads("k2"));
        out.push((format!("{} with a 300 ms deadline, then {} at deadline{:+}", ty, cmd_text(a), off as i64 - 1), s));
    } } }
    out
}

// ------------------------------------------------ (C) KEYS matching ------------------------------------------------
/// the KEYS documentation, byte-wise: `?` one byte, `*` any run, `[..]` one byte of the class (`^` first negates, `x-y` a range)
fn doc_match(s: &[u8], p: &[u8]) -> bool {
    if p.is_empty() { return s.is_empty(); }
    match p[0] {
        b'*' => (0..=s.len()).any(|j| doc_match(&s[j..], &p[1..])),
        b'?' => !s.is_empty() && doc_match(&s[1..], &p[1..]),
        b'[' => {
            let close = match p.iter().position(|b| *b == b']') { Some(c) => c, None => return false };
            if s.is_empty() { return false; }
            let (neg, body) = if p.len() > 1 && p[1] == b'^' { (true, &p[2..close]) } else { (false, &p[1..close]) };
            let mut hit = false; let mut q = 0;
            while q < body.len() {
                if q + 2 < body.len() && body[q + 1] == b'-' { if body[q] <= s[0] && s[0] <= body[q + 2] { hit = true; } q += 3; } else { if body[q] == s[0] { hit = true; } q += 1; }
            }
            hit != neg && doc_match(&s[1..], &p[close + 1..])
        }
        c => !s.is_empty() && s[0] == c && doc_match(&s[1..], &p[1..]),
    }
}
/// the fragment on which the documentation leaves no doubt: no backslash; every `[` has its `]`; inside a class a `-` that
/// follows a member is the middle of a complete, ordered range
fn conforming(p: &[u8]) -> bool {
    let mut i = 0;
    while i < p.len() {
        if p[i] == b'\\' { return false; }
        if p[i] == b'[' {
            let e = match p[i + 1..].iter().position(|b| *b == b']') { Some(o) => i + 1 + o, None => return false };
            let mut q = if i + 1 < p.len() && p[i + 1] == b'^' { i + 2 } else { i + 1 };
            if q > e { return false; }
            while q < e {
                if p[q] == b'\\' { return false; }
                if q + 1 < e && p[q + 1] == b'-' { if !(q + 2 < e && p[q] <= p[q + 2]) { return false; } q += 3; } else { q += 1; }
            }
            i = e + 1;
        } else { i += 1; }
    }
    true
}

fn gen_pattern(rng: &mut Rng) -> String {
    let lits = ["a", "b", "c", "k", "0", "1", "-", "^", "]", "é", ":"];
    let mut p = String::new();
    for _ in 0..(1 + rng.below(5)) {
        match rng.below(9) {
            0 | 1 => p.push('*'), 2 => p.push('?'),
            3 | 4 => {
                p.push('['); if rng.chance(1, 3) { p.push('^'); }
                for _ in 0..rng.below(4) { match rng.below(4) { 0 => { let a = *rng.pick(&[b'a', b'b', b'0', b'-', b'A']); let b = a + rng.below(4) as u8; p.push(a as char); p.push('-'); p.push(b as char); } 1 => p.push(*rng.pick(&['^', '-', '[', '*', '?'])), _ => p.push_str(*rng.pick(&["a", "b", "c", "k", "0", "1"])) } }
                p.push(']');
            }
            _ => p.push_str(*rng.pick(&lits)),
        }
    }
    p
}
fn gen_key(rng: &mut Rng) -> String {
    let alpha = ["a", "b", "c", "d", "k", "0", "1", "2", "-", "^", "]", "[", "*", "?", "é", ":", "A", "B"];
    (0..rng.below(5)).map(|_| *rng.pick(&alpha)).collect::<Vec<_>>().join("")
}

fn check_glob(keys: &[String], patterns: &[String]) -> Option<Found> {
    let mut ex = fresh(100);
    for k in keys { ex.execute(&Command::set(k.clone(), sds("v"))); }
    for p in patterns {
        if !conforming(p.as_bytes()) { continue; }
        let mut want: Vec<String> = keys.iter().filter(|k| doc_match(k.as_bytes(), p.as_bytes())).map(|k| format!("\"{}\"", k)).collect();
        want.sort(); want.dedup();
        let want = format!("[{}] (any order)", want.join(","));
        let c = Command::Keys(p.clone());
        for (entry, got) in [("execute", exec(&mut ex, &c)), ("execute_readonly", exec_ro(&ex, &c))] {
            if got != want {
                return Some(Found { input: format!("keys {:?}; KEYS {} through {}", keys, p, entry), observed: got, required: format!("{}: `?` matches one byte, `*` any run, `[..]` one byte of the class (`^` first negates, `x-y` is a range), every other byte itself", want) });
            }
        }
    }
    None
}

fn structured_glob() -> Option<Found> {
    let keys: Vec<String> = ["", "a", "b", "c", "d", "ab", "ba", "abc", "hello", "hallo", "hxllo", "hllo", "heeeello", "k0", "k1", "k2", "k9", "k10", "-", "^", "a-c", "*", "?", "[", "]", "é", "aé", "A", "k:1", "k:12"].iter().map(|s| s.to_string()).collect();
    let pats: Vec<String> = ["*", "?", "??", "???", "", "a", "a*", "*a", "*a*", "a?", "?a", "h?llo", "h*llo", "h[ae]llo", "h[^e]llo", "h[a-b]llo", "h[a-e]llo", "k[0-2]", "k[^0-2]", "k[0-29]", "k[0-2]*", "[abc]", "[^abc]", "[a-c]", "[^a-c]", "[a-cx-z]", "[-a]", "[a^]", "[^^]", "[]", "[^]", "[*]", "[?]", "[[]", "**", "*?*", "k:*", "k:?", "*[0-9]", "[a-a]", "[ak]*", "é", "?é", "??", "a[b-b]c", "*-*", "[--0]", "[+--]"].iter().map(|s| s.to_string()).collect();
    check_glob(&keys, &pats)
}

pub fn search(_pid: &str, oid: &str, seed: u64) -> Option<Found> {
    let mut rng = Rng::new(seed + 1701);
    let glob_first = oid.contains("glob");
    let glob = |rng: &mut Rng, rounds: usize| -> Option<Found> {
        if let Some(f) = structured_glob() { return Some(f); }
        for _ in 0..rounds {
            let keys: Vec<String> = (0..12).map(|_| gen_key(rng)).collect();
            let pats: Vec<String> = (0..40).map(|_| gen_pattern(rng)).collect();
            if let Some(f) = check_glob(&keys, &pats) { return Some(f); }
        }
        None
    };
    if glob_first { if let Some(f) = glob(&mut rng, 400) { return Some(f); } }
    for (label, steps) in structured_scripts() {
        for sweep_seed in [0u64, 1, 2, 3, 4, 5, 6, 9] { if let Some(f) = check_script(&steps, 100, sweep_seed, &label) { return Some(f); } }
    }
    for it in 0..5000u64 {
        let t0 = *rng.pick(&[0u64, 100, 12_345]);
        let n = 10 + rng.below(50) as usize;
        let steps = gen_script(&mut rng, t0, n);
        let sweep_seed = rng.next() % 1_000_000;
        if let Some(f) = check_script(&steps, t0, sweep_seed, &format!("random script {} of seed {}", it, seed)) { return Some(f); }
    }
    if !glob_first { if let Some(f) = glob(&mut rng, 400) { return Some(f); } }
    None
}
