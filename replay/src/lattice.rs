//! Unit `lattice`: LamportClock order, CRDT merges, ReplicatedValue::merge ACI, ShardReplicaState.
use crate::rng::Rng;
use crate::Found;
use redis_sim::redis::SDS;
use redis_sim::replication::lattice::{GCounter, LamportClock, LwwRegister, PNCounter, ReplicaId, VectorClock};
use redis_sim::replication::state::{CrdtValue, ReplicatedValue, ReplicationDelta, ShardReplicaState};
use redis_sim::replication::ConsistencyLevel;
use std::cmp::Ordering;

fn lc(t: u64, r: u64) -> LamportClock { LamportClock { time: t, replica_id: ReplicaId(r) } }

const RIDS: [u64; 3] = [1, 2, 3];

/// canonical rendering of everything a client or peer can observe of a replicated value
pub fn obs(v: &ReplicatedValue) -> String {
    let crdt = match &v.crdt {
        CrdtValue::Lww(l) => format!("Lww(val={:?},ts=({},{}),tomb={})", l.get().map(|s| s.as_bytes().to_vec()), l.timestamp.time, l.timestamp.replica_id.0, l.tombstone),
        CrdtValue::GCounter(g) => format!("GCounter({:?})", RIDS.iter().map(|r| g.get_replica_count(&ReplicaId(*r))).collect::<Vec<_>>()),
        CrdtValue::PNCounter(p) => format!("PNCounter(value={})", p.value()),
        CrdtValue::GSet(s) => { let mut e: Vec<&String> = s.elements().collect(); e.sort(); format!("GSet({:?})", e) }
        CrdtValue::ORSet(s) => { let mut e: Vec<&String> = s.elements().collect(); e.sort(); format!("ORSet({:?})", e) }
        CrdtValue::Hash(h) => {
            let mut e: Vec<String> = h.iter().map(|(k, l)| format!("{}=>(val={:?},ts=({},{}),tomb={})", k, l.get().map(|s| s.as_bytes().to_vec()), l.timestamp.time, l.timestamp.replica_id.0, l.tombstone)).collect();
            e.sort();
            format!("Hash({:?})", e)
        }
    };
    let vc = v.vector_clock.as_ref().map(|vc| RIDS.iter().map(|r| vc.get(&ReplicaId(*r))).collect::<Vec<_>>());
    format!("{{crdt:{}, vc:{:?}, expiry:{:?}, rf:{:?}, stamp:({},{})}}", crdt, vc, v.expiry_ms, v.replication_factor, v.timestamp.time, v.timestamp.replica_id.0)
}

/// a value as a replica could produce it: the stamp identifies the write (payload is a function of the stamp)
fn gen_value(rng: &mut Rng, kind: u64, t: u64, r: u64) -> ReplicatedValue {
    let ts = lc(t, r);
    let payload = format!("v{}_{}", t, r);
    let mut v = match kind {
        0 => ReplicatedValue::with_value(SDS::from_str(&payload), ts),
        1 => { let mut v = ReplicatedValue::with_value(SDS::from_str(&payload), ts); let mut c = lc(t - 1, r); v.delete(&mut c); v }
        2 => {
            let mut v = ReplicatedValue::with_crdt(CrdtValue::new_hash(), ReplicaId(r));
            let mut c = lc(t - 1, r);
            v.hash_set(format!("f{}", (t + r) % 3), SDS::from_str(&payload), &mut c);
            v
        }
        5 => {
            // hash whose field was written and then deleted (field tombstone), plus possibly another live field
            let mut v = ReplicatedValue::with_crdt(CrdtValue::new_hash(), ReplicaId(r));
            let mut c = lc(t.saturating_sub(2), r);
            v.hash_set(format!("f{}", (t + r) % 3), SDS::from_str(&payload), &mut c);
            v.hash_delete(&format!("f{}", (t + r) % 3), &mut c);
            if t % 2 == 0 { let mut c2 = lc(t - 1, r); v.hash_set("g".to_string(), SDS::from_str("w"), &mut c2); }
            v.timestamp = ts;
            v
        }
        3 => { let mut g = GCounter::new(); g.increment_by(ReplicaId(r), t); let mut v = ReplicatedValue::with_crdt(CrdtValue::GCounter(g), ReplicaId(r)); v.timestamp = ts; v }
        _ => { let mut p = PNCounter::new(); p.increment_by(ReplicaId(r), t); p.decrement_by(ReplicaId(r), t / 2); let mut v = ReplicatedValue::with_crdt(CrdtValue::PNCounter(p), ReplicaId(r)); v.timestamp = ts; v }
    };
    // metadata is a pseudo-random FUNCTION of the stamp (a stamp identifies one write), not monotone in it
    let h = (t.wrapping_mul(2654435761).wrapping_add(r.wrapping_mul(40503))) ^ (t << 7) ^ (r << 3);
    if h % 3 != 0 { v.expiry_ms = Some(1000 * ((h >> 3) % 9 + 1)); }
    if (h >> 8) % 4 == 0 { v.replication_factor = Some(((h >> 11) % 4 + 1) as u8); }
    if (h >> 16) % 3 == 0 { let mut vc = VectorClock::new(); for _ in 0..((h >> 19) % 3 + 1) { vc.increment(ReplicaId(r)); } v.vector_clock = Some(vc); }
    let _ = rng;
    v
}

fn check_order() -> Option<Found> {
    let pts: Vec<LamportClock> = [0u64, 1, 2, 5, u64::MAX - 1, u64::MAX].iter().flat_map(|t| [0u64, 1, 2, u64::MAX].iter().map(move |r| lc(*t, *r))).collect();
    for a in &pts { for b in &pts {
        let want = (a.time, a.replica_id.0).cmp(&(b.time, b.replica_id.0));
        let got = a.cmp(b);
        if got != want || a.partial_cmp(b) != Some(want) {
            return Some(Found { input: format!("a=({},{}) b=({},{})", a.time, a.replica_id.0, b.time, b.replica_id.0), observed: format!("cmp={:?} partial_cmp={:?}", got, a.partial_cmp(b)), required: format!("lexicographic (time, replica) order: {:?}", want) });
        }
        let m = a.merge(b);
        let want_m = if want == Ordering::Less { *b } else { *a };
        if m != want_m {
            return Some(Found { input: format!("a=({},{}) b=({},{})", a.time, a.replica_id.0, b.time, b.replica_id.0), observed: format!("LamportClock::merge=({},{})", m.time, m.replica_id.0), required: format!("the greater stamp ({},{})", want_m.time, want_m.replica_id.0) });
        }
    } }
    for t in [0u64, 1, 7, 1 << 40] { for r in [1u64, 2] {
        let mut c = lc(t, r); let before = c; let s = c.tick();
        if !(s > before) || s != c || s.replica_id != before.replica_id { return Some(Found { input: format!("tick at ({},{})", t, r), observed: format!("({},{})", s.time, s.replica_id.0), required: "strictly greater stamp of the same replica".into() }); }
        for ot in [0u64, t, t + 3] { let mut c2 = lc(t, r); c2.update(&lc(ot, 9)); if !(c2.time > t && c2.time > ot) || c2.replica_id.0 != r { return Some(Found { input: format!("update ({},{}) with time {}", t, r, ot), observed: format!("({},{})", c2.time, c2.replica_id.0), required: "time greater than both".into() }); } }
    } }
    // LwwRegister::merge keeps the greater stamp
    for (ta, ra, tb, rb) in [(1u64, 1u64, 2u64, 2u64), (2, 2, 1, 1), (3, 1, 3, 2), (3, 2, 3, 1), (4, 1, 4, 1)] {
        let a = LwwRegister::with_value(SDS::from_str("a"), lc(ta, ra));
        let b = LwwRegister::with_value(SDS::from_str(if (ta, ra) == (tb, rb) { "a" } else { "b" }), lc(tb, rb));
        let m = a.merge(&b);
        let want = if lc(tb, rb) > lc(ta, ra) { &b } else { &a };
        if m.timestamp != want.timestamp || m.get().map(|s| s.as_bytes().to_vec()) != want.get().map(|s| s.as_bytes().to_vec()) || m.tombstone != want.tombstone {
            return Some(Found { input: format!("LwwRegister a@({},{}) b@({},{})", ta, ra, tb, rb), observed: format!("merge stamp ({},{})", m.timestamp.time, m.timestamp.replica_id.0), required: "the register with the greater stamp".into() });
        }
    }
    None
}

fn check_aci(rng: &mut Rng, cross_kind: bool, iters: u64) -> Option<Found> {
    // structured family first: all kind triples over three distinct stamps, then random
    let mut cases: Vec<(ReplicatedValue, ReplicatedValue, ReplicatedValue)> = Vec::new();
    let kinds: Vec<u64> = vec![0, 1, 2, 5, 3, 4];
    for &ka in &kinds { for &kb in &kinds { for &kc in &kinds {
        if !cross_kind && !(same_kind(ka, kb) && same_kind(kb, kc)) { continue; }
        for perm in [[1u64, 2, 3], [3, 2, 1], [2, 3, 1], [2, 2, 2], [1, 1, 2]] {
            cases.push((gen_value(rng, ka, perm[0] + 1, 1), gen_value(rng, kb, perm[1] + 1, 2), gen_value(rng, kc, perm[2] + 1, 3)));
        }
    } } }
    for _ in 0..iters {
        let ka = rng.below(6); let kb = if cross_kind { rng.below(6) } else if ka == 2 || ka == 5 { *rng.pick(&[2u64, 5]) } else { ka }; let kc = if cross_kind { rng.below(6) } else if ka == 2 || ka == 5 { *rng.pick(&[2u64, 5]) } else { ka };
        let (ta, tb, tc) = (rng.below(6) + 1, rng.below(6) + 1, rng.below(6) + 1);
        cases.push((gen_value(rng, ka, ta, 1), gen_value(rng, kb, tb, 2), gen_value(rng, kc, tc, 3)));
    }
    for (a, b, c) in &cases {
        let ab = a.merge(b); let ba = b.merge(a);
        if obs(&ab) != obs(&ba) {
            return Some(Found { input: format!("a={} b={}", obs(a), obs(b)), observed: format!("merge(a,b)={} merge(b,a)={}", obs(&ab), obs(&ba)), required: "commutative in every observable component".into() });
        }
        let aa = a.merge(a);
        if obs(&aa) != obs(a) {
            return Some(Found { input: format!("a={}", obs(a)), observed: format!("merge(a,a)={}", obs(&aa)), required: "idempotent".into() });
        }
        let l = ab.merge(c); let r = a.merge(&b.merge(c));
        if obs(&l) != obs(&r) {
            return Some(Found { input: format!("a={} b={} c={}", obs(a), obs(b), obs(c)), observed: format!("(a.b).c={} a.(b.c)={}", obs(&l), obs(&r)), required: "associative in every observable component".into() });
        }
    }
    None
}

fn same_kind(a: u64, b: u64) -> bool { let k = |x: u64| if x <= 1 { 0 } else if x == 5 { 2 } else { x }; k(a) == k(b) }

fn check_shard(rng: &mut Rng, iters: u64) -> Option<Found> {
    for it in 0..iters {
        let mut s = ShardReplicaState::new(ReplicaId(1), if it % 2 == 0 { ConsistencyLevel::Eventual } else { ConsistencyLevel::Causal });
        let keys = ["k0", "k1", "k2"];
        let mut max_seen: Option<LamportClock> = None;
        let mut last_issued: Option<LamportClock> = None;
        let mut trace = String::new();
        for _step in 0..12 {
            let k = rng.pick(&keys).to_string();
            let before: Vec<(String, String)> = s.replicated_keys.iter().map(|(k, v)| (k.clone(), obs(v))).collect();
            let seen_max = s.replicated_keys.values().map(|v| v.timestamp).max();
            let op = rng.below(5);
            let mut issued: Option<(LamportClock, String)> = None;
            match op {
                0 => { trace.push_str(&format!("SET {};", k)); let d = s.record_write(k.clone(), SDS::from_str("x"), None); issued = Some((d.value.timestamp, k.clone())); }
                1 => { trace.push_str(&format!("DEL {};", k)); if let Some(d) = s.record_delete(k.clone()) { issued = Some((d.value.timestamp, k.clone())); } }
                2 => { trace.push_str(&format!("HSET {};", k)); let d = s.record_hash_write(k.clone(), vec![("f".to_string(), SDS::from_str("y"))]); issued = Some((d.value.timestamp, k.clone())); }
                3 => {
                    // HDEL of a live field only: record_hash_* / hash_delete are outside the contracts (not reached);
                    // an HDEL that removes nothing re-stamps without ticking and is not counted as a write here.
                    let live = s.replicated_keys.get(&k).map(|v| v.hash_get("f").is_some()).unwrap_or(false);
                    trace.push_str(&format!("HDEL {};", k));
                    if let Some(d) = s.record_hash_delete(k.clone(), vec!["f".to_string()]) { if live { issued = Some((d.value.timestamp, k.clone())); } }
                }
                _ => {
                    let kind = rng.below(3); let t = rng.below(40) + 1;
                    let v = gen_value(rng, kind, t, 2);
                    trace.push_str(&format!("REMOTE {}@{};", k, t));
                    let old = s.replicated_keys.get(&k).cloned();
                    let d = ReplicationDelta::new(k.clone(), v.clone(), ReplicaId(2));
                    s.apply_remote_delta(d);
                    let now = s.replicated_keys.get(&k).cloned();
                    let want = match old { Some(o) => o.merge(&v), None => v.clone() };
                    match now {
                        Some(n) if obs(&n) == obs(&want) => {}
                        other => return Some(Found { input: trace.clone(), observed: format!("state[{}]={:?}", k, other.map(|x| obs(&x))), required: format!("merge(old, delta)={}", obs(&want)) }),
                    }
                    if !(s.lamport_clock.time > v.timestamp.time) { return Some(Found { input: trace.clone(), observed: format!("clock {} after delta stamped {}", s.lamport_clock.time, v.timestamp.time), required: "clock advances past the delta's stamp".into() }); }
                    for (ok, ov) in &before { if *ok != k { if s.replicated_keys.get(ok).map(obs) != Some(ov.clone()) { return Some(Found { input: trace.clone(), observed: format!("key {} changed", ok), required: "other keys untouched".into() }); } } }
                }
            }
            if let Some((st, key)) = issued {
                if let Some(m) = seen_max { if !(st > m) { return Some(Found { input: trace.clone(), observed: format!("write to {} stamped ({},{})", key, st.time, st.replica_id.0), required: format!("strictly greater than every stamp seen, e.g. ({},{})", m.time, m.replica_id.0) }); } }
                if let Some(l) = last_issued { if !(st > l) { return Some(Found { input: trace.clone(), observed: format!("stamp ({},{}) after ({},{})", st.time, st.replica_id.0, l.time, l.replica_id.0), required: "stamps issued by one node strictly increase".into() }); } }
                last_issued = Some(st);
            }
            let _ = &mut max_seen;
        }
    }
    None
}

/// restart: a fresh shard replays its own persisted deltas (source_replica == own id), then writes
fn check_restart(rng: &mut Rng, iters: u64) -> Option<Found> {
    for _ in 0..iters {
        let mut s = ShardReplicaState::new(ReplicaId(1), ConsistencyLevel::Eventual);
        let mut deltas = Vec::new();
        let n = rng.below(6) + 1;
        for i in 0..n {
            let k = format!("k{}", rng.below(3));
            if rng.chance(1, 4) { if let Some(d) = s.record_delete(k.clone()) { deltas.push(d); } }
            else { deltas.push(s.record_write(k, SDS::from_str(&format!("v{}", i)), None)); }
        }
        let mut fresh = ShardReplicaState::new(ReplicaId(1), ConsistencyLevel::Eventual);
        let viarecover = rng.chance(1, 2);
        for d in &deltas {
            if viarecover { fresh.install_recovered(d.key.clone(), d.value.clone()); } else { fresh.apply_remote_delta(d.clone()); }
        }
        let seen_max = fresh.replicated_keys.values().map(|v| v.timestamp).max();
        let d = fresh.record_write("k0".to_string(), SDS::from_str("after-restart"), None);
        if let Some(m) = seen_max {
            if !(d.value.timestamp > m) {
                return Some(Found { input: format!("{} own deltas replayed into a fresh shard via {}; then SET k0", deltas.len(), if viarecover { "install_recovered" } else { "apply_remote_delta" }),
                    observed: format!("write after restart stamped ({},{})", d.value.timestamp.time, d.value.timestamp.replica_id.0),
                    required: format!("strictly greater than every recovered stamp, e.g. ({},{})", m.time, m.replica_id.0) });
            }
        }
    }
    None
}

/// open finding (lemma_newer_write_supersedes): the expiry of a newer plain SET does not supersede an older TTL on peers
fn check_newer_supersedes() -> Option<Found> {
    for (told, tnew) in [(1u64, 5u64), (3, 4), (7, 8)] {
        let mut old_v = ReplicatedValue::with_value(SDS::from_str("v1"), lc(told, 1));
        old_v.expiry_ms = Some(52_000);
        let new_v = ReplicatedValue::with_value(SDS::from_str("v2"), lc(tnew, 2)); // what record_write(k, v2, None) stores on the writer
        for m in [old_v.merge(&new_v), new_v.merge(&old_v)] {
            if m.expiry_ms != new_v.expiry_ms || m.get().map(|s| s.as_bytes().to_vec()) != Some(b"v2".to_vec()) {
                return Some(Found { input: format!("peer holds {} ; newer write {} arrives", obs(&old_v), obs(&new_v)),
                    observed: format!("merge = {}", obs(&m)),
                    required: format!("the newer write supersedes the older value entirely: {}", obs(&new_v)) });
            }
        }
    }
    None
}

pub fn search(_pid: &str, oid: &str, seed: u64) -> Option<Found> {
    let mut rng = Rng::new(seed + 1);
    let f = oid.split('/').nth(1).unwrap_or("");
    if oid.contains("newer_write_supersedes") && !oid.contains("_value") { return check_newer_supersedes(); }
    if f.starts_with("lemma:lemma_rv_merge_associative_all_kinds") {
        return check_aci(&mut rng, true, 2000);
    }
    if f.starts_with("ShardReplicaState") || f.starts_with("ReplicatedValue::set") || f.starts_with("ReplicatedValue::delete") || f.starts_with("ReplicatedValue::new") {
        if let Some(x) = check_shard(&mut rng, 3000) { return Some(x); }
        if let Some(x) = check_restart(&mut rng, 500) { return Some(x); }
    }
    if let Some(x) = check_order() { return Some(x); }
    if let Some(x) = check_aci(&mut rng, false, 3000) { return Some(x); }
    if let Some(x) = check_shard(&mut rng, 1500) { return Some(x); }
    if let Some(x) = check_restart(&mut rng, 500) { return Some(x); }
    None
}
