//! Unit `flush` (C12): StreamingPersistence::flush over a faulty object store.
//!  - a failed flush keeps the accepted updates pending (pending_count), a later successful flush + recovery returns them;
//!  - every flush that reported success is recoverable (RecoveryManager::recover on the bare store succeeds and returns
//!    its updates) after every flush, after a crash at every object-store call, and under every single / double
//!    placement of a failing call (not applied, or applied but reported failed);
//!  - recovery never returns an update nobody pushed.
use crate::deltas::{delta_id, gen_delta_auto, show_delta};
use crate::rng::Rng;
use crate::Found;
use redis_sim::buggify::FaultConfig;
use redis_sim::io::simulation::SimulatedRng;
use redis_sim::replication::state::ReplicationDelta;
use redis_sim::streaming::{InMemoryObjectStore, ListResult, ObjectMeta, ObjectStore, RecoveryManager, SimulatedObjectStore, SimulatedStoreConfig, StreamingPersistence, WriteBufferConfig};
use std::collections::HashSet;
use std::future::Future;
use std::io::{Error as IoError, ErrorKind, Result as IoResult};
use std::pin::Pin;
use std::sync::{Arc, Mutex};

// ---------------- a scripted store: counts every call, fails chosen calls, dies at a chosen call ----------------
#[derive(Clone, Copy, PartialEq, Debug)]
enum FailMode { NotApplied, AppliedButErr }

#[derive(Default)]
struct Script { calls: u64, fail: Vec<(u64, bool)>, crash_at: Option<u64>, log: Vec<String> }

#[derive(Clone)]
struct ScriptStore { inner: InMemoryObjectStore, script: Arc<Mutex<Script>> }

enum Verdict { Pass, FailBefore, FailAfter }

impl ScriptStore {
    fn new(inner: InMemoryObjectStore, fail: Vec<(u64, FailMode)>, crash_at: Option<u64>) -> Self {
        ScriptStore { inner, script: Arc::new(Mutex::new(Script { calls: 0, fail: fail.into_iter().map(|(k, m)| (k, m == FailMode::AppliedButErr)).collect(), crash_at, log: Vec::new() })) }
    }
    fn verdict(&self, what: String) -> Verdict {
        let mut s = self.script.lock().unwrap();
        let k = s.calls; s.calls += 1;
        if let Some(c) = s.crash_at { if k >= c { s.log.push(format!("#{} {} -> process dead", k, what)); return Verdict::FailBefore; } }
        if let Some((_, applied)) = s.fail.iter().find(|(i, _)| *i == k).cloned() {
            s.log.push(format!("#{} {} -> Err ({})", k, what, if applied { "applied" } else { "not applied" }));
            return if applied { Verdict::FailAfter } else { Verdict::FailBefore };
        }
        s.log.push(format!("#{} {}", k, what));
        Verdict::Pass
    }
    fn calls(&self) -> u64 { self.script.lock().unwrap().calls }
    fn log(&self) -> Vec<String> { self.script.lock().unwrap().log.clone() }
}

fn injected() -> IoError { IoError::new(ErrorKind::Other, "injected failure") }

impl ObjectStore for ScriptStore {
    fn put<'a>(&'a self, key: &'a str, data: &'a [u8]) -> Pin<Box<dyn Future<Output = IoResult<()>> + Send + 'a>> {
        Box::pin(async move { match self.verdict(format!("put {}", key)) { Verdict::FailBefore => Err(injected()), Verdict::FailAfter => { self.inner.put(key, data).await?; Err(injected()) } Verdict::Pass => self.inner.put(key, data).await } })
    }
    fn get<'a>(&'a self, key: &'a str) -> Pin<Box<dyn Future<Output = IoResult<Vec<u8>>> + Send + 'a>> {
        Box::pin(async move { match self.verdict(format!("get {}", key)) { Verdict::Pass => self.inner.get(key).await, _ => Err(injected()) } })
    }
    fn exists<'a>(&'a self, key: &'a str) -> Pin<Box<dyn Future<Output = IoResult<bool>> + Send + 'a>> {
        Box::pin(async move { match self.verdict(format!("exists {}", key)) { Verdict::Pass => self.inner.exists(key).await, _ => Err(injected()) } })
    }
    fn delete<'a>(&'a self, key: &'a str) -> Pin<Box<dyn Future<Output = IoResult<()>> + Send + 'a>> {
        Box::pin(async move { match self.verdict(format!("delete {}", key)) { Verdict::FailBefore => Err(injected()), Verdict::FailAfter => { self.inner.delete(key).await?; Err(injected()) } Verdict::Pass => self.inner.delete(key).await } })
    }
    fn list<'a>(&'a self, prefix: &'a str, token: Option<&'a str>) -> Pin<Box<dyn Future<Output = IoResult<ListResult>> + Send + 'a>> {
        Box::pin(async move { match self.verdict(format!("list {}", prefix)) { Verdict::Pass => self.inner.list(prefix, token).await, _ => Err(injected()) } })
    }
    fn rename<'a>(&'a self, from: &'a str, to: &'a str) -> Pin<Box<dyn Future<Output = IoResult<()>> + Send + 'a>> {
        Box::pin(async move { match self.verdict(format!("rename {} -> {}", from, to)) { Verdict::FailBefore => Err(injected()), Verdict::FailAfter => { self.inner.rename(from, to).await?; Err(injected()) } Verdict::Pass => self.inner.rename(from, to).await } })
    }
    fn head<'a>(&'a self, key: &'a str) -> Pin<Box<dyn Future<Output = IoResult<ObjectMeta>> + Send + 'a>> {
        Box::pin(async move { match self.verdict(format!("head {}", key)) { Verdict::Pass => self.inner.head(key).await, _ => Err(injected()) } })
    }
}

// ---------------- the workload and its oracle ----------------
/// rounds[i] = how many updates are pushed before the i-th flush
struct Outcome { found: Option<Found>, }

fn mk_delta(rng: &mut Rng, i: u64) -> ReplicationDelta {
    let mut d = gen_delta_auto(rng, if i % 4 == 3 { 10 + i } else { i % 3 });
    d.key = format!("{}#{}", if d.key.len() > 30 { "long".to_string() } else { d.key.clone() }, i);
    d
}

async fn check_recovery(inner: &InMemoryObjectStore, confirmed: &[ReplicationDelta], accepted: &HashSet<String>, ctx: &dyn Fn() -> String, when: &str) -> Option<Found> {
    let rm = RecoveryManager::new(inner.clone(), "t", 1);
    match rm.recover().await {
        Err(e) => Some(Found { input: format!("{}; recovery on the store image {}", ctx(), when), observed: format!("RecoveryManager::recover failed: {}", e), required: "recovery succeeds at every instant (the manifest never references a missing or partially written object)".into() }),
        Ok(st) => {
            let got: HashSet<String> = st.deltas.iter().map(delta_id).collect();
            if let Some(lost) = confirmed.iter().find(|d| !got.contains(&delta_id(d))) {
                return Some(Found { input: format!("{}; recovery on the store image {}", ctx(), when), observed: format!("{} updates recovered from {} segments; missing {}", st.deltas.len(), st.manifest.segments.len(), show_delta(lost)), required: format!("every update of every flush that reported success ({} so far) is recovered", confirmed.len()) });
            }
            if let Some(alien) = st.deltas.iter().find(|d| !accepted.contains(&delta_id(d))) {
                return Some(Found { input: format!("{}; recovery on the store image {}", ctx(), when), observed: format!("recovered {}", show_delta(alien)), required: "only updates that were pushed".into() });
            }
            None
        }
    }
}

/// drive push/flush rounds over `store` (whose bare image is `inner`); final phase: flush until success (bounded), then everything accepted must be recoverable
async fn workload<S: ObjectStore + Clone + 'static>(store: S, inner: InMemoryObjectStore, rounds: &[usize], dseed: u64, describe: &dyn Fn() -> String, expect_final_success: bool) -> Outcome {
    let mut rng = Rng::new(dseed);
    let store = Arc::new(store);
    let mut p = None;
    for _ in 0..40 { if let Ok(x) = StreamingPersistence::new(store.clone(), "t".to_string(), 1, WriteBufferConfig::test()).await { p = Some(x); break; } }
    let mut p = match p { Some(p) => p, None => return Outcome { found: None } };
    let mut pending: Vec<ReplicationDelta> = Vec::new();
    let mut confirmed: Vec<ReplicationDelta> = Vec::new();
    let mut accepted: HashSet<String> = HashSet::new();
    let mut i = 0u64;
    let mut trace: Vec<String> = Vec::new();
    for (r, &n) in rounds.iter().enumerate() {
        for _ in 0..n {
            let d = mk_delta(&mut rng, i); i += 1;
            if p.push(d.clone()).is_ok() { accepted.insert(delta_id(&d)); pending.push(d); }
        }
        if p.pending_count() != pending.len() {
            return Outcome { found: Some(Found { input: format!("{}; after the pushes of round {}", describe(), r), observed: format!("pending_count() == {}", p.pending_count()), required: format!("{} accepted and not yet flushed", pending.len()) }) };
        }
        let res = p.flush().await;
        trace.push(format!("round {}: push {} -> flush {}", r, n, match &res { Ok(x) => format!("Ok(flushed {})", x.deltas_flushed), Err(e) => format!("Err({})", e) }));
        let ctx = || format!("{}; {}", describe(), trace.join("; "));
        match res {
            Err(_) => {
                if p.pending_count() != pending.len() {
                    return Outcome { found: Some(Found { input: ctx(), observed: format!("after the failed flush pending_count() == {}", p.pending_count()), required: format!("the {} accepted updates are still pending: a failed flush discards nothing", pending.len()) }) };
                }
            }
            Ok(fr) => {
                // the published SegmentInfo must not overstate the oldest stamp of the segment (compaction's tombstone rule reads it)
                if let Some(seg) = &fr.segment {
                    if let Some(d) = pending.iter().find(|d| d.value.timestamp.time < seg.min_timestamp) {
                        return Outcome { found: Some(Found { input: ctx(), observed: format!("segment {} published with min_timestamp {} although it holds an update of {:?} stamped ({},{})", seg.key, seg.min_timestamp, d.key, d.value.timestamp.time, d.value.timestamp.replica_id.0), required: "SegmentInfo.min_timestamp <= every stamp flushed into the segment".into() }) };
                    }
                }
                if fr.deltas_flushed != pending.len() || p.pending_count() != 0 || fr.segment.is_some() != !pending.is_empty() {
                    return Outcome { found: Some(Found { input: ctx(), observed: format!("flush Ok(deltas_flushed={}, segment={:?}), pending_count()=={}", fr.deltas_flushed, fr.segment.as_ref().map(|s| s.key.clone()), p.pending_count()), required: format!("deltas_flushed == {} and nothing pending", pending.len()) }) };
                }
                confirmed.extend(pending.drain(..));
            }
        }
        if let Some(f) = check_recovery(&inner, &confirmed, &accepted, &ctx, &format!("after flush #{}", r)).await { return Outcome { found: Some(f) }; }
    }
    // later flushes: once one succeeds everything accepted must be recoverable
    let mut ok = pending.is_empty();
    for _ in 0..60 {
        if ok { break; }
        match p.flush().await {
            Ok(fr) => { trace.push(format!("final flush Ok(flushed {})", fr.deltas_flushed)); if fr.deltas_flushed != pending.len() || p.pending_count() != 0 { let ctx = format!("{}; {}", describe(), trace.join("; ")); return Outcome { found: Some(Found { input: ctx, observed: format!("deltas_flushed={} pending_count()={}", fr.deltas_flushed, p.pending_count()), required: format!("the {} updates kept by the failed flushes are flushed now", pending.len()) }) }; } confirmed.extend(pending.drain(..)); ok = true; }
            Err(_) => { if p.pending_count() != pending.len() { let ctx = format!("{}; {}", describe(), trace.join("; ")); return Outcome { found: Some(Found { input: ctx, observed: format!("after another failed flush pending_count() == {}", p.pending_count()), required: format!("{} still pending", pending.len()) }) }; } }
        }
    }
    let ctx = || format!("{}; {}", describe(), trace.join("; "));
    if expect_final_success && !ok {
        return Outcome { found: Some(Found { input: ctx(), observed: "no later flush succeeds although the store has stopped failing".into(), required: "a later flush succeeds and persists the updates kept by the failed ones".into() }) };
    }
    Outcome { found: check_recovery(&inner, &confirmed, &accepted, &ctx, "at the end").await }
}

fn scripted(rt: &tokio::runtime::Runtime, rounds: &[usize], dseed: u64, fail: Vec<(u64, FailMode)>, crash_at: Option<u64>) -> (Option<Found>, u64) {
    rt.block_on(async {
        let inner = InMemoryObjectStore::new();
        let st = ScriptStore::new(inner.clone(), fail.clone(), crash_at);
        let st2 = st.clone();
        let describe = move || format!("StreamingPersistence over a scripted object store (rounds of pushes before each flush: {:?}; failing calls {:?}; process dies at call {:?}); store calls: [{}]", rounds, fail, crash_at, st2.log().join(", "));
        let out = workload(st.clone(), inner, rounds, dseed, &describe, crash_at.is_none()).await;
        (out.found, st.calls())
    })
}

pub fn search(_pid: &str, _oid: &str, seed: u64) -> Option<Found> {
    let rt = tokio::runtime::Builder::new_current_thread().enable_all().build().ok()?;
    redis_sim::buggify::set_config(FaultConfig::new());
    // ---- structured: the recorded witness family (failing puts, flush after every push) ----
    for s in 0..20u64 {
        let found = rt.block_on(async {
            let inner = InMemoryObjectStore::new();
            let cfg = SimulatedStoreConfig { put_fail_prob: 0.5, ..SimulatedStoreConfig::no_faults() };
            let sim = SimulatedObjectStore::new(inner.clone(), SimulatedRng::new(s), cfg);
            let describe = move || format!("StreamingPersistence over SimulatedObjectStore(rng seed {}, put_fail_prob 0.5), one push then flush, 12 times", s);
            workload(sim, inner, &[1; 12], s, &describe, false).await.found
        });
        if found.is_some() { return found; }
    }
    // ---- on request only (VERIF_FLUSH_PARTIAL=1): SILENT partial writes (the simulated put stores a prefix and reports Ok).
    // Outside the unit's contract (units.json C12 not_reached: "partial writes"): flush cannot know, nothing re-reads the object.
    if std::env::var("VERIF_FLUSH_PARTIAL").map(|v| v == "1").unwrap_or(false) {
        for s in 0..20u64 {
            let found = rt.block_on(async {
                let inner = InMemoryObjectStore::new();
                let cfg = SimulatedStoreConfig { partial_write_prob: 0.3, ..SimulatedStoreConfig::no_faults() };
                let sim = SimulatedObjectStore::new(inner.clone(), SimulatedRng::new(s), cfg);
                let describe = move || format!("StreamingPersistence over SimulatedObjectStore(rng seed {}, partial_write_prob 0.3: put stores a prefix and returns Ok), one push then flush, 12 times", s);
                workload(sim, inner, &[1; 12], s, &describe, false).await.found
            });
            if found.is_some() { return found; }
        }
    }
    // ---- every crash position and every single / adjacent-double failing call of a small workload ----
    for rounds in [vec![1usize, 2, 0, 3], vec![3, 1], vec![1, 1, 1, 1, 1]] {
        let (f, total) = scripted(&rt, &rounds, 1, vec![], None);
        if f.is_some() { return f; }
        for k in 0..=total { let (f, _) = scripted(&rt, &rounds, 1, vec![], Some(k)); if f.is_some() { return f; } }
        for k in 0..total { for m in [FailMode::NotApplied, FailMode::AppliedButErr] {
            let (f, _) = scripted(&rt, &rounds, 1, vec![(k, m)], None); if f.is_some() { return f; }
            let (f, _) = scripted(&rt, &rounds, 1, vec![(k, m), (k + 1, FailMode::NotApplied)], None); if f.is_some() { return f; }
            let (f, _) = scripted(&rt, &rounds, 1, vec![(k, m)], Some(k + 3)); if f.is_some() { return f; }
        } }
    }
    // ---- seeded random: fault probabilities of the simulated store, random workloads; random scripts ----
    let mut rng = Rng::new(seed + 12);
    let probs = [0.0, 0.0, 0.05, 0.2, 0.5];
    for it in 0..400u64 {
        let nr = 1 + rng.below(8) as usize;
        let rounds: Vec<usize> = (0..nr).map(|_| rng.below(5) as usize).collect();
        let dseed = rng.next() % 1000;
        if it % 2 == 0 {
            let cfg = SimulatedStoreConfig { put_fail_prob: *rng.pick(&probs), get_fail_prob: *rng.pick(&probs), rename_fail_prob: *rng.pick(&probs), timeout_prob: *rng.pick(&[0.0, 0.0, 0.1]), delete_fail_prob: *rng.pick(&probs), ..SimulatedStoreConfig::no_faults() };
            let s = rng.next() % 100000;
            let c2 = cfg.clone(); let r2 = rounds.clone();
            let found = rt.block_on(async {
                let inner = InMemoryObjectStore::new();
                let sim = SimulatedObjectStore::new(inner.clone(), SimulatedRng::new(s), cfg);
                let describe = move || format!("StreamingPersistence over SimulatedObjectStore(rng seed {}, put_fail {}, get_fail {}, rename_fail {}, timeout {}), pushes before each flush {:?} (update generator seed {})", s, c2.put_fail_prob, c2.get_fail_prob, c2.rename_fail_prob, c2.timeout_prob, r2, dseed);
                workload(sim, inner, &rounds, dseed, &describe, false).await.found
            });
            if found.is_some() { return found; }
        } else {
            let nf = rng.below(5);
            let fail: Vec<(u64, FailMode)> = (0..nf).map(|_| (rng.below(30), if rng.chance(1, 2) { FailMode::NotApplied } else { FailMode::AppliedButErr })).collect();
            let crash = if rng.chance(1, 2) { Some(rng.below(40)) } else { None };
            let (f, _) = scripted(&rt, &rounds, dseed, fail, crash);
            if f.is_some() { return f; }
        }
    }
    None
}
