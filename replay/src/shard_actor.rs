//! Unit `shard_actor` (C01/C02): "a key is visible at no instant at or after its deadline, whichever internal path serves the
//! request".  ShardedActorState over a controllable TimeSource: execute(SET k v PX 50), the clock moves past the deadline
//! WITHOUT any other command being sent, then the fast read paths (fast_get, pooled_fast_get, fast_batch_get_pipeline) and,
//! for contrast, the generic path execute(GET) are asked for the key.
use crate::Found;
use bytes::Bytes;
use redis_sim::io::TimeSource;
use redis_sim::production::{ShardConfig, ShardedActorState};
use redis_sim::redis::{Command, RespValue, SDS};
use std::sync::atomic::{AtomicU64, Ordering};
use std::sync::Arc;

#[derive(Clone)]
struct Clock(Arc<AtomicU64>);
impl TimeSource for Clock { fn now_millis(&self) -> u64 { self.0.load(Ordering::SeqCst) } }

fn show(r: &RespValue) -> String {
    match r { RespValue::BulkString(None) => "nil".into(), RespValue::BulkString(Some(b)) => format!("\"{}\"", String::from_utf8_lossy(b)), RespValue::Error(e) => format!("-{}", e), RespValue::Integer(i) => format!(":{}", i), RespValue::SimpleString(s) => format!("+{}", s), RespValue::Array(a) => format!("{:?}", a.as_ref().map(|v| v.iter().map(show).collect::<Vec<_>>())) }
}

const PATHS: [&str; 4] = ["fast_get", "pooled_fast_get", "fast_batch_get_pipeline", "execute(GET)"];

async fn read(st: &ShardedActorState<Clock>, path: &str, k: &str) -> String {
    let kb = Bytes::copy_from_slice(k.as_bytes());
    match path {
        "fast_get" => show(&st.fast_get(kb).await),
        "pooled_fast_get" => show(&st.pooled_fast_get(kb).await),
        "fast_batch_get_pipeline" => st.fast_batch_get_pipeline(vec![kb]).await.first().map(show).unwrap_or_else(|| "no reply".into()),
        _ => show(&st.execute(&Command::Get(k.to_string())).await),
    }
}

pub fn search(_pid: &str, _oid: &str, _seed: u64) -> Option<Found> {
    let rt = tokio::runtime::Builder::new_current_thread().enable_all().build().ok()?;
    rt.block_on(async {
        let t0 = 1_700_000_000_000u64;
        for shards in [1usize, 4] {
            for (setter, setter_name) in [
                (Command::Set { key: "k".into(), value: SDS::new(b"v".to_vec()), ex: None, px: Some(50), exat: None, pxat: None, nx: false, xx: false, get: false, keepttl: false }, "execute(SET k v PX 50)"),
                (Command::setex("k".into(), 1, SDS::new(b"v".to_vec())), "execute(SETEX k 1 v)"),
            ] {
                let ttl_ms = if setter_name.contains("SETEX") { 1000u64 } else { 50 };
                for path in PATHS {
                    for dt in [ttl_ms - 1, ttl_ms, ttl_ms + 1, ttl_ms + 1000, 3_600_000] {
                        let clock = Clock(Arc::new(AtomicU64::new(t0)));
                        let st = ShardedActorState::with_config_and_time_source(ShardConfig::with_shards(shards), clock.clone());
                        let set_reply = show(&st.execute(&setter).await);
                        let before = read(&st, path, "k").await;
                        clock.0.store(t0 + dt, Ordering::SeqCst);
                        // no other command is sent: the first thing the shard sees after the clock moved is this read
                        let got = read(&st, path, "k").await;
                        let want = if dt < ttl_ms { "\"v\"" } else { "nil" };
                        let input = format!("{} shard(s), time source at T: {} (reply {}), {}(k) = {}; time source moved to T+{} ms with no command in between; {}(k)", shards, setter_name, set_reply, path, before, dt, path);
                        if before != "\"v\"" { return Some(Found { input, observed: format!("before the deadline: {}", before), required: "\"v\"".into() }); }
                        if got != want {
                            let generic = read(&st, "execute(GET)", "k").await;
                            let again = read(&st, path, "k").await;
                            return Some(Found { input, observed: format!("{} ; then execute(GET k) = {} and {}(k) again = {}", got, generic, path, again), required: format!("{} (T+{} is {} the deadline T+{}): a key is visible at no instant at or after its deadline, whichever path serves the request", want, dt, if dt < ttl_ms { "before" } else { "at/after" }, ttl_ms) });
                        }
                    }
                }
            }
        }
        None
    })
}
