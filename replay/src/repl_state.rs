//! Unit `repl_state` (C03/C06/C09): two public-API ReplicatedShardedState nodes.  Everything node A hands to its consumers is
//! recorded: the gossip outbound queue, the persistence delta sink, and a WAL (spawn_wal_actor on an InMemoryWalStore,
//! FsyncPolicy::Always).  Multi-key MSET / MGET / DEL / EXISTS over keys homed on different shards must behave like the same
//! writes issued one key at a time: every key readable on A, every delta delivered to peer B, and after simulate_crash() the
//! WAL (recover_all_entries) holds an entry for every acknowledged write.
//! Ids containing "assert#5": the OPEN finding - MSETNX over keys of several shards replies :1 although only the first key's shard was written.
use crate::rng::Rng;
use crate::Found;
use redis_sim::production::ReplicatedShardedState;
use redis_sim::redis::{Command, RespValue, SDS};
use redis_sim::replication::{ReplicationConfig, ReplicationDelta};
use redis_sim::streaming::wal_store::InMemoryWalStore;
use redis_sim::streaming::{delta_sink_channel, spawn_wal_actor, DeltaSinkReceiver, FsyncPolicy, WalConfig, WalRotator};

fn show(r: &RespValue) -> String {
    match r { RespValue::BulkString(None) => "nil".into(), RespValue::BulkString(Some(b)) => format!("\"{}\"", String::from_utf8_lossy(b)), RespValue::Error(e) => format!("-{}", e), RespValue::Integer(i) => format!(":{}", i), RespValue::SimpleString(s) => format!("+{}", s), RespValue::Array(a) => format!("{:?}", a.as_ref().map(|v| v.iter().map(show).collect::<Vec<_>>())) }
}
fn sds(s: &str) -> SDS { SDS::new(s.as_bytes().to_vec()) }

struct Node { st: ReplicatedShardedState, sink: DeltaSinkReceiver, wal: InMemoryWalStore }
impl Node {
    fn new(id: u64) -> Option<Node> {
        let mut st = ReplicatedShardedState::new(ReplicationConfig { enabled: true, replica_id: id, ..Default::default() });
        let (tx, rx) = delta_sink_channel();
        st.set_delta_sink(tx);
        let wal = InMemoryWalStore::new();
        let (handle, _task) = spawn_wal_actor(wal.clone(), WalConfig { enabled: true, fsync_policy: FsyncPolicy::Always, group_commit_max_wait: std::time::Duration::from_micros(0), ..Default::default() }).ok()?;
        st.set_wal_handle(handle);
        Some(Node { st, sink: rx, wal })
    }
    /// one client command: (reply, deltas handed to gossip, deltas handed to the sink)
    async fn run(&self, cmd: Command) -> (String, Vec<ReplicationDelta>, Vec<ReplicationDelta>) {
        let reply = show(&self.st.execute(cmd).await);
        let mut gossip = Vec::new();
        if let Some(g) = self.st.get_gossip_state() { for m in g.write().drain_outbound() { if let Some(ds) = m.message.into_deltas() { gossip.extend(ds); } } }
        (reply, gossip, self.sink.drain())
    }
    async fn ask(&self, c: Command) -> String { show(&self.st.execute(c).await) }
    /// (key, is tombstone) of every WAL entry that survives a crash right now
    fn wal_after_crash(&self) -> Vec<(String, bool)> {
        self.wal.simulate_crash();
        let rot = match WalRotator::new(self.wal.clone(), 64 * 1024 * 1024) { Ok(r) => r, Err(_) => return Vec::new() };
        rot.recover_all_entries().unwrap_or_default().iter().filter_map(|e| e.to_delta().ok()).map(|d| (d.key.clone(), d.value.is_tombstone())).collect()
    }
}

#[derive(Clone, Debug)]
enum Op { MSet(Vec<(String, String)>), Del(Vec<String>), MGet(Vec<String>), Exists(Vec<String>) }
fn op_text(o: &Op) -> String { match o { Op::MSet(p) => format!("MSET {}", p.iter().map(|(k, v)| format!("{} {}", k, v)).collect::<Vec<_>>().join(" ")), Op::Del(k) => format!("DEL {}", k.join(" ")), Op::MGet(k) => format!("MGET {}", k.join(" ")), Op::Exists(k) => format!("EXISTS {}", k.join(" ")) } }

/// the session on a node pair with multi-key commands (`multi`) or with the same effects issued one key at a time
async fn session(ops: &[Op], keys: &[String], multi: bool) -> Option<(Vec<String>, Vec<String>, Vec<String>, Vec<(String, bool)>, Vec<String>)> {
    let (a, b) = (Node::new(1)?, Node::new(2)?);
    let mut replies = Vec::new();
    let mut log = Vec::new();
    for o in ops {
        let mut handed: Vec<ReplicationDelta> = Vec::new();
        let (mut n_gossip, mut n_sink) = (0, 0);
        let reply = match (o, multi) {
            (Op::MSet(p), true) => { let (r, g, s) = a.run(Command::MSet(p.iter().map(|(k, v)| (k.clone(), sds(v))).collect())).await; n_gossip += g.len(); n_sink += s.len(); handed.extend(g); r }
            (Op::MSet(p), false) => { for (k, v) in p { let (_, g, s) = a.run(Command::set(k.clone(), sds(v))).await; n_gossip += g.len(); n_sink += s.len(); handed.extend(g); } "+OK".to_string() }
            (Op::Del(ks), true) => { let (r, g, s) = a.run(Command::Del(ks.clone())).await; n_gossip += g.len(); n_sink += s.len(); handed.extend(g); r }
            (Op::Del(ks), false) => { let mut n = 0; let mut seen: Vec<&String> = Vec::new(); for k in ks { if seen.contains(&k) { continue; } seen.push(k); let (r, g, s) = a.run(Command::Del(vec![k.clone()])).await; if r == ":1" { n += 1; } n_gossip += g.len(); n_sink += s.len(); handed.extend(g); } format!(":{}", n) }
            (Op::MGet(ks), true) => a.ask(Command::MGet(ks.clone())).await,
            (Op::MGet(ks), false) => { let mut v = Vec::new(); for k in ks { v.push(a.ask(Command::Get(k.clone())).await); } format!("{:?}", Some(v)) }
            (Op::Exists(ks), true) => a.ask(Command::Exists(ks.clone())).await,
            (Op::Exists(ks), false) => { let mut n = 0; for k in ks { if a.ask(Command::Exists(vec![k.clone()])).await == ":1" { n += 1; } } format!(":{}", n) }
        };
        log.push(format!("{} -> {} (gossip {} deltas, sink {})", op_text(o), reply, n_gossip, n_sink));
        replies.push(reply);
        b.st.apply_remote_deltas(handed);
    }
    let mut local = Vec::new(); let mut peer = Vec::new();
    for k in keys { local.push(a.ask(Command::Get(k.clone())).await); peer.push(b.ask(Command::Get(k.clone())).await); }
    let wal = a.wal_after_crash();
    Some((replies, local, peer, wal, log))
}

async fn compare(ops: &[Op], keys: &[String], label: &str) -> Option<Found> {
    let (r_m, l_m, p_m, w_m, log) = session(ops, keys, true).await?;
    let (r_s, l_s, p_s, w_s, _) = session(ops, keys, false).await?;
    let input = format!("{}: node A (peer B, WAL with fsync Always): {}", label, log.join(" ; "));
    if r_m != r_s { let i = (0..r_m.len()).find(|&i| r_m[i] != r_s[i]).unwrap_or(0); return Some(Found { input, observed: format!("{} replies {}", op_text(&ops[i]), r_m[i]), required: format!("{} (the reply of the same operation issued one key at a time)", r_s[i]) }); }
    if l_m != l_s { let i = (0..keys.len()).find(|&i| l_m[i] != l_s[i]).unwrap_or(0); return Some(Found { input, observed: format!("afterwards A serves GET {} = {} (all keys: {:?})", keys[i], l_m[i], l_m), required: format!("{} as after the same writes issued singly ({:?})", l_s[i], l_s) }); }
    if p_m != p_s { let i = (0..keys.len()).find(|&i| p_m[i] != p_s[i]).unwrap_or(0); return Some(Found { input, observed: format!("after delivering everything A handed to gossip, peer B serves GET {} = {} (all keys: {:?})", keys[i], p_m[i], p_m), required: format!("{} as after the same writes issued singly ({:?}): every acknowledged write reaches the peers", p_s[i], p_s) }); }
    // durability: the multiset of (key, tombstone) WAL entries surviving a crash covers what the single-key run made durable
    let mut need = w_s.clone(); need.sort(); need.dedup();
    if let Some(miss) = need.iter().find(|x| !w_m.contains(x)) { return Some(Found { input, observed: format!("after simulate_crash() the WAL holds {} entries {:?}; no {} entry for {}", w_m.len(), w_m.iter().map(|(k, t)| format!("{}{}", k, if *t { "(del)" } else { "" })).collect::<Vec<_>>(), if miss.1 { "tombstone" } else { "write" }, miss.0), required: format!("an entry for every acknowledged write, as after the same writes issued singly ({} entries)", w_s.len()) }); }
    None
}

async fn msetnx_witness() -> Option<Found> {
    let keys: Vec<String> = (0..8).map(|i| format!("key{}", i)).collect();
    let a = Node::new(1)?;
    let (reply, gossip, sink) = a.run(Command::MSetNx(keys.iter().map(|k| (k.clone(), sds("n"))).collect())).await;
    let mut local = Vec::new(); for k in &keys { local.push(a.ask(Command::Get(k.clone())).await); }
    let wal = a.wal_after_crash();
    if reply == ":1" && (local.iter().any(|v| v != "\"n\"") || gossip.len() < keys.len() || wal.len() < keys.len()) {
        return Some(Found { input: "node A: MSETNX key0 n key1 n .. key7 n (no key exists; the keys live on several shards)".into(), observed: format!("reply {}; A serves GET key0..7 = {:?}; {} deltas handed to gossip, {} to the sink, {} WAL entries after a crash", reply, local, gossip.len(), sink.len(), wal.len()), required: "reply :1 means all 8 keys are set: readable on A, 8 deltas published, 8 durable WAL entries".into() });
    }
    None
}

pub fn search(_pid: &str, oid: &str, seed: u64) -> Option<Found> {
    let rt = tokio::runtime::Builder::new_current_thread().enable_all().build().ok()?;
    let oid = oid.to_string();
    rt.block_on(async move {
        if oid.contains("assert#5") { return msetnx_witness().await; }
        let keys: Vec<String> = (0..8).map(|i| format!("key{}", i)).collect();
        let all = |v: &str| -> Vec<(String, String)> { keys.iter().map(|k| (k.clone(), v.to_string())).collect() };
        let fams: Vec<(&str, Vec<Op>)> = vec![
            ("MSET over 8 keys", vec![Op::MSet(all("v")), Op::MGet(keys.clone()), Op::Exists(keys.clone())]),
            ("DEL / EXISTS / MGET over 8 keys", vec![Op::MSet(all("x")), Op::Exists(keys.clone()), Op::MGet(keys.clone()), Op::Del(keys.clone()), Op::Exists(keys.clone()), Op::MGet(keys.clone())]),
            ("partial DEL with absent and repeated keys", vec![Op::MSet(all("x")[..5].to_vec()), Op::Del(vec!["key6".into(), "key1".into(), "key3".into(), "key1".into(), "nokey".into()]), Op::MGet(keys.clone()), Op::Exists(vec!["key0".into(), "key0".into(), "key1".into(), "key7".into()])]),
            ("MSET overwriting, duplicate key in one MSET", vec![Op::MSet(all("a")), Op::MSet(vec![("key2".into(), "b1".into()), ("key5".into(), "b2".into()), ("key2".into(), "b3".into())]), Op::MGet(keys.clone())]),
        ];
        for (name, ops) in &fams { if let Some(f) = compare(ops, &keys, name).await { return Some(f); } }
        let mut rng = Rng::new(seed + 36);
        for it in 0..25u64 {
            let pool: Vec<String> = (0..12).map(|i| format!("{}{}", *rng.pick(&["key", "user:", "k"]), i)).collect();
            let some = |rng: &mut Rng| -> Vec<String> { (0..1 + rng.below(7)).map(|_| rng.pick(&pool).clone()).collect() };
            let ops: Vec<Op> = (0..3 + rng.below(6)).map(|j| match rng.below(5) { 0 | 1 => Op::MSet(some(&mut rng).into_iter().enumerate().map(|(i, k)| (k, format!("v{}_{}", j, i))).collect()), 2 => Op::Del(some(&mut rng)), 3 => Op::MGet(some(&mut rng)), _ => Op::Exists(some(&mut rng)) }).collect();
            if let Some(f) = compare(&ops, &pool, &format!("random session {} (seed {})", it, seed)).await { return Some(f); }
        }
        None
    })
}
