//! Unit `conn_loop` (C04): the read loop `OptimizedConnectionHandler::run` through the hook
//! `redis_sim::production::verif_serve_connection` (the REAL handler over an in-memory duplex stream).
//!  battery 1 "consumed but never answered": a batch collector CONSUMES frames from the read buffer; `run` must execute and
//!    answer every one of them.  Inputs: one write that starts with k frames a collector accepts, 1 <= k < batch_threshold,
//!    followed by sentinels (PING).  Both the well-formed spelling (collected once HEADER_LEN is right) and the spelling the
//!    pinned tree's skewed recognisers accept (`X` after the 13-byte command literal, lone CR, no CR LF) are tried, for GET
//!    and SET, under the default and the shipped batching configuration.  Required: the number of replies equals the number
//!    of frames sent, an error reply (which drains the rest) or a close; never fewer replies than frames with the connection
//!    left open.
//!  battery 2: the full pipelining/segmentation battery of `conn` (every two-way cut, several batching configs).
use crate::Found;
use redis_sim::production::{verif_serve_connection, ConnectionConfig, ShardedActorState};
use std::time::Duration;
use tokio::io::{AsyncReadExt, AsyncWriteExt};

fn show(b: &[u8]) -> String {
    let mut s = String::new();
    for &c in b { match c { b'\r' => s.push_str("\\r"), b'\n' => s.push_str("\\n"), 0x20..=0x7e => s.push(c as char), _ => s.push_str(&format!("\\x{:02x}", c)) } }
    s
}

/// length of the first complete RESP reply in `b` (replies of this battery are simple strings, errors, integers and bulks)
fn reply_len(b: &[u8]) -> Option<usize> {
    let eol = b.windows(2).position(|w| w == b"\r\n")?;
    match b.first()? {
        b'+' | b'-' | b':' => Some(eol + 2),
        b'$' => {
            let n: i64 = std::str::from_utf8(&b[1..eol]).ok()?.parse().ok()?;
            if n < 0 { Some(eol + 2) } else { let end = eol + 2 + n as usize + 2; if b.len() >= end { Some(end) } else { None } }
        }
        _ => None,
    }
}

fn split(mut b: &[u8]) -> Vec<Vec<u8>> {
    let mut v = Vec::new();
    while let Some(n) = reply_len(b) { v.push(b[..n].to_vec()); b = &b[n..]; }
    if !b.is_empty() { v.push(b.to_vec()); }
    v
}

/// everything the handler writes in answer to ONE write of `input` (quiet for 300 ms = done); .1 = the connection was closed
async fn exchange(cfg: ConnectionConfig, input: &[u8]) -> (Vec<u8>, bool) {
    let (mut client, server) = tokio::io::duplex(1 << 16);
    let state = ShardedActorState::with_shards(1);
    let task = tokio::task::spawn_local(async move { verif_serve_connection(server, state, cfg).await });
    let mut out = Vec::new();
    let mut closed = false;
    if client.write_all(input).await.is_ok() {
        let mut buf = vec![0u8; 4096];
        loop {
            match tokio::time::timeout(Duration::from_millis(300), client.read(&mut buf)).await {
                Ok(Ok(0)) => { closed = true; break; }
                Ok(Ok(n)) => out.extend_from_slice(&buf[..n]),
                _ => break,
            }
        }
    }
    let _ = client.shutdown().await;
    let _ = tokio::time::timeout(Duration::from_secs(2), task).await;
    (out, closed)
}

fn get_frames(k: usize, skewed: bool, keylen: usize) -> Vec<Vec<u8>> {
    (0..k).map(|i| {
        let key = vec![b'a' + (i % 26) as u8; keylen];
        if skewed { [b"*2\r\n$3\r\nGET\r\nX$".to_vec(), keylen.to_string().into_bytes(), b"\rY".to_vec(), key, b"ZZ".to_vec()].concat() }
        else { [b"*2\r\n$3\r\nGET\r\n$".to_vec(), keylen.to_string().into_bytes(), b"\r\n".to_vec(), key, b"\r\n".to_vec()].concat() }
    }).collect()
}

fn set_frames(k: usize, skewed: bool, keylen: usize) -> Vec<Vec<u8>> {
    (0..k).map(|i| {
        let key = vec![b'a' + (i % 26) as u8; keylen];
        if skewed { [b"*3\r\n$3\r\nSET\r\nX$".to_vec(), keylen.to_string().into_bytes(), b"\rY".to_vec(), key, b"ZZ$1\rYvZZ".to_vec()].concat() }
        else { [b"*3\r\n$3\r\nSET\r\n$".to_vec(), keylen.to_string().into_bytes(), b"\r\n".to_vec(), key, b"\r\n$1\r\nv\r\n".to_vec()].concat() }
    }).collect()
}

async fn consumed_but_unanswered() -> Option<Found> {
    let cfgs = [("default", ConnectionConfig::default()), ("perf_config.toml", ConnectionConfig { batch_threshold: 6, min_pipeline_buffer: 60, ..ConnectionConfig::default() })];
    for (cname, cfg) in cfgs.iter() {
        for skewed in [false, true] {
            for is_set in [false, true] {
                for k in 1..cfg.batch_threshold.min(6) {
                    for keylen in [1usize, 40] {
                        for pings in [0usize, 3, 5] {
                            let frames = if is_set { set_frames(k, skewed, keylen) } else { get_frames(k, skewed, keylen) };
                            let mut input: Vec<u8> = frames.concat();
                            for _ in 0..pings { input.extend_from_slice(b"*1\r\n$4\r\nPING\r\n"); }
                            if input.len() < cfg.min_pipeline_buffer { continue; }
                            let sent = k + pings;
                            let (out, closed) = exchange(cfg.clone(), &input).await;
                            let replies = split(&out);
                            let has_error = replies.iter().any(|r| r.first() == Some(&b'-'));
                            if replies.len() == sent || has_error || closed { continue; }
                            return Some(Found {
                                input: format!("ConnectionConfig {} (min_pipeline_buffer={}, batch_threshold={}); ONE write of {} bytes = {} {} frame(s){} followed by {} PING: {}",
                                    cname, cfg.min_pipeline_buffer, cfg.batch_threshold, input.len(), k, if is_set { "SET" } else { "GET" },
                                    if skewed { " in the spelling the pinned tree's skewed recogniser accepts (not RESP)" } else { "" }, pings, show(&input)),
                                observed: format!("{} replies, none an error, connection left open: {} - the {} frame(s) at the head of the buffer were consumed by the batch collector ({} < batch_threshold) and never executed or answered; every later reply is paired with an earlier command",
                                    replies.len(), if out.is_empty() { "(nothing)".to_string() } else { show(&out) }, k, k),
                                required: format!("{} replies (one per frame, in order), or an error reply / a close for a malformed frame - never silence", sent),
                            });
                        }
                    }
                }
            }
        }
    }
    None
}

/// lengths the general parser rejects (RESP lengths are i64) must not make a fast path wait for ever: an error reply or a close is due
async fn out_of_range_lengths() -> Option<Found> {
    let pad = vec![b'p'; 48];
    let cases: Vec<(&str, Vec<u8>)> = vec![
        ("GET with key length i64::MAX + 1", [b"*2\r\n$3\r\nGET\r\n$9223372036854775808\r\n".to_vec(), pad.clone()].concat()),
        ("SET with key length i64::MAX + 1", [b"*3\r\n$3\r\nSET\r\n$9223372036854775808\r\n".to_vec(), pad.clone()].concat()),
        ("SET with value length i64::MAX + 1", [b"*3\r\n$3\r\nSET\r\n$1\r\nk\r\n$9223372036854775808\r\n".to_vec(), pad.clone()].concat()),
    ];
    for (name, input) in cases {
        for cfg in [ConnectionConfig::default(), ConnectionConfig { min_pipeline_buffer: 1, batch_threshold: 1, ..ConnectionConfig::default() }] {
            let (out, closed) = exchange(cfg.clone(), &input).await;
            if out.first() == Some(&b'-') || closed { continue; }
            return Some(Found {
                input: format!("ConnectionConfig{{min_pipeline_buffer={}, batch_threshold={}}}; {}: {}", cfg.min_pipeline_buffer, cfg.batch_threshold, name, show(&input)),
                observed: format!("no error reply, connection left open; written: {}", if out.is_empty() { "(nothing)".to_string() } else { show(&out) }),
                required: "an error reply or a close: the general parser rejects this length, a fast path may not wait for the bytes instead".into(),
            });
        }
    }
    None
}

pub fn search(pid: &str, oid: &str, seed: u64) -> Option<Found> {
    // run/ensures#5 = the ACL gate of the batch path: the replay crate is built without the `acl` feature (every user is
    // unrestricted there), so no input of this build can exhibit it
    if oid.ends_with("run/ensures#5") { return None; }
    let rt = tokio::runtime::Builder::new_current_thread().enable_all().build().ok()?;
    let local = tokio::task::LocalSet::new();
    if let Some(f) = local.block_on(&rt, consumed_but_unanswered()) { return Some(f); }
    if let Some(f) = local.block_on(&rt, out_of_range_lengths()) { return Some(f); }
    drop(local);
    drop(rt);
    // the full pipelining battery of `conn` (sessions x cuts x batching configs); a neutral id selects its default battery
    crate::conn::search(pid, "conn_loop/sessions", seed)
}
