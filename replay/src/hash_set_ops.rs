//! Unit `hash_set_ops` (C01): the real containers RedisSet / RedisHash (src/redis/data/{set,hash}.rs) and the set / hash commands
//! that reach them through the real `CommandExecutor::execute` (SADD SREM SISMEMBER SMEMBERS SCARD, HSET HGET HDEL HEXISTS HKEYS
//! HVALS HLEN HGETALL) against ORACLES over BYTE strings - HashSet<Vec<u8>> / HashMap<Vec<u8>, Vec<u8>> - because Redis
//! members, field names and values are binary safe: bytes 0x80..0xff, invalid UTF-8 (which a lossy text conversion folds onto
//! U+FFFD), the literal encoding of U+FFFD, the empty string, embedded NUL.
//!   containers: every return value of add / remove / contains / set / get / delete / exists, len / is_empty, and the whole
//!               content (members() / keys() / values() / get_all()) equal the oracle after every operation;
//!   executor:   every reply and the whole content of every key equal the oracle; a key whose collection became empty is gone,
//!               an existing key keeps its TTL, a created key has none, WRONGTYPE changes nothing.
//! SPOP and HSCAN render members / fields through a lossy text conversion on the pinned tree (reported, not part of the
//! contract of this unit): they are only checked on request (obligation id mentioning spop / hscan, or VERIF_HASHSET_STRICT=1).
use crate::executor::{advance, exec, Clock};
use crate::rng::Rng;
use crate::Found;
use redis_sim::redis::{Command, CommandExecutor, RedisHash, RedisSet, RespValue, SDS};
use redis_sim::simulator::VirtualTime;
use std::collections::{BTreeMap, HashMap, HashSet};
use std::panic::{catch_unwind, AssertUnwindSafe};

type Bytes = Vec<u8>;

fn esc(b: &[u8]) -> String {
    let mut o = String::from("\"");
    for &c in b { if (0x20..0x7f).contains(&c) && c != b'"' && c != b'\\' { o.push(c as char); } else { o.push_str(&format!("\\x{:02x}", c)); } }
    o.push('"');
    o
}
fn esc_all(l: &[Bytes]) -> String { format!("[{}]", l.iter().map(|e| esc(e)).collect::<Vec<_>>().join(",")) }
fn sds(b: &[u8]) -> SDS { SDS::new(b.to_vec()) }

/// byte strings that a text-based container confuses: all of 0xff / 0xfe / 0xfd / 0x80 / a lone continuation byte decode lossily
/// to U+FFFD, whose own encoding is EF BF BD; truncated / overlong / surrogate sequences; NUL; empty; plain text
fn pool() -> Vec<Bytes> {
    vec![
        vec![], vec![0], vec![0xff], vec![0xfe], vec![0xfd], vec![0x80], vec![0xbf], vec![0xc3], vec![0xa9], vec![0xc3, 0xa9], vec![0xc3, 0x28],
        vec![0xef, 0xbf, 0xbd], vec![0xef, 0xbf], vec![0xff, 0xff], vec![0xff, 0xfe], vec![0xef, 0xbf, 0xbd, 0xef, 0xbf, 0xbd], vec![0xed, 0xa0, 0x80], vec![0xf4, 0x90, 0x80, 0x80], vec![0xc0, 0x80],
        b"a".to_vec(), b"a\0".to_vec(), b"a\0b".to_vec(), b"\0a".to_vec(), b"A".to_vec(), b"\r\n".to_vec(), b"1".to_vec(), b"01".to_vec(), b" 1".to_vec(),
    ]
}
fn pick_bytes(rng: &mut Rng, p: &[Bytes]) -> Bytes {
    if rng.chance(1, 6) { let n = rng.below(4) as usize; (0..n).map(|_| *rng.pick(&[0u8, 0x7f, 0x80, 0xbf, 0xc3, 0xef, 0xfd, 0xfe, 0xff, b'a'])).collect() } else { rng.pick(p).clone() }
}

fn caught<T>(f: impl FnOnce() -> T) -> Result<T, String> {
    catch_unwind(AssertUnwindSafe(f)).map_err(|e| e.downcast_ref::<String>().cloned().or_else(|| e.downcast_ref::<&str>().map(|s| s.to_string())).unwrap_or_default())
}

// ---------------------------------------------------------------- containers ----------------------------------------------------------------
#[derive(Clone, Debug)]
enum SetOp { Add(Bytes), Remove(Bytes), Contains(Bytes) }
fn set_op_text(o: &SetOp) -> String { match o { SetOp::Add(m) => format!("add({})", esc(m)), SetOp::Remove(m) => format!("remove({})", esc(m)), SetOp::Contains(m) => format!("contains({})", esc(m)) } }

/// run the operations on a fresh RedisSet and a fresh HashSet<Vec<u8>>; first disagreement
fn run_set(ops: &[SetOp], probes: &[Bytes]) -> Option<(usize, String, String)> {
    let mut real = RedisSet::new();
    let mut orc: HashSet<Bytes> = HashSet::new();
    for (i, op) in ops.iter().enumerate() {
        let (got, want) = match op {
            SetOp::Add(m) => (caught(|| real.add(sds(m))), orc.insert(m.clone())),       // SADD: 1 iff the member is new
            SetOp::Remove(m) => (caught(|| real.remove(&sds(m))), orc.remove(m)),        // SREM: 1 iff the member was present
            SetOp::Contains(m) => (caught(|| real.contains(&sds(m))), orc.contains(m)),
        };
        match got { Err(p) => return Some((i, format!("panic: {}", p), format!("{}", want))), Ok(g) if g != want => return Some((i, format!("returned {}", g), format!("{} (the set holds {})", want, sorted_set(&orc)))), _ => {} }
        let mut mem: Vec<Bytes> = real.members().iter().map(|m| m.as_bytes().to_vec()).collect(); mem.sort();
        let mut want_mem: Vec<Bytes> = orc.iter().cloned().collect(); want_mem.sort();
        if mem != want_mem || real.len() != orc.len() || real.is_empty() != orc.is_empty() {
            return Some((i, format!("members() = {}, len() = {}, is_empty() = {}", esc_all(&mem), real.len(), real.is_empty()), format!("members {} ({} of them)", esc_all(&want_mem), orc.len())));
        }
        for p in probes { let c = real.contains(&sds(p)); if c != orc.contains(p) { return Some((i, format!("afterwards contains({}) = {}", esc(p), c), format!("{} (the set holds {})", orc.contains(p), sorted_set(&orc)))); } }
    }
    None
}
fn sorted_set(s: &HashSet<Bytes>) -> String { let mut v: Vec<Bytes> = s.iter().cloned().collect(); v.sort(); esc_all(&v) }
fn sorted_map(m: &HashMap<Bytes, Bytes>) -> String { let mut v: Vec<String> = m.iter().map(|(k, v)| format!("{}={}", esc(k), esc(v))).collect(); v.sort(); format!("{{{}}}", v.join(",")) }

#[derive(Clone, Debug)]
enum HashOp { Set(Bytes, Bytes), Get(Bytes), Delete(Bytes), Exists(Bytes) }
fn hash_op_text(o: &HashOp) -> String { match o { HashOp::Set(f, v) => format!("set({}, {})", esc(f), esc(v)), HashOp::Get(f) => format!("get({})", esc(f)), HashOp::Delete(f) => format!("delete({})", esc(f)), HashOp::Exists(f) => format!("exists({})", esc(f)) } }

fn run_hash(ops: &[HashOp], probes: &[Bytes]) -> Option<(usize, String, String)> {
    let mut real = RedisHash::new();
    let mut orc: HashMap<Bytes, Bytes> = HashMap::new();
    for (i, op) in ops.iter().enumerate() {
        let r: Result<Option<(String, String)>, String> = match op {
            // HSET: "sets the specified field to its value; if the field already exists it is overwritten"
            HashOp::Set(f, v) => caught(|| real.set(sds(f), sds(v))).map(|_| { orc.insert(f.clone(), v.clone()); None }),
            HashOp::Get(f) => caught(|| real.get(&sds(f)).map(|s| s.as_bytes().to_vec())).map(|g| { let w = orc.get(f).cloned(); if g != w { Some((format!("returned {:?}", g.map(|b| esc(&b))), format!("{:?}", w.map(|b| esc(&b))))) } else { None } }),
            HashOp::Delete(f) => caught(|| real.delete(&sds(f))).map(|g| { let w = orc.remove(f).is_some(); if g != w { Some((format!("returned {}", g), format!("{}", w))) } else { None } }),
            HashOp::Exists(f) => caught(|| real.exists(&sds(f))).map(|g| { let w = orc.contains_key(f); if g != w { Some((format!("returned {}", g), format!("{}", w))) } else { None } }),
        };
        match r { Err(p) => return Some((i, format!("panic: {}", p), "a result".into())), Ok(Some((g, w))) => return Some((i, g, format!("{} (the hash holds {})", w, sorted_map(&orc)))), Ok(None) => {} }
        let mut all: Vec<(Bytes, Bytes)> = real.get_all().iter().map(|(f, v)| (f.as_bytes().to_vec(), v.as_bytes().to_vec())).collect(); all.sort();
        let mut want_all: Vec<(Bytes, Bytes)> = orc.iter().map(|(f, v)| (f.clone(), v.clone())).collect(); want_all.sort();
        let mut ks: Vec<Bytes> = real.keys().iter().map(|f| f.as_bytes().to_vec()).collect(); ks.sort();
        let mut vs: Vec<Bytes> = real.values().iter().map(|f| f.as_bytes().to_vec()).collect(); vs.sort();
        let mut it: Vec<(Bytes, Bytes)> = real.iter().map(|(f, v)| (f.clone(), v.as_bytes().to_vec())).collect(); it.sort();
        let want_ks: Vec<Bytes> = want_all.iter().map(|p| p.0.clone()).collect();
        let mut want_vs: Vec<Bytes> = want_all.iter().map(|p| p.1.clone()).collect(); want_vs.sort();
        if all != want_all || it != want_all || ks != want_ks || vs != want_vs || real.len() != orc.len() || real.is_empty() != orc.is_empty() {
            return Some((i, format!("get_all() = {{{}}}, keys() = {}, values() = {}, len() = {}", all.iter().map(|(f, v)| format!("{}={}", esc(f), esc(v))).collect::<Vec<_>>().join(","), esc_all(&ks), esc_all(&vs), real.len()), format!("the hash {} ({} fields)", sorted_map(&orc), orc.len())));
        }
        for p in probes {
            let g = real.get(&sds(p)).map(|s| s.as_bytes().to_vec());
            if g != orc.get(p).cloned() || real.exists(&sds(p)) != orc.contains_key(p) { return Some((i, format!("afterwards get({}) = {:?}, exists = {}", esc(p), g.map(|b| esc(&b)), real.exists(&sds(p))), format!("{:?} (the hash holds {})", orc.get(p).map(|b| esc(b)), sorted_map(&orc)))); }
        }
    }
    None
}

fn shrink<T: Clone>(ops: &[T], fail_at: usize, fails: &dyn Fn(&[T]) -> Option<usize>) -> Vec<T> {
    let mut min: Vec<T> = ops[..=fail_at].to_vec();
    let mut j = 0;
    while j + 1 < min.len() {
        let mut cand = min.clone(); cand.remove(j);
        if fails(&cand) == Some(cand.len() - 1) { min = cand; } else { j += 1; }
    }
    min
}

fn check_set(ops: &[SetOp], probes: &[Bytes], label: &str) -> Option<Found> {
    let (i, _, _) = run_set(ops, probes)?;
    let min = shrink(ops, i, &|s| run_set(s, probes).map(|r| r.0));
    let (_, got, want) = run_set(&min, probes)?;
    Some(Found { input: format!("{}: RedisSet::new() then {}", label, min.iter().map(set_op_text).collect::<Vec<_>>().join("; ")), observed: format!("the last operation: {}", got), required: format!("{} - members are byte strings (binary safe): Set<bytes> semantics", want) })
}
fn check_hash(ops: &[HashOp], probes: &[Bytes], label: &str) -> Option<Found> {
    let (i, _, _) = run_hash(ops, probes)?;
    let min = shrink(ops, i, &|s| run_hash(s, probes).map(|r| r.0));
    let (_, got, want) = run_hash(&min, probes)?;
    Some(Found { input: format!("{}: RedisHash::new() then {}", label, min.iter().map(hash_op_text).collect::<Vec<_>>().join("; ")), observed: format!("the last operation: {}", got), required: format!("{} - field names and values are byte strings (binary safe): Map<bytes, bytes> semantics", want) })
}

// ---------------------------------------------------------------- executor ----------------------------------------------------------------
#[derive(Clone, PartialEq, Debug)]
enum Coll { Set(HashSet<Bytes>), Hash(HashMap<Bytes, Bytes>), Str }
#[derive(Clone)]
struct Model { now: u64, keys: BTreeMap<String, (Coll, Option<u64>)> }
#[derive(Clone, PartialEq, Debug)]
enum Reply { Int(i64), Nil, Bulk(Bytes), Bag(Vec<Bytes>), Pairs(Vec<(Bytes, Bytes)>), Err }
fn show_reply(r: &Reply) -> String {
    match r { Reply::Int(i) => format!(":{}", i), Reply::Nil => "nil".into(), Reply::Bulk(b) => esc(b), Reply::Bag(v) => format!("{} (in any order)", esc_all(v)), Reply::Pairs(p) => format!("{{{}}}", p.iter().map(|(f, v)| format!("{}={}", esc(f), esc(v))).collect::<Vec<_>>().join(",")), Reply::Err => "an error".into() }
}
fn bulks(r: &RespValue) -> Option<Vec<Bytes>> { if let RespValue::Array(Some(a)) = r { a.iter().map(|x| if let RespValue::BulkString(Some(v)) = x { Some(v.clone()) } else { None }).collect() } else { None } }
/// the real reply in the shape the oracle expects for this command
fn to_reply(c: &Command, r: &RespValue) -> Reply {
    match (c, r) {
        (_, RespValue::Error(_)) => Reply::Err,
        (_, RespValue::Integer(i)) => Reply::Int(*i),
        (_, RespValue::BulkString(None)) => Reply::Nil,
        (_, RespValue::BulkString(Some(b))) => Reply::Bulk(b.clone()),
        (Command::HGetAll(_), RespValue::Array(Some(_))) => { let a = bulks(r).unwrap_or_default(); let mut p: Vec<(Bytes, Bytes)> = a.chunks(2).filter(|c| c.len() == 2).map(|c| (c[0].clone(), c[1].clone())).collect(); if a.len() % 2 == 1 { p.push((a[a.len() - 1].clone(), b"<odd element>".to_vec())); } p.sort(); Reply::Pairs(p) }
        (_, RespValue::Array(Some(_))) => { let mut a = bulks(r).unwrap_or_else(|| vec![b"<not bulk strings>".to_vec()]); a.sort(); Reply::Bag(a) }
        _ => Reply::Bag(vec![format!("{:?}", r).into_bytes()]),
    }
}

impl Model {
    fn visible(&self, k: &str) -> bool { self.keys.get(k).map(|(_, d)| d.map(|d| d > self.now).unwrap_or(true)).unwrap_or(false) }
    fn get(&self, k: &str) -> Option<&Coll> { if self.visible(k) { Some(&self.keys[k].0) } else { None } }
    fn put(&mut self, k: &str, c: Coll) {
        let ttl = if self.visible(k) { self.keys[k].1 } else { None };
        let empty = match &c { Coll::Set(s) => s.is_empty(), Coll::Hash(h) => h.is_empty(), Coll::Str => false };
        if empty { self.keys.remove(k); } else { self.keys.insert(k.to_string(), (c, ttl)); }
    }
    fn set_at(&self, k: &str) -> Result<HashSet<Bytes>, ()> { match self.get(k) { None => Ok(HashSet::new()), Some(Coll::Set(s)) => Ok(s.clone()), Some(_) => Err(()) } }
    fn hash_at(&self, k: &str) -> Result<HashMap<Bytes, Bytes>, ()> { match self.get(k) { None => Ok(HashMap::new()), Some(Coll::Hash(h)) => Ok(h.clone()), Some(_) => Err(()) } }
    fn apply(&mut self, c: &Command) -> Option<Reply> {
        let by = |s: &SDS| s.as_bytes().to_vec();
        Some(match c {
            Command::SAdd(k, ms) => match self.set_at(k) { Err(()) => Reply::Err, Ok(mut s) => { let mut n = 0; for m in ms { if s.insert(by(m)) { n += 1; } } self.put(k, Coll::Set(s)); Reply::Int(n) } },
            Command::SRem(k, ms) => match self.set_at(k) { Err(()) => Reply::Err, Ok(mut s) => { let mut n = 0; for m in ms { if s.remove(&by(m)) { n += 1; } } if self.visible(k) { self.put(k, Coll::Set(s)); } Reply::Int(n) } },
            Command::SIsMember(k, m) => match self.set_at(k) { Err(()) => Reply::Err, Ok(s) => Reply::Int(s.contains(&by(m)) as i64) },
            Command::SCard(k) => match self.set_at(k) { Err(()) => Reply::Err, Ok(s) => Reply::Int(s.len() as i64) },
            Command::SMembers(k) => match self.set_at(k) { Err(()) => Reply::Err, Ok(s) => { let mut v: Vec<Bytes> = s.into_iter().collect(); v.sort(); Reply::Bag(v) } },
            Command::HSet(k, ps) => match self.hash_at(k) { Err(()) => Reply::Err, Ok(mut h) => { let mut n = 0; for (f, v) in ps { if h.insert(by(f), by(v)).is_none() { n += 1; } } self.put(k, Coll::Hash(h)); Reply::Int(n) } },
            Command::HGet(k, f) => match self.hash_at(k) { Err(()) => Reply::Err, Ok(h) => h.get(&by(f)).map(|v| Reply::Bulk(v.clone())).unwrap_or(Reply::Nil) },
            Command::HDel(k, fs) => match self.hash_at(k) { Err(()) => Reply::Err, Ok(mut h) => { let mut n = 0; for f in fs { if h.remove(&by(f)).is_some() { n += 1; } } if self.visible(k) { self.put(k, Coll::Hash(h)); } Reply::Int(n) } },
            Command::HExists(k, f) => match self.hash_at(k) { Err(()) => Reply::Err, Ok(h) => Reply::Int(h.contains_key(&by(f)) as i64) },
            Command::HLen(k) => match self.hash_at(k) { Err(()) => Reply::Err, Ok(h) => Reply::Int(h.len() as i64) },
            Command::HKeys(k) => match self.hash_at(k) { Err(()) => Reply::Err, Ok(h) => { let mut v: Vec<Bytes> = h.keys().cloned().collect(); v.sort(); Reply::Bag(v) } },
            Command::HVals(k) => match self.hash_at(k) { Err(()) => Reply::Err, Ok(h) => { let mut v: Vec<Bytes> = h.values().cloned().collect(); v.sort(); Reply::Bag(v) } },
            Command::HGetAll(k) => match self.hash_at(k) { Err(()) => Reply::Err, Ok(h) => { let mut v: Vec<(Bytes, Bytes)> = h.into_iter().collect(); v.sort(); Reply::Pairs(v) } },
            Command::PExpire { key, milliseconds, .. } => { if self.visible(key) && *milliseconds > 0 { let d = self.now + *milliseconds as u64; self.keys.get_mut(key.as_str()).unwrap().1 = Some(d); } return None; }
            _ => return None,
        })
    }
    fn snapshot(&self) -> Vec<String> {
        let mut out = Vec::new();
        for (k, (c, d)) in &self.keys {
            if !self.visible(k) { continue; }
            let (ty, val) = match c { Coll::Set(s) => ("set", sorted_set(s)), Coll::Hash(h) => ("hash", sorted_map(h)), Coll::Str => ("string", "\"str\"".to_string()) };
            out.push(format!("{}: {} {} pttl={}", k, ty, val, match d { None => -1, Some(d) => (*d - self.now) as i64 }));
        }
        out
    }
}

fn real_snapshot(ex: &mut CommandExecutor) -> Result<Vec<String>, String> {
    let mut keys: Vec<String> = bulks(&ex.execute(&Command::Keys("*".into()))).ok_or("KEYS * is not an array")?.into_iter().map(|k| String::from_utf8_lossy(&k).to_string()).collect();
    keys.sort();
    let mut out = Vec::new();
    for k in keys {
        let ty = match ex.execute(&Command::TypeOf(k.clone())) { RespValue::SimpleString(s) => s.to_string(), other => format!("{:?}", other) };
        let val = match ty.as_str() {
            "set" => {
                let mut m = bulks(&ex.execute(&Command::SMembers(k.clone()))).ok_or(format!("SMEMBERS {} is not an array of bulk strings", k))?; m.sort();
                let n = ex.execute(&Command::SCard(k.clone()));
                if n != RespValue::Integer(m.len() as i64) { return Err(format!("SCARD {} = {:?} but SMEMBERS lists {}", k, n, esc_all(&m))); }
                if m.is_empty() { return Err(format!("key {} exists (TYPE set) but holds an EMPTY set", k)); }
                let mut d = m.clone(); d.dedup(); if d.len() != m.len() { return Err(format!("SMEMBERS {} lists a member twice: {}", k, esc_all(&m))); }
                esc_all(&m)
            }
            "hash" => {
                let a = bulks(&ex.execute(&Command::HGetAll(k.clone()))).ok_or(format!("HGETALL {} is not an array of bulk strings", k))?;
                let mut p: Vec<String> = a.chunks(2).map(|c| c.iter().map(|e| esc(e)).collect::<Vec<_>>().join("=")).collect(); p.sort();
                let n = ex.execute(&Command::HLen(k.clone()));
                if n != RespValue::Integer(p.len() as i64) || a.len() % 2 != 0 { return Err(format!("HLEN {} = {:?} but HGETALL has {} elements", k, n, a.len())); }
                if p.is_empty() { return Err(format!("key {} exists (TYPE hash) but holds an EMPTY hash", k)); }
                format!("{{{}}}", p.join(","))
            }
            "string" => match ex.execute(&Command::Get(k.clone())) { RespValue::BulkString(Some(v)) => esc(&v), other => format!("{:?}", other) },
            other => return Err(format!("key {} is listed by KEYS * but TYPE says {}", k, other)),
        };
        let pttl = match ex.execute(&Command::Pttl(k.clone())) { RespValue::Integer(i) => i, _ => i64::MIN };
        out.push(format!("{}: {} {} pttl={}", k, ty, val, pttl));
    }
    Ok(out)
}

fn text(c: &Command) -> String {
    let l = |vs: &Vec<SDS>| vs.iter().map(|v| esc(v.as_bytes())).collect::<Vec<_>>().join(" ");
    match c {
        Command::SAdd(k, m) => format!("SADD {} {}", k, l(m)), Command::SRem(k, m) => format!("SREM {} {}", k, l(m)), Command::SIsMember(k, m) => format!("SISMEMBER {} {}", k, esc(m.as_bytes())),
        Command::SCard(k) => format!("SCARD {}", k), Command::SMembers(k) => format!("SMEMBERS {}", k), Command::SPop(k, n) => format!("SPOP {}{}", k, n.map(|n| format!(" {}", n)).unwrap_or_default()),
        Command::HSet(k, p) => format!("HSET {} {}", k, p.iter().map(|(f, v)| format!("{} {}", esc(f.as_bytes()), esc(v.as_bytes()))).collect::<Vec<_>>().join(" ")),
        Command::HGet(k, f) => format!("HGET {} {}", k, esc(f.as_bytes())), Command::HDel(k, f) => format!("HDEL {} {}", k, l(f)), Command::HExists(k, f) => format!("HEXISTS {} {}", k, esc(f.as_bytes())),
        Command::HLen(k) => format!("HLEN {}", k), Command::HKeys(k) => format!("HKEYS {}", k), Command::HVals(k) => format!("HVALS {}", k), Command::HGetAll(k) => format!("HGETALL {}", k),
        Command::PExpire { key, milliseconds, .. } => format!("PEXPIRE {} {}", key, milliseconds),
        other => format!("{:?}", other),
    }
}

#[derive(Clone, Debug)]
enum Step { Cmd(Command), Clock(Clock, u64) }
fn step_text(s: &Step) -> String { match s { Step::Cmd(c) => text(c), Step::Clock(m, t) => format!("[clock -> {} via {}]", t, if *m == Clock::Active { "set_time" } else { "update_time_readonly" }) } }
const T0: u64 = 1000;

fn run_seq(steps: &[Step]) -> Option<(usize, String, String)> {
    let mut ex = CommandExecutor::new();
    ex.set_time(VirtualTime::from_millis(T0));
    ex.execute(&Command::set("str".into(), sds(b"str")));
    let mut m = Model { now: T0, keys: BTreeMap::new() };
    m.keys.insert("str".into(), (Coll::Str, None));
    for (i, s) in steps.iter().enumerate() {
        match s {
            Step::Clock(mode, t) => { advance(&mut ex, *mode, *t); m.now = *t; }
            Step::Cmd(c) => {
                let want = m.apply(c);
                let got = match exec(&mut ex, c) { Ok(r) => r, Err(p) => return Some((i, format!("panic: {}", p), "a reply".into())) };
                if let Some(w) = &want { let g = to_reply(c, &got); if &g != w { return Some((i, format!("reply {}", show_reply(&g)), format!("reply {}", show_reply(w)))); } }
            }
        }
        let a = match real_snapshot(&mut ex) { Ok(a) => a, Err(e) => return Some((i, e, "a consistent keyspace (an emptied collection stops existing; SCARD / SMEMBERS / HLEN / HGETALL agree)".into())) };
        let bm = m.snapshot();
        if a != bm {
            let got: Vec<String> = a.iter().filter(|l| !bm.contains(l)).cloned().collect();
            let want: Vec<String> = bm.iter().filter(|l| !a.contains(l)).cloned().collect();
            return Some((i, format!("visible keyspace after the step: {}{}", got.join(" | "), if got.is_empty() { "(entries missing)" } else { "" }), format!("{}{}", want.join(" | "), if want.is_empty() { "(those entries absent)" } else { "" })));
        }
    }
    None
}

fn check_seq(steps: &[Step], label: &str) -> Option<Found> {
    let (i, _, _) = run_seq(steps)?;
    let min = shrink(steps, i, &|s| run_seq(s).map(|r| r.0));
    let (_, got, want) = run_seq(&min)?;
    Some(Found { input: format!("{} (fresh executor at clock 1000 holding the string key str), shrunk to: {}", label, min.iter().map(step_text).collect::<Vec<_>>().join(" ; ")), observed: format!("after the last step: {}", got), required: format!("{} - members / field names / values are exact bytes (binary safe)", want) })
}

/// SPOP / HSCAN must hand back the exact bytes that were stored (only on request, see the header)
fn strict_extras(hscan_only: bool) -> Option<Found> {
    for m in pool() {
        for count in [None, Some(1usize), Some(5)] {
            if hscan_only { break; }
            let mut ex = CommandExecutor::new();
            ex.execute(&Command::SAdd("s".into(), vec![sds(&m)]));
            let r = ex.execute(&Command::SPop("s".into(), count));
            let got: Vec<Bytes> = match &r { RespValue::BulkString(Some(b)) => vec![b.clone()], other => bulks(other).unwrap_or_default() };
            if got != vec![m.clone()] { return Some(Found { input: format!("SADD s {} ; {}", esc(&m), text(&Command::SPop("s".into(), count))), observed: format!("reply {}", esc_all(&got)), required: format!("the member that was stored: {}", esc(&m)) }); }
        }
        let mut ex = CommandExecutor::new();
        ex.execute(&Command::HSet("h".into(), vec![(sds(&m), sds(&m))]));
        let r = ex.execute(&Command::HScan { key: "h".into(), cursor: 0, pattern: None, count: Some(10) });
        let got: Vec<Bytes> = if let RespValue::Array(Some(a)) = &r { a.get(1).and_then(bulks).unwrap_or_default() } else { Vec::new() };
        if got != vec![m.clone(), m.clone()] { return Some(Found { input: format!("HSET h {} {} ; HSCAN h 0 COUNT 10", esc(&m), esc(&m)), observed: format!("elements {}", esc_all(&got)), required: format!("the field and value that were stored: [{},{}]", esc(&m), esc(&m)) }); }
    }
    None
}

pub fn search(_pid: &str, oid: &str, seed: u64) -> Option<Found> {
    let p = pool();
    let lo = oid.to_lowercase();
    let hash_first = lo.contains("redishash") || lo.contains("hash::");
    // ---- containers, structured: every ordered pair of pool elements (a, b): add a, add b, probe, remove a, probe
    let sets = |p: &[Bytes]| -> Option<Found> {
        for a in p { for b in p {
            let ops = vec![SetOp::Add(a.clone()), SetOp::Add(b.clone()), SetOp::Contains(a.clone()), SetOp::Add(a.clone()), SetOp::Remove(a.clone()), SetOp::Contains(b.clone()), SetOp::Remove(a.clone()), SetOp::Remove(b.clone()), SetOp::Remove(b.clone())];
            if let Some(f) = check_set(&ops, p, "pair of members") { return Some(f); }
        } }
        let all: Vec<SetOp> = p.iter().map(|m| SetOp::Add(m.clone())).chain(p.iter().map(|m| SetOp::Add(m.clone()))).chain(p.iter().rev().map(|m| SetOp::Remove(m.clone()))).collect();
        check_set(&all, p, "the whole pool added twice, then removed")
    };
    let hashes = |p: &[Bytes]| -> Option<Found> {
        for a in p { for b in p {
            let ops = vec![HashOp::Set(a.clone(), b"1".to_vec()), HashOp::Set(b.clone(), a.clone()), HashOp::Get(a.clone()), HashOp::Get(b.clone()), HashOp::Exists(a.clone()), HashOp::Set(a.clone(), b.clone()), HashOp::Delete(a.clone()), HashOp::Get(b.clone()), HashOp::Delete(a.clone()), HashOp::Delete(b.clone()), HashOp::Exists(b.clone())];
            if let Some(f) = check_hash(&ops, p, "pair of field names") { return Some(f); }
        } }
        let all: Vec<HashOp> = p.iter().enumerate().map(|(i, m)| HashOp::Set(m.clone(), p[(i + 1) % p.len()].clone())).chain(p.iter().map(|m| HashOp::Get(m.clone()))).chain(p.iter().rev().map(|m| HashOp::Delete(m.clone()))).collect();
        check_hash(&all, p, "the whole pool as field names (values = the next pool element), read, deleted")
    };
    if hash_first { if let Some(f) = hashes(&p) { return Some(f); } if let Some(f) = sets(&p) { return Some(f); } } else { if let Some(f) = sets(&p) { return Some(f); } if let Some(f) = hashes(&p) { return Some(f); } }
    // ---- executor, structured: the recorded witnesses and one scenario per pair of colliding members
    for a in &p { for b in &p {
        if a == b { continue; }
        let steps = vec![
            Step::Cmd(Command::SAdd("s".into(), vec![sds(a)])), Step::Cmd(Command::PExpire { key: "s".into(), milliseconds: 60_000, nx: false, xx: false, gt: false, lt: false }), Step::Cmd(Command::SAdd("s".into(), vec![sds(b), sds(a)])),
            Step::Cmd(Command::SCard("s".into())), Step::Cmd(Command::SMembers("s".into())), Step::Cmd(Command::SIsMember("s".into(), sds(b))), Step::Cmd(Command::SRem("s".into(), vec![sds(a), sds(a)])), Step::Cmd(Command::SIsMember("s".into(), sds(b))), Step::Cmd(Command::SRem("s".into(), vec![sds(b)])), Step::Cmd(Command::SAdd("s".into(), vec![sds(b)])),
            Step::Cmd(Command::HSet("h".into(), vec![(sds(a), sds(b"1"))])), Step::Cmd(Command::PExpire { key: "h".into(), milliseconds: 60_000, nx: false, xx: false, gt: false, lt: false }), Step::Cmd(Command::HSet("h".into(), vec![(sds(b), sds(a)), (sds(a), sds(b))])),
            Step::Cmd(Command::HLen("h".into())), Step::Cmd(Command::HGet("h".into(), sds(a))), Step::Cmd(Command::HGet("h".into(), sds(b))), Step::Cmd(Command::HKeys("h".into())), Step::Cmd(Command::HVals("h".into())), Step::Cmd(Command::HGetAll("h".into())), Step::Cmd(Command::HExists("h".into(), sds(b))),
            Step::Cmd(Command::HDel("h".into(), vec![sds(a), sds(a)])), Step::Cmd(Command::HExists("h".into(), sds(b))), Step::Cmd(Command::HGet("h".into(), sds(b))), Step::Cmd(Command::HDel("h".into(), vec![sds(b)])), Step::Cmd(Command::HSet("h".into(), vec![(sds(b), sds(a))])),
        ];
        if let Some(f) = check_seq(&steps, "pair of binary members / field names through the executor") { return Some(f); }
    } }
    // wrong type in both directions
    let wrong = vec![
        Step::Cmd(Command::SAdd("s".into(), vec![sds(&[0xff])])), Step::Cmd(Command::HSet("h".into(), vec![(sds(&[0xfe]), sds(&[0]))])),
        Step::Cmd(Command::SAdd("h".into(), vec![sds(b"x")])), Step::Cmd(Command::SRem("h".into(), vec![sds(&[0xfe])])), Step::Cmd(Command::SIsMember("h".into(), sds(&[0xfe]))), Step::Cmd(Command::SMembers("h".into())), Step::Cmd(Command::SCard("str".into())),
        Step::Cmd(Command::HSet("s".into(), vec![(sds(b"f"), sds(b"v"))])), Step::Cmd(Command::HGet("s".into(), sds(&[0xff]))), Step::Cmd(Command::HDel("s".into(), vec![sds(&[0xff])])), Step::Cmd(Command::HExists("str".into(), sds(b"f"))), Step::Cmd(Command::HKeys("s".into())), Step::Cmd(Command::HVals("s".into())), Step::Cmd(Command::HLen("s".into())), Step::Cmd(Command::HGetAll("str".into())),
    ];
    if let Some(f) = check_seq(&wrong, "set commands on a hash / string and hash commands on a set / string") { return Some(f); }
    if lo.contains("spop") || lo.contains("hscan") || std::env::var("VERIF_HASHSET_STRICT").map(|v| v != "0").unwrap_or(true) { if let Some(f) = strict_extras(lo.contains("hscan")) { return Some(f); } }
    // ---- seeded random
    let mut rng = Rng::new(seed + 1201);
    for it in 0..1500u64 {
        let ops: Vec<SetOp> = (0..10 + rng.below(40)).map(|_| { let m = pick_bytes(&mut rng, &p); match rng.below(5) { 0 | 1 => SetOp::Add(m), 2 | 3 => SetOp::Remove(m), _ => SetOp::Contains(m) } }).collect();
        if let Some(f) = check_set(&ops, &p, &format!("random operations {} (seed {})", it, seed)) { return Some(f); }
        let ops: Vec<HashOp> = (0..10 + rng.below(40)).map(|_| { let m = pick_bytes(&mut rng, &p); match rng.below(7) { 0 | 1 | 2 => HashOp::Set(m, pick_bytes(&mut rng, &p)), 3 | 4 => HashOp::Delete(m), 5 => HashOp::Get(m), _ => HashOp::Exists(m) } }).collect();
        if let Some(f) = check_hash(&ops, &p, &format!("random operations {} (seed {})", it, seed)) { return Some(f); }
    }
    for it in 0..1200u64 {
        let mut now = T0;
        let mut steps: Vec<Step> = Vec::new();
        for _ in 0..12 + rng.below(40) {
            let sk = rng.pick(&["s1", "s2", "s1", "h1", "str"]).to_string();
            let hk = rng.pick(&["h1", "h2", "h1", "s1", "str"]).to_string();
            let ms = |rng: &mut Rng| -> Vec<SDS> { (0..1 + rng.below(3)).map(|_| sds(&pick_bytes(rng, &p))).collect() };
            let c = match rng.below(20) {
                0 | 1 | 2 => Command::SAdd(sk, ms(&mut rng)), 3 | 4 => Command::SRem(sk, ms(&mut rng)), 5 => Command::SIsMember(sk, sds(&pick_bytes(&mut rng, &p))), 6 => Command::SCard(sk), 7 => Command::SMembers(sk),
                8 | 9 | 10 => Command::HSet(hk, (0..1 + rng.below(3)).map(|_| (sds(&pick_bytes(&mut rng, &p)), sds(&pick_bytes(&mut rng, &p)))).collect()), 11 | 12 => Command::HDel(hk, ms(&mut rng)),
                13 => Command::HGet(hk, sds(&pick_bytes(&mut rng, &p))), 14 => Command::HExists(hk, sds(&pick_bytes(&mut rng, &p))), 15 => match rng.below(4) { 0 => Command::HKeys(hk), 1 => Command::HVals(hk), 2 => Command::HLen(hk), _ => Command::HGetAll(hk) },
                16 | 17 => Command::PExpire { key: if rng.chance(1, 2) { sk } else { hk }, milliseconds: 1 + rng.below(3000) as i64, nx: false, xx: false, gt: false, lt: false },
                _ => { now += rng.below(2500); steps.push(Step::Clock(if rng.chance(1, 2) { Clock::Active } else { Clock::Lazy }, now)); continue; }
            };
            steps.push(Step::Cmd(c));
        }
        if let Some(f) = check_seq(&steps, &format!("random command sequence {} (seed {})", it, seed)) { return Some(f); }
    }
    None
}
