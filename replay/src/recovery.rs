//! Units `recovery_wal` + `recovered_apply` (C11): updates whose stamps are NOT ordered across keys / shards are persisted in
//! different splits between a checkpoint (CheckpointManager::create_checkpoint), segments (StreamingPersistence push/flush, some
//! covered by the checkpoint, some after it) and the WAL (WalRotator), with repetitions; then RecoveryManager::recover /
//! recover_with_wal and ReplicatedShardedState::apply_recovered_state run on the real code.  The recovered per-key replication
//! state must equal the fold of ReplicatedValue::merge over everything persisted, whatever the split / order / repetition,
//! and the node must serve (GET / HGETALL) what that state says.
use crate::deltas::lc;
use crate::lattice::obs;
use crate::rng::Rng;
use crate::Found;
use redis_sim::production::ReplicatedShardedState;
use redis_sim::redis::{Command, RespValue, SDS};
use redis_sim::replication::lattice::ReplicaId;
use redis_sim::replication::state::{CrdtValue, ReplicatedValue, ReplicationDelta};
use redis_sim::replication::ReplicationConfig;
use redis_sim::streaming::wal_store::InMemoryWalStore;
use redis_sim::streaming::{CheckpointConfig, CheckpointInfo, CheckpointManager, InMemoryObjectStore, ManifestManager, RecoveryManager, StreamingPersistence, WalEntry, WalRotator, WriteBufferConfig};
use std::collections::{BTreeMap, HashMap};
use std::sync::Arc;

const FIELDS: [&str; 3] = ["name", "email", "city"];

#[derive(Clone)]
struct Upd { delta: ReplicationDelta, text: String, in_ckpt: bool, in_old_seg: bool, in_new_seg: bool, in_wal: bool }

fn mk(key: &str, t: u64, r: u64) -> (ReplicationDelta, String) {
    let (v, text) = if key.starts_with('h') {
        let f = FIELDS[((t + r) % 3) as usize];
        let mut v = ReplicatedValue::with_crdt(CrdtValue::new_hash(), ReplicaId(r));
        let mut c = lc(t - 1, r);
        v.hash_set(f.to_string(), SDS::from_str(&format!("{}.{}@{}_{}", key, f, t, r)), &mut c);
        (v, format!("HSET {} {} @({},r{})", key, f, t, r))
    } else if (t + r) % 5 == 0 {
        let mut v = ReplicatedValue::with_value(SDS::from_str("gone"), lc(t - 1, r)); let mut c = lc(t - 1, r); v.delete(&mut c);
        (v, format!("DEL {} @({},r{})", key, t, r))
    } else {
        (ReplicatedValue::with_value(SDS::from_str(&format!("{}@{}_{}", key, t, r)), lc(t, r)), format!("SET {} @({},r{})", key, t, r))
    };
    (ReplicationDelta::new(key.to_string(), v, ReplicaId(r)), text)
}

fn merge_into(m: &mut HashMap<String, ReplicatedValue>, k: &str, v: &ReplicatedValue) { let n = match m.get(k) { Some(o) => o.merge(v), None => v.clone() }; m.insert(k.to_string(), n); }

fn describe(us: &[Upd]) -> String {
    us.iter().map(|u| format!("{} in [{}{}{}{}]", u.text, if u.in_ckpt { "checkpoint " } else { "" }, if u.in_old_seg { "segment<=checkpoint " } else { "" }, if u.in_new_seg { "segment>checkpoint " } else { "" }, if u.in_wal { "WAL" } else { "" })).collect::<Vec<_>>().join(" ; ")
}

async fn run(us: &[Upd], rng: &mut Rng, use_wal_api: bool, label: &str) -> Option<Found> {
    let store = InMemoryObjectStore::new();
    let prefix = "t".to_string();
    let fail = |what: &str, e: String| Some(Found { input: format!("{}: {}", label, describe(us)), observed: format!("{}: {}", what, e), required: "persisting and recovering succeed".into() });
    let mut p = match StreamingPersistence::new(Arc::new(store.clone()), prefix.clone(), 1, WriteBufferConfig::test()).await { Ok(p) => p, Err(e) => return fail("StreamingPersistence::new", e.to_string()) };
    // segments covered by the checkpoint (ids <= last_segment_id): one or two flushes
    let old: Vec<&Upd> = us.iter().filter(|u| u.in_old_seg).collect();
    let has_ckpt = us.iter().any(|u| u.in_ckpt);
    let mut last_old_id = 0u64;
    if has_ckpt {
        // at least one covered segment exists whenever there is a checkpoint (its id is what last_segment_id names)
        let filler = mk("s_filler", 1, 1).0;
        let _ = p.push(filler);
        let cut = if old.len() > 1 { 1 + rng.below(old.len() as u64 - 1) as usize } else { old.len() };
        for (i, u) in old.iter().enumerate() { if i == cut { if let Ok(r) = p.flush().await { if let Some(s) = r.segment { last_old_id = s.id; } } } let _ = p.push(u.delta.clone()); }
        match p.flush().await { Ok(r) => if let Some(s) = r.segment { last_old_id = s.id; }, Err(e) => return fail("flush", e.to_string()) }
        // the checkpoint: the merged state of everything it covers
        let mut state: HashMap<String, ReplicatedValue> = HashMap::new();
        merge_into(&mut state, "s_filler", &mk("s_filler", 1, 1).0.value);
        for u in us.iter().filter(|u| u.in_ckpt) { merge_into(&mut state, &u.delta.key, &u.delta.value); }
        let mm = ManifestManager::new(store.clone(), &prefix);
        let cm = CheckpointManager::new(Arc::new(store.clone()), prefix.clone(), mm.clone(), CheckpointConfig::test());
        let res = match cm.create_checkpoint(state, last_old_id).await { Ok(r) => r, Err(e) => return fail("create_checkpoint", e.to_string()) };
        let mut manifest = match mm.load().await { Ok(m) => m, Err(e) => return fail("manifest load", e.to_string()) };
        manifest.checkpoint = Some(CheckpointInfo { key: res.key, timestamp_ms: res.timestamp_ms, key_count: res.key_count, last_segment_id: res.last_segment_id });
        manifest.version += 1;
        if let Err(e) = mm.save(&manifest).await { return fail("manifest save", e.to_string()); }
    }
    // segments after the checkpoint: several flushes, in a shuffled order
    let mut newer: Vec<&Upd> = us.iter().filter(|u| u.in_new_seg).collect();
    for j in (1..newer.len()).rev() { let k = rng.below(j as u64 + 1) as usize; newer.swap(j, k); }
    for (i, u) in newer.iter().enumerate() { let _ = p.push(u.delta.clone()); if rng.chance(1, 3) || i + 1 == newer.len() { if let Err(e) = p.flush().await { return fail("flush", e.to_string()); } } }
    // the WAL: shuffled, small files so that entries spread over several
    let wal_store = InMemoryWalStore::new();
    let mut rot = match WalRotator::new(wal_store.clone(), 300) { Ok(r) => r, Err(e) => return fail("WalRotator::new", e.to_string()) };
    let mut wal: Vec<&Upd> = us.iter().filter(|u| u.in_wal).collect();
    for j in (1..wal.len()).rev() { let k = rng.below(j as u64 + 1) as usize; wal.swap(j, k); }
    for u in &wal { match WalEntry::from_delta(&u.delta, u.delta.value.timestamp.time) { Ok(e) => { if let Err(x) = rot.append(&e) { return fail("WAL append", x.to_string()); } } Err(x) => return fail("WalEntry::from_delta", x.to_string()) } }
    let _ = rot.sync();
    // ---- recovery on a fresh node ----
    let rm = RecoveryManager::new(store.clone(), &prefix, 1);
    let fresh_rot = match WalRotator::new(wal_store.clone(), 300) { Ok(r) => r, Err(e) => return fail("WalRotator::new", e.to_string()) };
    let recovered = if use_wal_api || !wal.is_empty() { rm.recover_with_wal(&fresh_rot).await } else { rm.recover().await };
    let recovered = match recovered { Ok(r) => r, Err(e) => return fail("recover", e.to_string()) };
    let node = ReplicatedShardedState::new(ReplicationConfig { enabled: true, replica_id: 1, ..Default::default() });
    let n_ckpt = recovered.checkpoint_state.as_ref().map(|s| s.len()).unwrap_or(0);
    let n_deltas = recovered.deltas.len();
    node.apply_recovered_state(recovered.checkpoint_state, recovered.deltas);
    let got = node.snapshot_state().await;
    // ---- the fold of merge over everything persisted ----
    let mut want: HashMap<String, ReplicatedValue> = HashMap::new();
    if has_ckpt { merge_into(&mut want, "s_filler", &mk("s_filler", 1, 1).0.value); }
    for u in us { merge_into(&mut want, &u.delta.key, &u.delta.value); }
    let keys: BTreeMap<&String, ()> = want.keys().chain(got.keys()).map(|k| (k, ())).collect();
    for k in keys.keys() {
        let (g, w) = (got.get(*k).map(obs), want.get(*k).map(obs));
        if g != w {
            return Some(Found { input: format!("{}: {}; recovery through {} returned a checkpoint of {} keys and {} deltas", label, describe(us), if use_wal_api || !wal.is_empty() { "recover_with_wal" } else { "recover" }, n_ckpt, n_deltas), observed: format!("recovered state of key {:?}: {:?}", k, g), required: format!("the merge of everything persisted for that key: {:?}", w) });
        }
    }
    // the node serves what the recovered state says
    for (k, v) in &want {
        if v.is_hash() {
            let served: BTreeMap<String, String> = match node.execute(Command::HGetAll(k.clone())).await { RespValue::Array(Some(a)) => a.chunks(2).filter_map(|c| match (&c[0], c.get(1)) { (RespValue::BulkString(Some(f)), Some(RespValue::BulkString(Some(x)))) => Some((String::from_utf8_lossy(f).to_string(), String::from_utf8_lossy(x).to_string())), _ => None }).collect(), _ => BTreeMap::new() };
            let says: BTreeMap<String, String> = v.get_hash().map(|h| h.iter().filter_map(|(f, l)| l.get().map(|x| (f.clone(), String::from_utf8_lossy(x.as_bytes()).to_string()))).collect()).unwrap_or_default();
            if served != says { return Some(Found { input: format!("{}: {}", label, describe(us)), observed: format!("after recovery HGETALL {} = {:?}", k, served), required: format!("what the recovered replication state says: {:?}", says) }); }
        } else {
            let served = match node.execute(Command::Get(k.clone())).await { RespValue::BulkString(b) => b.map(|x| String::from_utf8_lossy(&x).to_string()), other => Some(format!("{:?}", other)) };
            let says = v.get().map(|s| String::from_utf8_lossy(s.as_bytes()).to_string());
            if served != says { return Some(Found { input: format!("{}: {}", label, describe(us)), observed: format!("after recovery GET {} = {:?}", k, served), required: format!("what the recovered replication state says: {:?}", says) }); }
        }
    }
    // a write accepted after recovery supersedes everything that was recovered (its stamp is above every persisted stamp of the key):
    // merging the old persisted state back in (a peer, a second recovery) must not undo it
    for (k, old) in &want {
        if old.is_hash() { continue; }
        let reply = node.execute(Command::set(k.clone(), SDS::from_str("after-recovery"))).await;
        let now = node.snapshot_state().await;
        let cur = match now.get(k) { Some(v) => v.clone(), None => return Some(Found { input: format!("{}: {}; after recovery SET {} after-recovery -> {:?}", label, describe(us), k, reply), observed: "the key is not in the replication state".into(), required: "the new write is recorded".into() }) };
        let back = cur.merge(old);
        let val = |v: &ReplicatedValue| v.get().map(|s| String::from_utf8_lossy(s.as_bytes()).to_string());
        if val(&back) != Some("after-recovery".to_string()) || !(cur.timestamp > old.timestamp) {
            return Some(Found { input: format!("{}: {}; after recovery the node accepts SET {} after-recovery", label, describe(us), k), observed: format!("the write is stamped ({},r{}); merging the persisted state of the key (stamp ({},r{}), value {:?}) back in gives {:?}", cur.timestamp.time, cur.timestamp.replica_id.0, old.timestamp.time, old.timestamp.replica_id.0, val(old), val(&back)), required: "a write accepted after recovery is stamped above every recovered stamp and survives a merge with the recovered state".into() });
        }
    }
    None
}

fn upd(key: &str, t: u64, r: u64, c: bool, o: bool, n: bool, w: bool) -> Upd { let (delta, text) = mk(key, t, r); Upd { delta, text, in_ckpt: c || o, in_old_seg: o, in_new_seg: n, in_wal: w } }

pub fn search(_pid: &str, oid: &str, seed: u64) -> Option<Found> {
    let rt = tokio::runtime::Builder::new_current_thread().enable_all().build().ok()?;
    let oid = oid.to_string();
    rt.block_on(async move {
        let mut rng = Rng::new(seed + 111);
        let _ = &oid;
        // structured witness families
        let fams: Vec<(&str, Vec<Upd>)> = vec![
            ("WAL entry stamped below the segments' high-water mark (another shard's clock)", vec![upd("s1", 100, 1, false, false, true, false), upd("s2", 5, 2, false, false, false, true)]),
            ("WAL only", vec![upd("s1", 7, 1, false, false, false, true), upd("s1", 3, 2, false, false, false, true), upd("h1", 4, 1, false, false, false, true), upd("h1", 2, 2, false, false, false, true)]),
            ("the same updates in a segment and in the WAL", vec![upd("s1", 9, 1, false, false, true, true), upd("h1", 3, 2, false, false, true, true), upd("h1", 8, 1, false, false, true, true)]),
            ("checkpoint holds a hash field at (10,r1), a later segment holds another field stamped (7,r2)", vec![upd("h1", 10, 1, true, true, false, false), upd("h1", 7, 2, false, false, true, false)]),
            ("checkpoint holds a hash field at (10,r1), the WAL holds another field stamped (7,r2)", vec![upd("h1", 10, 1, true, false, false, false), upd("h1", 7, 2, false, false, false, true)]),
            ("checkpoint + covered segment + newer segment + WAL, stamps interleaved", vec![upd("s1", 20, 1, true, true, false, false), upd("s1", 4, 2, false, false, true, false), upd("s2", 3, 3, false, false, false, true), upd("h2", 15, 2, true, false, false, true), upd("h2", 6, 3, false, false, true, true), upd("h2", 30, 1, false, false, false, true)]),
            ("a newer value only in the WAL, an older one in the checkpoint", vec![upd("s1", 5, 1, true, true, false, false), upd("s1", 50, 2, false, false, false, true), upd("s3", 10, 1, true, false, true, false)]),
            ("the checkpoint holds a tombstone as the newest stamp of its key", vec![upd("s1", 5, 1, true, true, false, false), upd("s1", 8, 2, true, true, false, false), upd("s2", 3, 1, true, false, false, false)]),
            ("tombstone in the WAL for a key of the checkpoint", vec![upd("s1", 6, 1, true, true, false, false), upd("s1", 14, 1, false, false, false, true), upd("s1", 9, 2, false, false, true, false)]),
        ];
        for (name, us) in &fams { for api in [true, false] { for _ in 0..3 { if let Some(f) = run(us, &mut rng, api, name).await { return Some(f); } } } }
        // seeded random splits
        for it in 0..150u64 {
            let n = 2 + rng.below(12);
            let with_ckpt = rng.chance(2, 3);
            let mut us = Vec::new();
            let mut seen: Vec<(String, u64, u64)> = Vec::new();
            for _ in 0..n {
                let key = *rng.pick(&["s1", "s2", "s3", "h1", "h2"]);
                let (t, r) = (2 + rng.below(40), 1 + rng.below(3));
                if seen.contains(&(key.to_string(), t, r)) { continue; }
                seen.push((key.to_string(), t, r));
                let loc = rng.below(7);
                let (c, o) = if with_ckpt { (loc == 0 || rng.chance(1, 3), loc == 1) } else { (false, false) };
                let nw = rng.chance(1, 2) || loc == 2; let w = rng.chance(1, 2) || loc == 3;
                let (c, o, nw, w) = if !(c || o || nw || w) { (false, false, false, true) } else { (c, o, nw, w) };
                us.push(upd(key, t, r, c, o, nw, w));
            }
            if us.is_empty() { continue; }
            let api = rng.chance(1, 2);
            if let Some(f) = run(&us, &mut rng, api, &format!("random split {} (seed {})", it, seed)).await { return Some(f); }
        }
        None
    })
}
