//! Unit `shard_apply` (C06): two or three real ReplicatedShardActors accept concurrent HSET / HDEL / SET / SETEX / DEL on the same
//! and on different keys, then exchange the emitted deltas in every order with duplicates (and echoes of their own deltas).
//! Afterwards every replica must answer GET / HGET / HGETALL / EXISTS / TTL identically AND each answer must equal what the
//! replica's own replication state (get_snapshot) says.
//! Also the two scenarios `SET k a; SET k b NX` (a no-op SET must not be recorded as a write) and `SET k1 x; DEL k1 k2`
//! (every tombstone of a multi-key DEL reaches peers and the persistence sink).
//! Off by default: mixed TTLs on one key (ids containing "ttl_merge" / VERIF_SHARD_APPLY_TTL=1) and DEL on hash keys
//! (VERIF_SHARD_APPLY_HASHDEL=1) - both fail on the unchanged tree, reported separately.
use crate::executor::{cmd_text, show};
use crate::rng::Rng;
use crate::Found;
use redis_sim::production::{ReplicatedShardActor, ReplicatedShardHandle, ReplicatedShardedState};
use redis_sim::redis::{Command, RespValue, SDS};
use redis_sim::replication::state::{ReplicatedValue, ReplicationDelta};
use redis_sim::replication::{ConsistencyLevel, ReplicaId, ReplicationConfig};
use std::collections::HashMap;

fn sds(s: &str) -> SDS { SDS::new(s.as_bytes().to_vec()) }
const HKEYS: [&str; 2] = ["h1", "h2"];
const SKEYS: [&str; 2] = ["s1", "s2"];
const FIELDS: [&str; 3] = ["f", "g", "x"];

async fn ask(h: &ReplicatedShardHandle, c: Command) -> String { show(&h.execute_all(c).await.0) }

async fn hgetall(h: &ReplicatedShardHandle, k: &str) -> String {
    match h.execute_all(Command::HGetAll(k.to_string())).await.0 {
        RespValue::Array(Some(a)) => { let mut p: Vec<String> = a.chunks(2).map(|c| c.iter().map(show).collect::<Vec<_>>().join("=")).collect(); p.sort(); format!("{{{}}}", p.join(",")) }
        other => show(&other),
    }
}

/// what a replica serves for every key / field of the pool
async fn served(h: &ReplicatedShardHandle) -> Vec<(String, String)> {
    let mut out = Vec::new();
    for k in HKEYS.iter().chain(SKEYS.iter()) {
        out.push((format!("EXISTS {}", k), ask(h, Command::Exists(vec![k.to_string()])).await));
        out.push((format!("TTL {}", k), ask(h, Command::Ttl(k.to_string())).await));
    }
    for k in SKEYS { out.push((format!("GET {}", k), ask(h, Command::Get(k.to_string())).await)); }
    for k in HKEYS { out.push((format!("HGETALL {}", k), hgetall(h, k).await)); for f in FIELDS { out.push((format!("HGET {} {}", k, f), ask(h, Command::HGet(k.to_string(), sds(f))).await)); } }
    out
}

/// what the replica's own replication state says the same questions must be answered with
fn state_says(snap: &HashMap<String, ReplicatedValue>) -> Vec<(String, String)> {
    let mut out = Vec::new();
    let b = |s: &SDS| format!("\"{}\"", String::from_utf8_lossy(s.as_bytes()));
    let live = |k: &str| -> Option<&ReplicatedValue> { snap.get(k).filter(|v| if v.is_hash() { v.get_hash().map(|h| h.values().any(|l| l.get().is_some())).unwrap_or(false) } else { v.get().is_some() }) };
    for k in HKEYS.iter().chain(SKEYS.iter()) {
        out.push((format!("EXISTS {}", k), if live(k).is_some() { ":1".into() } else { ":0".into() }));
        out.push((format!("TTL {}", k), match live(k) { None => ":-2".into(), Some(v) => match v.expiry_ms { Some(ms) if !v.is_hash() => format!(":{}", ms / 1000), _ => ":-1".into() } }));
    }
    for k in SKEYS { out.push((format!("GET {}", k), live(k).and_then(|v| v.get()).map(|s| b(s)).unwrap_or_else(|| "nil".into()))); }
    for k in HKEYS {
        let fields: Vec<(String, String)> = live(k).and_then(|v| v.get_hash()).map(|h| h.iter().filter_map(|(f, l)| l.get().map(|v| (f.clone(), b(v)))).collect()).unwrap_or_default();
        let mut p: Vec<String> = fields.iter().map(|(f, v)| format!("\"{}\"={}", f, v)).collect(); p.sort();
        out.push((format!("HGETALL {}", k), format!("{{{}}}", p.join(","))));
        for f in FIELDS { out.push((format!("HGET {} {}", k, f), fields.iter().find(|(x, _)| x == f).map(|(_, v)| v.clone()).unwrap_or_else(|| "nil".into()))); }
    }
    out
}

fn show_delta(d: &ReplicationDelta) -> String { format!("{}@({},r{})", d.key, d.value.timestamp.time, d.value.timestamp.replica_id.0) }

/// rounds[r][replica] = commands that replica accepts in round r before any delta of that round is delivered
async fn scenario(n: usize, rounds: &[Vec<Vec<Command>>], rng: &mut Rng, label: &str, with_hash_del: bool) -> Option<Found> {
    let hs: Vec<ReplicatedShardHandle> = (0..n).map(|i| ReplicatedShardActor::spawn(ReplicaId::new(i as u64 + 1), ConsistencyLevel::Eventual, 0)).collect();
    let mut trace: Vec<String> = Vec::new();
    for (r, per_replica) in rounds.iter().enumerate() {
        let mut emitted: Vec<(usize, ReplicationDelta)> = Vec::new();
        for (i, cmds) in per_replica.iter().enumerate().take(n) {
            for c in cmds {
                let (reply, deltas) = hs[i].execute_all(c.clone()).await;
                trace.push(format!("R{}: {} -> {}{}", i + 1, cmd_text(c), show(&reply), if deltas.is_empty() { String::new() } else { format!(" [delta {}]", deltas.iter().map(show_delta).collect::<Vec<_>>().join(", ")) }));
                for d in deltas { emitted.push((i, d)); }
            }
        }
        // delivery: every replica gets every delta of the round (others' always, its own sometimes) in its own order, some twice
        for i in 0..n {
            let mut inbox: Vec<ReplicationDelta> = emitted.iter().filter(|(src, _)| *src != i || rng.chance(1, 3)).map(|(_, d)| d.clone()).collect();
            let dup: Vec<ReplicationDelta> = inbox.iter().filter(|_| rng.chance(1, 3)).cloned().collect();
            inbox.extend(dup);
            for j in (1..inbox.len()).rev() { let k = rng.below(j as u64 + 1) as usize; inbox.swap(j, k); }
            trace.push(format!("round {} delivery to R{}: [{}]", r, i + 1, inbox.iter().map(show_delta).collect::<Vec<_>>().join(", ")));
            for d in inbox { hs[i].apply_remote_delta(d); }
        }
    }
    let mut answers = Vec::new();
    for h in &hs { answers.push(served(h).await); }
    let mut found = None;
    'outer: for i in 0..n {
        let snap = hs[i].get_snapshot().await;
        let says = state_says(&snap);
        for (q, (a, s)) in answers[i].iter().zip(says.iter()).map(|(a, s)| (a.0.clone(), (a.1.clone(), s.1.clone()))) {
            if a != s { found = Some(Found { input: format!("{} ({} replicas{}): {}", label, n, if with_hash_del { ", DEL on hash keys included" } else { "" }, trace.join(" ; ")), observed: format!("replica R{} answers {} with {} but its own replication state says {}", i + 1, q, a, s), required: "every replica serves exactly what its replication state says".into() }); break 'outer; }
        }
        for j in 0..answers[i].len() { if answers[i][j].1 != answers[0][j].1 { found = Some(Found { input: format!("{} ({} replicas): {}", label, n, trace.join(" ; ")), observed: format!("{}: R1 answers {}, R{} answers {}", answers[0][j].0, answers[0][j].1, i + 1, answers[i][j].1), required: "after every update was delivered to every replica (in any order, with duplicates) all replicas answer identically".into() }); break 'outer; } }
    }
    for h in &hs { h.shutdown().await; }
    found
}

fn hset(k: &str, f: &str, v: &str) -> Command { Command::HSet(k.into(), vec![(sds(f), sds(v))]) }

fn random_cmd(rng: &mut Rng, tag: &str, with_hash_del: bool, ttl_mix: bool) -> Command {
    let hk = *rng.pick(&HKEYS[..]); let sk = *rng.pick(&SKEYS[..]); let f = *rng.pick(&FIELDS[..]);
    let v = format!("{}{}", tag, rng.below(100));
    match rng.below(if with_hash_del { 11 } else { 10 }) {
        0 | 1 | 2 => hset(hk, f, &v),
        3 => Command::HSet(hk.to_string(), vec![(sds("f"), sds(&format!("{}a", tag))), (sds("g"), sds(&format!("{}b", tag)))]),
        4 | 5 => Command::HDel(hk.to_string(), vec![sds(f)]),
        // default: plain SET lives on s1, SETEX (one fixed TTL) on s2 - mixing TTLs on one key hits the expiry-merge divergence
        // (merge keeps max(expiry) / Some over None while a local write replaces it), reported separately; `ttl_mix` turns the mix on
        6 | 7 => Command::set(if ttl_mix { sk.to_string() } else { "s1".to_string() }, sds(&v)),
        8 => if ttl_mix { Command::setex(sk.to_string(), 10 + rng.below(90) as i64, sds(&format!("{}ttl", tag))) } else { Command::setex("s2".to_string(), 100, sds(&format!("{}ttl", tag))) },
        9 => Command::del(sk.to_string()),
        _ => Command::del(hk.to_string()),
    }
}

// ---------------- the two candidate defects found by reading (reported; off by default) ----------------
async fn candidate_set_nx() -> Option<Found> {
    let a = ReplicatedShardActor::spawn(ReplicaId::new(1), ConsistencyLevel::Eventual, 0);
    let b = ReplicatedShardActor::spawn(ReplicaId::new(2), ConsistencyLevel::Eventual, 0);
    let (r1, d1) = a.execute_all(Command::set("k".into(), sds("a"))).await;
    let (r2, d2) = a.execute_all(Command::Set { key: "k".into(), value: sds("b"), ex: None, px: None, exat: None, pxat: None, nx: true, xx: false, get: false, keepttl: false }).await;
    let rendered = |d: &Vec<ReplicationDelta>| d.iter().map(|d| format!("{}={:?}@({},r{})", d.key, d.value.get().map(|s| String::from_utf8_lossy(s.as_bytes()).to_string()), d.value.timestamp.time, d.value.timestamp.replica_id.0)).collect::<Vec<_>>().join(", ");
    for d in d1.iter().chain(d2.iter()).cloned() { b.apply_remote_delta(d); }
    let (serves, peer) = (ask(&a, Command::Get("k".into())).await, ask(&b, Command::Get("k".into())).await);
    let says = a.get_snapshot().await.get("k").and_then(|v| v.get().map(|s| format!("\"{}\"", String::from_utf8_lossy(s.as_bytes())))).unwrap_or_else(|| "nil".into());
    a.shutdown().await; b.shutdown().await;
    if serves != says || serves != peer {
        return Some(Found { input: format!("replica A: SET k a -> {} [delta {}] ; SET k b NX -> {} [delta {}] ; both deltas delivered to replica B", show(&r1), rendered(&d1), show(&r2), rendered(&d2)), observed: format!("A serves GET k = {}, A's replication state says k = {}, peer B serves GET k = {}", serves, says, peer), required: "a SET NX that did not set anything records no write: A's state and every peer agree with what A serves (\"a\")".into() });
    }
    None
}

async fn candidate_multi_del() -> Option<Found> {
    // actor level
    let a = ReplicatedShardActor::spawn(ReplicaId::new(1), ConsistencyLevel::Eventual, 0);
    let b = ReplicatedShardActor::spawn(ReplicaId::new(2), ConsistencyLevel::Eventual, 0);
    let (_, d1) = a.execute_all(Command::set("k1".into(), sds("x"))).await;
    let _ = a.drain_pending_deltas().await;
    let (r2, d2) = a.execute_all(Command::Del(vec!["k1".into(), "k2".into()])).await;
    let pending = a.drain_pending_deltas().await;
    for d in d1.iter().chain(d2.iter()).cloned() { b.apply_remote_delta(d); }
    let (serves, peer) = (ask(&a, Command::Get("k1".into())).await, ask(&b, Command::Get("k1".into())).await);
    a.shutdown().await; b.shutdown().await;
    // state level: gossip outbound queue + persistence sink of a ReplicatedShardedState
    let mut st = ReplicatedShardedState::new(ReplicationConfig { enabled: true, replica_id: 1, ..Default::default() });
    let (tx, rx) = redis_sim::streaming::delta_sink_channel();
    st.set_delta_sink(tx);
    let mut k2 = String::from("k2");
    // a second key on the same shard as k1 (a DEL naming both is then ONE command for that shard): the one that makes DEL reply :2 when both exist
    for i in 0..2000 {
        let cand = format!("k2_{}", i);
        let p = ReplicatedShardedState::new(ReplicationConfig { enabled: true, replica_id: 9, ..Default::default() });
        p.execute(Command::set("k1".into(), sds("x"))).await; p.execute(Command::set(cand.clone(), sds("y"))).await;
        if show(&p.execute(Command::Del(vec!["k1".into(), cand.clone()])).await) == ":2" { k2 = cand; break; }
    }
    st.execute(Command::set("k1".into(), sds("x"))).await;
    let drain = |st: &ReplicatedShardedState| -> Vec<ReplicationDelta> { let mut g = Vec::new(); if let Some(gs) = st.get_gossip_state() { for m in gs.write().drain_outbound() { if let Some(ds) = m.message.into_deltas() { g.extend(ds); } } } g };
    let _ = drain(&st); let _ = rx.drain();
    let reply = show(&st.execute(Command::Del(vec!["k1".into(), k2.clone()])).await);
    let (gossip, sink) = (drain(&st), rx.drain());
    let tomb = |ds: &[ReplicationDelta]| ds.iter().any(|d| d.key == "k1" && d.value.is_tombstone());
    if serves != peer || !tomb(&gossip) || !tomb(&sink) {
        return Some(Found {
            input: format!("replica A: SET k1 x ; DEL k1 k2 (k2 absent) -> {} ; the delta returned by execute ({}) is delivered to replica B. Node level (ReplicatedShardedState, k2 = {} on k1's shard): SET k1 x ; DEL k1 {} -> {}", show(&r2), format!("[{}]", d2.iter().map(show_delta).collect::<Vec<_>>().join(", ")), k2, k2, reply),
            observed: format!("A serves GET k1 = {}, peer B serves GET k1 = {}; execute returned delta: {}; pending deltas of the shard: [{}]; node level: gossip outbound carries a k1 tombstone: {}, persistence sink received one: {}", serves, peer, format!("[{}]", d2.iter().map(show_delta).collect::<Vec<_>>().join(", ")), pending.iter().map(show_delta).collect::<Vec<_>>().join(", "), tomb(&gossip), tomb(&sink)),
            required: "the tombstone of every key a multi-key DEL removed reaches the peers and the WAL sink".into(),
        });
    }
    None
}

pub fn search(_pid: &str, oid: &str, seed: u64) -> Option<Found> {
    let rt = tokio::runtime::Builder::new_current_thread().enable_all().build().ok()?;
    let oid = oid.to_string();
    rt.block_on(async move {
        // the two defects found by reading (repaired in /repo by be170f7 and 6117884): regression scenarios, always run
        if let Some(f) = candidate_set_nx().await { return Some(f); }
        if let Some(f) = candidate_multi_del().await { return Some(f); }
        let mut rng = Rng::new(seed + 66);
        // structured: the recorded witness family - concurrent writes to different / the same fields of one hash, concurrent string writes
        let fams: Vec<(&str, Vec<Vec<Vec<Command>>>)> = vec![
            ("concurrent HSET on different fields of one hash", vec![vec![vec![hset("h1", "f", "alice")], vec![hset("h1", "g", "paris")], vec![hset("h1", "x", "third")]]]),
            ("concurrent HSET on the same field", vec![vec![vec![hset("h1", "f", "a")], vec![hset("h1", "f", "b")], vec![hset("h1", "f", "c")]]]),
            ("HDEL concurrent with HSET of another field", vec![vec![vec![hset("h1", "f", "1"), hset("h1", "g", "2")], vec![], vec![]], vec![vec![Command::HDel("h1".into(), vec![sds("f")])], vec![hset("h1", "x", "9")], vec![hset("h1", "f", "late")]]]),
            ("concurrent SET / DEL on one string key, SETEX / DEL on another", vec![vec![vec![Command::set("s1".into(), sds("a")), Command::setex("s2".into(), 100, sds("t1"))], vec![Command::set("s1".into(), sds("b")), Command::setex("s2".into(), 100, sds("t2"))], vec![Command::set("s1".into(), sds("c")), Command::del("s1".into()), Command::del("s2".into())]]]),
            ("several writes per replica before any delivery (stamps differ)", vec![vec![vec![hset("h1", "f", "a1"), hset("h2", "f", "a2"), hset("h1", "g", "a3")], vec![hset("h1", "x", "b1")], vec![Command::set("s1".into(), sds("c1")), hset("h1", "g", "c2")]]]),
            ("two rounds", vec![vec![vec![hset("h1", "f", "a")], vec![hset("h1", "g", "b")], vec![]], vec![vec![Command::HDel("h1".into(), vec![sds("g")])], vec![hset("h1", "f", "b2")], vec![hset("h1", "g", "c3"), Command::set("s2".into(), sds("z"))]]]),
        ];
        for (name, rounds) in &fams { for n in [2usize, 3] { for _ in 0..4 { if let Some(f) = scenario(n, rounds, &mut rng, name, false).await { return Some(f); } } } }
        // seeded random
        for it in 0..250u64 {
            let n = 2 + rng.below(2) as usize;
            let nr = 1 + rng.below(3) as usize;
            let rounds: Vec<Vec<Vec<Command>>> = (0..nr).map(|r| (0..n).map(|i| (0..rng.below(4)).map(|j| random_cmd(&mut rng, &format!("r{}n{}c{}_", r, i + 1, j), false, false)).collect()).collect()).collect();
            if let Some(f) = scenario(n, &rounds, &mut rng, &format!("random scenario {} (seed {})", it, seed), false).await { return Some(f); }
        }
        // on request (ids containing "ttl_merge" / VERIF_SHARD_APPLY_TTL=1): writes with and without TTL (and different TTLs) on the same key
        if oid.contains("ttl_merge") || std::env::var("VERIF_SHARD_APPLY_TTL").map(|v| v == "1").unwrap_or(false) {
            let w = vec![vec![vec![Command::setex("s1".into(), 52, sds("v1"))], vec![Command::set("s1".into(), sds("v2"))]], vec![vec![], vec![Command::set("s1".into(), sds("v3"))]]];
            for _ in 0..6 { if let Some(f) = scenario(2, &w, &mut rng, "SETEX on R1 concurrent with SET on R2, then a later SET on R2", false).await { return Some(f); } }
            for it in 0..250u64 {
                let n = 2 + rng.below(2) as usize;
                let rounds: Vec<Vec<Vec<Command>>> = (0..2).map(|r| (0..n).map(|i| (0..rng.below(4)).map(|j| random_cmd(&mut rng, &format!("r{}n{}c{}_", r, i + 1, j), false, true)).collect()).collect()).collect();
                if let Some(f) = scenario(n, &rounds, &mut rng, &format!("random scenario {} with mixed TTLs", it), false).await { return Some(f); }
            }
        }
        // DEL of hash keys concurrent with HSET (on request: VERIF_SHARD_APPLY_HASHDEL=1)
        if std::env::var("VERIF_SHARD_APPLY_HASHDEL").map(|v| v == "1").unwrap_or(false) {
            for it in 0..250u64 {
                let n = 2 + rng.below(2) as usize;
                let rounds: Vec<Vec<Vec<Command>>> = (0..2).map(|r| (0..n).map(|i| (0..rng.below(4)).map(|j| random_cmd(&mut rng, &format!("r{}n{}c{}_", r, i + 1, j), true, false)).collect()).collect()).collect();
                if let Some(f) = scenario(n, &rounds, &mut rng, &format!("random scenario {} with DEL on hash keys", it), true).await { return Some(f); }
            }
        }
        None
    })
}
