//! Unit `orset` (C07): the real lattice::ORSet<String> / GSet<String> and the `==` of the per-replica count maps
//! (VectorClock / GCounter / PNCounter), against an independent rendering of the contract views:
//!   ORSet view = (element -> NON-EMPTY set of active tags, replica -> next sequence number, absent = 0)
//!     add(e, r)            hands out the tag (r, next[r]) and bumps next[r]
//!     remove(e)            returns and drops every tag of e
//!     apply_remove(e, T)   drops exactly the tags in T (a tag handed out AFTER the remove was observed survives)
//!     merge                per element the union of the tag sets (empty unions absent), per replica the max of the counters
//!   EVERYTHING observable is compared: contains / elements / len / is_empty / get_tags of every element, the tag the NEXT add
//!   would hand out for every replica (that is how the sequence counters show), and the anti-entropy digest
//!   (KeyDigest::new over a ReplicatedValue holding the set): merge must be commutative, associative and idempotent in all of it,
//!   over families of sets that include used-then-emptied sets, disjoint and overlapping replicas, and sets that are merges.
//!   `==` on ORSet: equality of the element -> tag tables (and nothing else).  `==` on GSet: same elements.
//!   `==` on VectorClock / GCounter / PNCounter: every replica has the same count, an absent slot counting as 0;
//!   happens_before = strict pointwise order, concurrent_with = unordered and different.
use crate::rng::Rng;
use crate::Found;
use redis_sim::replication::anti_entropy::KeyDigest;
use redis_sim::replication::gossip::GossipMessage;
use redis_sim::replication::lattice::{GCounter, GSet, LamportClock, ORSet, PNCounter, ReplicaId, UniqueTag, VectorClock};
use redis_sim::replication::state::{CrdtValue, ReplicatedValue, ReplicationDelta};
use std::collections::{BTreeMap, BTreeSet, HashSet};
use std::panic::{catch_unwind, AssertUnwindSafe};

const ELEMS: [&str; 6] = ["a", "b", "c", "", "é", "a\0"];
const RIDS: [u64; 5] = [1, 2, 3, 4, 9];

type Tag = (u64, u64);

/// the contract view, written from the property
#[derive(Clone, PartialEq, Eq, Debug, Default)]
struct View { elems: BTreeMap<String, BTreeSet<Tag>>, next: BTreeMap<u64, u64> }
impl View {
    fn add(&mut self, e: &str, r: u64) -> Tag {
        let n = self.next.get(&r).copied().unwrap_or(0);
        self.next.insert(r, n + 1);
        self.elems.entry(e.to_string()).or_default().insert((r, n));
        (r, n)
    }
    fn remove(&mut self, e: &str) -> BTreeSet<Tag> { self.elems.remove(e).unwrap_or_default() }
    fn apply_remove(&mut self, e: &str, tags: &BTreeSet<Tag>) {
        if let Some(t) = self.elems.get_mut(e) { for x in tags { t.remove(x); } if t.is_empty() { self.elems.remove(e); } }
    }
    fn join(&self, o: &View) -> View {
        let mut v = View::default();
        for (e, t) in self.elems.iter().chain(o.elems.iter()) { if !t.is_empty() { v.elems.entry(e.clone()).or_default().extend(t.iter().cloned()); } }
        for (r, n) in self.next.iter().chain(o.next.iter()) { let x = v.next.entry(*r).or_insert(0); *x = (*x).max(*n); }
        v.next.retain(|_, n| *n > 0);
        v
    }
    /// what a client / peer can observe of a set with this view
    fn observe(&self) -> String {
        let els: Vec<&String> = self.elems.keys().collect();
        let contains: Vec<bool> = ELEMS.iter().map(|e| self.elems.contains_key(*e)).collect();
        let tags: Vec<Option<Vec<Tag>>> = ELEMS.iter().map(|e| self.elems.get(*e).map(|t| t.iter().cloned().collect())).collect();
        let nexts: Vec<Tag> = RIDS.iter().map(|r| (*r, self.next.get(r).copied().unwrap_or(0))).collect();
        format!("elements={:?} len={} is_empty={} contains{:?}={:?} get_tags={:?} next add hands out={:?}", els, self.elems.len(), self.elems.is_empty(), ELEMS, contains, tags, nexts)
    }
}

fn tagset(t: &HashSet<UniqueTag>) -> BTreeSet<Tag> { t.iter().map(|x| (x.replica_id.0, x.sequence)).collect() }
fn to_real(t: &BTreeSet<Tag>) -> HashSet<UniqueTag> { t.iter().map(|(r, s)| UniqueTag::new(ReplicaId(*r), *s)).collect() }

/// the same observation, taken from the real set through its public API only
fn observe_real(s: &ORSet<String>) -> String {
    let mut els: Vec<&String> = s.elements().collect(); els.sort();
    let contains: Vec<bool> = ELEMS.iter().map(|e| s.contains(&e.to_string())).collect();
    let tags: Vec<Option<Vec<Tag>>> = ELEMS.iter().map(|e| s.get_tags(&e.to_string()).map(|t| tagset(t).into_iter().collect())).collect();
    let nexts: Vec<Tag> = RIDS.iter().map(|r| { let mut c = s.clone(); let t = c.add("__probe".to_string(), ReplicaId(*r)); (t.replica_id.0, t.sequence) }).collect();
    format!("elements={:?} len={} is_empty={} contains{:?}={:?} get_tags={:?} next add hands out={:?}", els, s.len(), s.is_empty(), ELEMS, contains, tags, nexts)
}

fn digest_of(s: &ORSet<String>) -> u64 {
    let mut v = ReplicatedValue::with_crdt(CrdtValue::ORSet(s.clone()), ReplicaId(1));
    v.timestamp = LamportClock { time: 7, replica_id: ReplicaId(1) };
    KeyDigest::new("k", &v).value_hash
}

/// a set under test: the real one, its contract view, and how it was built
#[derive(Clone)]
struct Rep { real: ORSet<String>, view: View, how: String }
impl Rep { fn new() -> Rep { Rep { real: ORSet::new(), view: View::default(), how: "new()".into() } } }

fn short(s: &str) -> String { if s.chars().count() > 900 { format!("{}..({} chars)", s.chars().take(900).collect::<String>(), s.len()) } else { s.to_string() } }

fn guarded<T>(f: impl FnOnce() -> T) -> Result<T, String> {
    catch_unwind(AssertUnwindSafe(f)).map_err(|e| e.downcast_ref::<String>().cloned().or_else(|| e.downcast_ref::<&str>().map(|s| s.to_string())).unwrap_or_default())
}

/// after any step: the real set shows exactly what its view shows
fn agree(r: &Rep, step: &str) -> Option<Found> {
    let got = match guarded(|| observe_real(&r.real)) { Ok(g) => g, Err(p) => return Some(Found { input: short(&r.how), observed: format!("panic while reading the set: {}", p), required: "the set can be read".into() }) };
    let want = r.view.observe();
    if got != want {
        return Some(Found { input: format!("S = {}", short(&r.how)), observed: format!("after {}: {}", step, got), required: format!("{} (element -> union of its active tags, replica -> next sequence number)", want) });
    }
    None
}

fn op_add(r: &mut Rep, e: &str, rid: u64) -> Option<Found> {
    let want = r.view.add(e, rid);
    let got = r.real.add(e.to_string(), ReplicaId(rid));
    r.how.push_str(&format!("; add({:?}, r{})", e, rid));
    if (got.replica_id.0, got.sequence) != want {
        return Some(Found { input: format!("S = {}", short(&r.how)), observed: format!("the add returned the tag ({}, {})", got.replica_id.0, got.sequence), required: format!("the tag {:?}: replica {}'s next unused sequence number (a tag must never be handed out twice)", want, rid) });
    }
    agree(r, "the add")
}
fn op_remove(r: &mut Rep, e: &str) -> Result<BTreeSet<Tag>, Found> {
    let want = r.view.remove(e);
    let got = tagset(&r.real.remove(&e.to_string()));
    r.how.push_str(&format!("; remove({:?})", e));
    if got != want {
        return Err(Found { input: format!("S = {}", short(&r.how)), observed: format!("remove returned the tags {:?}", got), required: format!("{:?}: every active tag of the element, which is what peers must drop", want) });
    }
    match agree(r, "the remove") { Some(f) => Err(f), None => Ok(want) }
}
fn op_apply_remove(r: &mut Rep, e: &str, tags: &BTreeSet<Tag>) -> Option<Found> {
    r.view.apply_remove(e, tags);
    r.real.apply_remove(&e.to_string(), &to_real(tags));
    r.how.push_str(&format!("; apply_remove({:?}, {:?})", e, tags));
    agree(r, "the apply_remove (only the observed tags go; tags added since survive)")
}
fn op_merge(a: &Rep, b: &Rep) -> Result<Rep, Found> {
    let how = format!("merge[ {} | {} ]", a.how, b.how);
    let real = match guarded(|| a.real.merge(&b.real)) { Ok(m) => m, Err(p) => return Err(Found { input: short(&how), observed: format!("panic in merge: {}", p), required: "the merged set".into() }) };
    let m = Rep { real, view: a.view.join(&b.view), how };
    match agree(&m, "the merge") { Some(f) => Err(f), None => Ok(m) }
}

/// the laws on the real merge itself (no reference to the view): every observable + the digest + `==`
fn laws(a: &Rep, b: &Rep, c: &Rep, digests: &mut BTreeMap<String, u64>, by_digest: &mut BTreeMap<u64, String>) -> Option<Found> {
    let o = |s: &ORSet<String>| format!("{} digest={:016x}", observe_real(s), digest_of(s));
    let ab = a.real.merge(&b.real); let ba = b.real.merge(&a.real);
    if o(&ab) != o(&ba) {
        return Some(Found { input: format!("A = {} ;; B = {}", short(&a.how), short(&b.how)), observed: format!("A.merge(B): {} ;; B.merge(A): {}", o(&ab), o(&ba)), required: "merge is commutative in everything observable: members, tags of every element, the tag the next add hands out per replica, the anti-entropy digest".into() });
    }
    if !(ab == ba) || !(ba == ab) {
        return Some(Found { input: format!("A = {} ;; B = {}", short(&a.how), short(&b.how)), observed: "A.merge(B) == B.merge(A) is false".into(), required: "true: both hold the same element -> tag table".into() });
    }
    let aa = a.real.merge(&a.real);
    if o(&aa) != o(&a.real) || !(aa == a.real) {
        return Some(Found { input: format!("A = {}", short(&a.how)), observed: format!("A.merge(A): {} (== A: {})", o(&aa), aa == a.real), required: format!("idempotent: {}", o(&a.real)) });
    }
    let l = ab.merge(&c.real); let r = a.real.merge(&b.real.merge(&c.real));
    if o(&l) != o(&r) || !(l == r) {
        return Some(Found { input: format!("A = {} ;; B = {} ;; C = {}", short(&a.how), short(&b.how), short(&c.how)), observed: format!("(A.B).C: {} ;; A.(B.C): {} ;; == says {}", o(&l), o(&r), l == r), required: "merge is associative in everything observable (members, tags, next tags, digest)".into() });
    }
    // absorbing: merging a part into the whole changes nothing
    let again = ab.merge(&b.real);
    if o(&again) != o(&ab) {
        return Some(Found { input: format!("A = {} ;; B = {}", short(&a.how), short(&b.how)), observed: format!("(A.B).B: {}", o(&again)), required: format!("A.B = {}", o(&ab)) });
    }
    // `==` is equality of the element -> tag tables
    for (x, y) in [(a, b), (b, c), (a, c)] {
        let want = x.view.elems == y.view.elems;
        for (p, q, pn, qn) in [(x, y, "X", "Y"), (y, x, "Y", "X")] {
            if (p.real == q.real) != want {
                return Some(Found { input: format!("X = {} ;; Y = {}", short(&x.how), short(&y.how)), observed: format!("{} == {} is {}", pn, qn, p.real == q.real), required: format!("{}: X holds {:?}, Y holds {:?}; two sets are equal exactly when every element has the same tags in both", want, x.view.elems, y.view.elems) });
            }
        }
    }
    // digest: a function of the view, and different views (members, tags or counters) have different digests
    for s in [a, b, c, &Rep { real: ab.clone(), view: a.view.join(&b.view), how: format!("merge[ {} | {} ]", a.how, b.how) }] {
        let key = format!("{:?}", s.view);
        let d = digest_of(&s.real);
        if let Some(old) = digests.get(&key) { if *old != d {
            return Some(Found { input: format!("two sets with the view {} ; the second is {}", short(&key), short(&s.how)), observed: format!("digests {:016x} and {:016x}", old, d), required: "sets that agree on every element's tags and every replica's counter have one digest".into() });
        } }
        digests.insert(key.clone(), d);
        if let Some(other) = by_digest.get(&d) { if *other != key {
            return Some(Found { input: format!("views {} and {}", short(other), short(&key)), observed: format!("both digest to {:016x}", d), required: "sets that differ in members, tags or sequence counters have different digests (anti-entropy must see the difference)".into() });
        } }
        by_digest.insert(d, key);
    }
    None
}

/// a cluster run: every node owns a set; local adds / removes, state sync (merge) and remove propagation (apply_remove)
fn gen_family(rng: &mut Rng, nodes: usize, steps: usize, foreign: bool) -> Result<Vec<Rep>, Found> {
    let mut reps: Vec<Rep> = (0..nodes).map(|_| Rep::new()).collect();
    let mut snaps: Vec<Rep> = Vec::new();
    let mut removed: Vec<(String, BTreeSet<Tag>)> = Vec::new();
    for _ in 0..steps {
        let i = rng.below(nodes as u64) as usize;
        let ne = 4 + rng.below(3) as usize;
        let e = *rng.pick(&ELEMS[..ne]);
        match rng.below(10) {
            0..=3 => { let rid = if foreign && rng.chance(1, 3) { *rng.pick(&RIDS) } else { RIDS[i % 4] }; if let Some(f) = op_add(&mut reps[i], e, rid) { return Err(f); } }
            4 | 5 => { let t = op_remove(&mut reps[i], e)?; if !t.is_empty() { removed.push((e.to_string(), t)); } }
            6 => { if !removed.is_empty() { let (re, rt) = removed[rng.below(removed.len() as u64) as usize].clone(); if let Some(f) = op_apply_remove(&mut reps[i], &re, &rt) { return Err(f); } } }
            7 | 8 => { let j = rng.below(nodes as u64) as usize; if i != j { let m = op_merge(&reps[i], &reps[j])?; reps[i] = m; } }
            _ => snaps.push(reps[i].clone()),
        }
        // keep histories readable
        for r in reps.iter_mut() { if r.how.len() > 1500 { r.how = format!("(a set with the view {:?})", r.view); } }
    }
    reps.extend(snaps);
    Ok(reps)
}

fn structured() -> Option<Found> {
    let mut dg = BTreeMap::new(); let mut bd = BTreeMap::new();
    // used-then-emptied vs fresh: the counter of the emptied set must survive the merge in both orders
    let mut used = Rep::new();
    if let Some(f) = op_add(&mut used, "a", 1) { return Some(f); }
    if let Err(f) = op_remove(&mut used, "a") { return Some(f); }
    let fresh = Rep::new();
    let mut other = Rep::new();
    if let Some(f) = op_add(&mut other, "b", 2) { return Some(f); }
    let mut twice = Rep::new();
    for _ in 0..3 { if let Some(f) = op_add(&mut twice, "a", 1) { return Some(f); } }
    if let Err(f) = op_remove(&mut twice, "a") { return Some(f); }
    if let Some(f) = op_add(&mut twice, "c", 1) { return Some(f); }
    // overlapping replicas: both hand out tags of replica 1
    let mut o1 = Rep::new(); let mut o2 = Rep::new();
    if let Some(f) = op_add(&mut o1, "a", 1) { return Some(f); }
    if let Some(f) = op_add(&mut o2, "b", 1) { return Some(f); }
    if let Some(f) = op_add(&mut o2, "a", 1) { return Some(f); }
    let all = [used.clone(), fresh.clone(), other.clone(), twice.clone(), o1.clone(), o2.clone()];
    for a in &all { for b in &all {
        if let Err(f) = op_merge(a, b) { return Some(f); }
        for c in &all { if let Some(f) = laws(a, b, c, &mut dg, &mut bd) { return Some(f); } }
    } }
    // a merged set keeps handing out fresh tags: add after merge never reuses a tag that either side ever handed out
    for (a, b) in [(&used, &fresh), (&fresh, &used), (&twice, &o2), (&o2, &twice), (&used, &other)] {
        let mut m = match op_merge(a, b) { Ok(m) => m, Err(f) => return Some(f) };
        for rid in [1u64, 2] { if let Some(f) = op_add(&mut m, "a", rid) { return Some(f); } }
    }
    // stale remove after a re-add: replica B observed tag t0 and removed; A removed and re-added (t1); B's remove reaches A
    let mut a = Rep::new();
    if let Some(f) = op_add(&mut a, "a", 1) { return Some(f); }
    let mut b = a.clone(); b.how = format!("clone of ({})", a.how);
    let stale = match op_remove(&mut b, "a") { Ok(t) => t, Err(f) => return Some(f) };
    if let Err(f) = op_remove(&mut a, "a") { return Some(f); }
    if let Some(f) = op_add(&mut a, "a", 1) { return Some(f); }
    if let Some(f) = op_apply_remove(&mut a, "a", &stale) { return Some(f); }
    if !a.real.contains(&"a".to_string()) { return Some(Found { input: short(&a.how), observed: "the element is gone".into(), required: "a remove that observed only the old tag does not remove the re-added element".into() }); }
    // ... while removing the tag it did observe removes it, and removing from a set that never had the element is a no-op
    let mut a2 = Rep::new();
    if let Some(f) = op_add(&mut a2, "a", 1) { return Some(f); }
    if let Some(f) = op_add(&mut a2, "a", 2) { return Some(f); }
    if let Some(f) = op_apply_remove(&mut a2, "a", &[(1u64, 0u64)].into_iter().collect()) { return Some(f); }
    if let Some(f) = op_apply_remove(&mut a2, "b", &[(1u64, 0u64)].into_iter().collect()) { return Some(f); }
    if let Some(f) = op_apply_remove(&mut a2, "a", &[(2u64, 0u64), (5, 5)].into_iter().collect()) { return Some(f); }
    if let Some(f) = op_apply_remove(&mut a2, "a", &BTreeSet::new()) { return Some(f); }
    None
}

// ---------------- GSet ----------------
fn gobs(s: &GSet<String>) -> String {
    let mut e: Vec<&String> = s.elements().collect(); e.sort();
    let mut v = ReplicatedValue::with_crdt(CrdtValue::GSet(s.clone()), ReplicaId(1));
    v.timestamp = LamportClock { time: 7, replica_id: ReplicaId(1) };
    format!("elements={:?} len={} is_empty={} contains{:?}={:?} digest={:016x}", e, s.len(), s.is_empty(), ELEMS, ELEMS.iter().map(|x| s.contains(&x.to_string())).collect::<Vec<_>>(), KeyDigest::new("k", &v).value_hash)
}
fn check_gset(rng: &mut Rng, iters: usize) -> Option<Found> {
    for it in 0..iters {
        let mut sets: Vec<(GSet<String>, BTreeSet<String>)> = Vec::new();
        for k in 0..3 {
            let mut g = GSet::new(); let mut m = BTreeSet::new();
            let n = if it < 8 { (it >> k) & 1 } else { rng.below(5) as usize };
            for _ in 0..n {
                let e = rng.pick(&ELEMS).to_string();
                let fresh = m.insert(e.clone());
                if g.add(e.clone()) != fresh { return Some(Found { input: format!("GSet {:?}; add({:?})", m, e), observed: format!("add returned {}", !fresh), required: format!("{}: true exactly when the element was not a member", fresh) }); }
            }
            sets.push((g, m));
        }
        let (a, b, c) = (&sets[0], &sets[1], &sets[2]);
        let ab = a.0.merge(&b.0); let ba = b.0.merge(&a.0);
        let want: BTreeSet<String> = a.1.union(&b.1).cloned().collect();
        let got: BTreeSet<String> = ab.elements().cloned().collect();
        let inp = format!("A = {:?}, B = {:?}, C = {:?}", a.1, b.1, c.1);
        if got != want || ab.len() != want.len() || ab.is_empty() != want.is_empty() || ELEMS.iter().any(|e| ab.contains(&e.to_string()) != want.contains(*e)) {
            return Some(Found { input: inp, observed: format!("A.merge(B): {}", gobs(&ab)), required: format!("the union {:?}", want) });
        }
        if gobs(&ab) != gobs(&ba) || ab != ba { return Some(Found { input: inp, observed: format!("A.merge(B): {} ;; B.merge(A): {} ;; == says {}", gobs(&ab), gobs(&ba), ab == ba), required: "commutative".into() }); }
        if gobs(&a.0.merge(&a.0)) != gobs(&a.0) || a.0.merge(&a.0) != a.0 { return Some(Found { input: inp, observed: format!("A.merge(A): {}", gobs(&a.0.merge(&a.0))), required: "idempotent".into() }); }
        let l = ab.merge(&c.0); let r = a.0.merge(&b.0.merge(&c.0));
        if gobs(&l) != gobs(&r) || l != r { return Some(Found { input: inp, observed: format!("(A.B).C: {} ;; A.(B.C): {}", gobs(&l), gobs(&r)), required: "associative".into() }); }
        for (x, y) in [(a, b), (b, c), (a, c)] {
            if (x.0 == y.0) != (x.1 == y.1) { return Some(Found { input: format!("X = {:?}, Y = {:?}", x.1, y.1), observed: format!("X == Y is {}", x.0 == y.0), required: format!("{}: equal exactly when they hold the same elements", x.1 == y.1) }); }
            if (x.1 == y.1) != (gobs(&x.0) == gobs(&y.0)) { return Some(Found { input: format!("X = {:?}, Y = {:?}", x.1, y.1), observed: format!("{} ;; {}", gobs(&x.0), gobs(&y.0)), required: "same elements <=> same observations and digest".into() }); }
        }
    }
    None
}

// ---------------- `==` on the per-replica count maps: zero slot = absent slot ----------------
type Counts = BTreeMap<u64, u64>;
fn cget(m: &Counts, r: u64) -> u64 { m.get(&r).copied().unwrap_or(0) }
fn obs_eq(a: &Counts, b: &Counts) -> bool { RIDS.iter().all(|r| cget(a, *r) == cget(b, *r)) }
fn hb(a: &Counts, b: &Counts) -> bool { RIDS.iter().all(|r| cget(a, *r) <= cget(b, *r)) && RIDS.iter().any(|r| cget(a, *r) < cget(b, *r)) }

fn gcounter_of(m: &Counts) -> GCounter { let mut g = GCounter::new(); for (r, n) in m { g.increment_by(ReplicaId(*r), *n); } g }
fn pn_of(p: &Counts, n: &Counts) -> PNCounter { let mut c = PNCounter::new(); for (r, x) in p { c.increment_by(ReplicaId(*r), *x); } for (r, x) in n { c.decrement_by(ReplicaId(*r), *x); } c }

/// a vector clock with exactly these slots (zero slots included): such a clock arrives over the wire
/// (GossipMessage::deserialize); built by rewriting the clock of a serialized message
fn vc_of(m: &Counts) -> Option<VectorClock> {
    if m.values().all(|n| *n > 0 && *n <= 6) { let mut v = VectorClock::new(); for (r, n) in m { for _ in 0..*n { v.increment(ReplicaId(*r)); } } return Some(v); }
    let mut seed_vc = VectorClock::new(); seed_vc.increment(ReplicaId(77));
    let mut val = ReplicatedValue::new(ReplicaId(1)); val.vector_clock = Some(seed_vc);
    let msg = GossipMessage::new_delta_batch(ReplicaId(1), vec![ReplicationDelta::new("k".into(), val, ReplicaId(1))], 0);
    let json = String::from_utf8(msg.serialize().ok()?).ok()?;
    let needle = "\"clocks\":{\"77\":1}";
    if !json.contains(needle) { return None; }
    let body: Vec<String> = m.iter().map(|(r, n)| format!("\"{}\":{}", r, n)).collect();
    let json = json.replace(needle, &format!("\"clocks\":{{{}}}", body.join(",")));
    match GossipMessage::deserialize(json.as_bytes()).ok()? {
        GossipMessage::DeltaBatch { mut deltas, .. } => deltas.pop()?.value.vector_clock,
        _ => None,
    }
}

fn gen_counts(rng: &mut Rng, zeros: bool) -> Counts {
    let mut m = Counts::new();
    for r in RIDS { match rng.below(4) { 0 => {} 1 => { if zeros { m.insert(r, 0); } } _ => { m.insert(r, 1 + rng.below(3)); } } }
    m
}
/// the same counts, with zero slots dropped or added
fn respell(rng: &mut Rng, m: &Counts) -> Counts {
    let mut o = Counts::new();
    for r in RIDS { let n = cget(m, r); if n > 0 || rng.chance(1, 2) { o.insert(r, n); } }
    o
}

fn check_count_eq(rng: &mut Rng, iters: usize) -> Option<Found> {
    let wire_ok = vc_of(&[(1u64, 0u64)].into_iter().collect()).map(|v| v.get(&ReplicaId(1)) == 0).unwrap_or(false);
    if std::env::var("VERIF_REPLAY_DEBUG").is_ok() { eprintln!("orset: vector clocks with zero slots constructible over the wire: {}", wire_ok); }
    let mut cases: Vec<(Counts, Counts)> = Vec::new();
    let e = Counts::new();
    let z1: Counts = [(1u64, 0u64)].into_iter().collect();
    let z12: Counts = [(1u64, 0u64), (2, 0)].into_iter().collect();
    let p1: Counts = [(1u64, 2u64)].into_iter().collect();
    let p1z2: Counts = [(1u64, 2u64), (2, 0)].into_iter().collect();
    let p2: Counts = [(2u64, 2u64)].into_iter().collect();
    let p12: Counts = [(1u64, 2u64), (2, 1)].into_iter().collect();
    let all = [e, z1, z12, p1, p1z2, p2, p12];
    for a in &all { for b in &all { cases.push((a.clone(), b.clone())); } }
    for _ in 0..iters {
        let a = gen_counts(rng, true);
        let b = match rng.below(3) { 0 => respell(rng, &a), 1 => { let mut b = respell(rng, &a); let r = *rng.pick(&RIDS); let n = cget(&b, r); b.insert(r, if n > 0 && rng.chance(1, 2) { n - 1 } else { n + 1 }); b } _ => gen_counts(rng, true) };
        cases.push((a, b));
    }
    for (a, b) in &cases {
        let want = obs_eq(a, b);
        let inp = format!("slots (replica -> count) A = {:?}, B = {:?}", a, b);
        let (ga, gb) = (gcounter_of(a), gcounter_of(b));
        if (ga == gb) != want { return Some(Found { input: format!("GCounter {}", inp), observed: format!("A == B is {}", ga == gb), required: format!("{}: counters are equal exactly when every replica has the same count, a zero slot counting like an absent one", want) }); }
        // PNCounter: a on the positive side and b on the negative one, against the swap and against itself respelled
        let (ra, rb) = (respell(rng, a), respell(rng, b));
        let (pa, pb, pc) = (pn_of(a, b), pn_of(b, a), pn_of(&ra, &rb));
        if (pa == pb) != want { return Some(Found { input: format!("PNCounter X = (+A, -B), Y = (+B, -A); {}", inp), observed: format!("X == Y is {}", pa == pb), required: format!("{}: equal exactly when both halves agree slot by slot (zero = absent)", want) }); }
        if !(pa == pc) || !(pc == pa) { return Some(Found { input: format!("PNCounter X = (+A, -B), X' = (+{:?}, -{:?}): the same counts with zero slots added / dropped; {}", ra, rb, inp), observed: "X == X' is false".into(), required: "true: a zero slot counts like an absent one".into() }); }
        if wire_ok || (a.values().all(|n| *n > 0) && b.values().all(|n| *n > 0)) {
            if let (Some(va), Some(vb)) = (vc_of(a), vc_of(b)) {
                if (va == vb) != want { return Some(Found { input: format!("VectorClock {}", inp), observed: format!("A == B is {}", va == vb), required: format!("{}: clocks are equal exactly when every replica has the same count (absent = 0)", want) }); }
                let (h1, h2) = (hb(a, b), hb(b, a));
                if va.happens_before(&vb) != h1 || vb.happens_before(&va) != h2 { return Some(Found { input: format!("VectorClock {}", inp), observed: format!("A.happens_before(B) = {}, B.happens_before(A) = {}", va.happens_before(&vb), vb.happens_before(&va)), required: format!("{} and {}: <= in every slot and < in at least one (absent = 0)", h1, h2) }); }
                let conc = !h1 && !h2 && !want;
                if va.concurrent_with(&vb) != conc { return Some(Found { input: format!("VectorClock {}", inp), observed: format!("A.concurrent_with(B) = {}", va.concurrent_with(&vb)), required: format!("{}: unordered and different", conc) }); }
                let m = va.merge(&vb);
                for r in RIDS { if m.get(&ReplicaId(r)) != cget(a, r).max(cget(b, r)) { return Some(Found { input: format!("VectorClock {}", inp), observed: format!("merge has {} for replica {}", m.get(&ReplicaId(r)), r), required: format!("{} (the pointwise maximum)", cget(a, r).max(cget(b, r))) }); } }
                if m != vb.merge(&va) { return Some(Found { input: format!("VectorClock {}", inp), observed: "A.merge(B) != B.merge(A)".into(), required: "commutative".into() }); }
            }
        }
        // merges of counters: pointwise max, and `==` sees them alike in both orders
        let gm = ga.merge(&gb);
        for r in RIDS { if gm.get_replica_count(&ReplicaId(r)) != cget(a, r).max(cget(b, r)) { return Some(Found { input: format!("GCounter {}", inp), observed: format!("merge has {} for replica {}", gm.get_replica_count(&ReplicaId(r)), r), required: "the pointwise maximum".into() }); } }
        if gm != gb.merge(&ga) || gm.merge(&gm) != gm { return Some(Found { input: format!("GCounter {}", inp), observed: "merge(A,B) != merge(B,A) or merge(M,M) != M".into(), required: "commutative and idempotent modulo ==".into() }); }
    }
    None
}

pub fn search(_pid: &str, oid: &str, seed: u64) -> Option<Found> {
    let mut rng = Rng::new(seed + 707);
    let f = oid.split('/').nth(1).unwrap_or("");
    let counts_first = f.starts_with("VectorClock") || f.starts_with("GCounter") || f.starts_with("PNCounter") || f.contains("obs_eq");
    if counts_first { if let Some(x) = check_count_eq(&mut rng, 3000) { return Some(x); } }
    if f.starts_with("GSet") { if let Some(x) = check_gset(&mut rng, 800) { return Some(x); } }
    if let Some(x) = structured() { return Some(x); }
    // ---- seeded random families: 2..4 nodes, own replica ids (disjoint) or shared ones (overlapping)
    let mut dg: BTreeMap<String, u64> = BTreeMap::new(); let mut bd: BTreeMap<u64, String> = BTreeMap::new();
    for round in 0..260u64 {
        let nodes = 2 + rng.below(3) as usize;
        let steps = if round < 60 { 3 + rng.below(6) as usize } else { 6 + rng.below(22) as usize };
        let fam = match gen_family(&mut rng, nodes, steps, round % 3 == 2) { Ok(f) => f, Err(f) => return Some(f) };
        for _ in 0..10 {
            let (a, b, c) = (rng.pick(&fam), rng.pick(&fam), rng.pick(&fam));
            if let Err(f) = op_merge(a, b) { return Some(f); }
            if let Some(f) = laws(a, b, c, &mut dg, &mut bd) { return Some(f); }
        }
        if dg.len() > 20_000 { dg.clear(); bd.clear(); }
    }
    if let Some(x) = check_gset(&mut rng, 400) { return Some(x); }
    if !counts_first { if let Some(x) = check_count_eq(&mut rng, 2000) { return Some(x); } }
    None
}
