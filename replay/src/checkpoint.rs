//! Unit `checkpoint` (C14): CheckpointWriter::write -> CheckpointReader::{open, validate, load} on the real code.
//!   - round trip: every state (odd / binary keys and payloads, every replicated value kind, expiry, rf, vector clocks) comes
//!     back exactly, with the header fields (key_count, timestamp_ms, last_segment_id) that were written;
//!   - EVERY truncation length of the file is an error for open + validate + load; load alone (no validate) never panics on a
//!     truncated file and, if it succeeds, returns the written state;
//!   - EVERY single-bit flip of the file gives an error or exactly the written state (padding / reserved bytes are not
//!     interpreted) - never a panic, never different data; load alone never panics on a flipped file;
//!   - a header key_count that disagrees with the data (header checksum consistent) is rejected by load, in both
//!     directions (forged count; header of one checkpoint spliced onto the body of another).
use crate::deltas::{crc32, gen_key, gen_value, KINDS};
use crate::rng::Rng;
use crate::Found;
use redis_sim::replication::state::ReplicatedValue;
use redis_sim::streaming::checkpoint::{CheckpointReader, CheckpointWriter};
use redis_sim::streaming::segment::Compression;
use std::collections::HashMap;
use std::panic::{catch_unwind, AssertUnwindSafe};

const HEADER: usize = 48;
const FOOTER: usize = 16;

/// order-independent fingerprint of the derived Debug rendering (catches what the observer `obs` does not render)
fn debug_fp(v: &ReplicatedValue) -> u64 { let mut b: Vec<u8> = format!("{:?}", v).into_bytes(); b.sort(); crate::deltas::fnv(&b) }
type Canon = Vec<(String, String)>;
fn canon(st: &HashMap<String, ReplicatedValue>) -> Canon {
    let mut v: Vec<(String, String)> = st.iter().map(|(k, v)| (k.clone(), format!("{} #{:016x}", crate::lattice::obs(v), debug_fp(v)))).collect();
    v.sort();
    v
}
fn brief(c: &Canon) -> String {
    let s = c.iter().take(3).map(|(k, v)| format!("{:?} => {}", if k.len() > 30 { format!("{}..({} bytes)", k.chars().take(12).collect::<String>(), k.len()) } else { k.clone() }, if v.len() > 160 { format!("{}..", v.chars().take(160).collect::<String>()) } else { v.clone() })).collect::<Vec<_>>().join(", ");
    format!("{} keys {{{}{}}}", c.len(), s, if c.len() > 3 { ", .." } else { "" })
}

#[derive(Debug, PartialEq, Clone)]
struct Loaded { state: Canon, key_count: u64, timestamp_ms: u64, last_segment_id: u64 }

fn panic_text(e: Box<dyn std::any::Any + Send>) -> String { e.downcast_ref::<String>().cloned().or_else(|| e.downcast_ref::<&str>().map(|s| s.to_string())).unwrap_or_default() }

/// the consumer pipeline of CheckpointManager::load_checkpoint: open, validate, load.  Ok(Ok) | Ok(Err(stage: message)); outer Err = panic
fn read(img: &[u8], with_validate: bool) -> Result<Result<Loaded, String>, String> {
    catch_unwind(AssertUnwindSafe(|| {
        let r = CheckpointReader::open(img).map_err(|e| format!("open: {}", e))?;
        if with_validate { r.validate().map_err(|e| format!("validate: {}", e))?; }
        let d = r.load().map_err(|e| format!("load: {}", e))?;
        Ok(Loaded { state: canon(&d.state), key_count: r.key_count(), timestamp_ms: r.timestamp_ms(), last_segment_id: r.last_segment_id() })
    })).map_err(panic_text)
}

fn region(at: usize, len: usize) -> &'static str {
    if at < 4 { "header magic" } else if at == 4 { "header version" } else if at == 5 { "header flags" } else if at < 8 { "header padding" } else if at < 16 { "header key_count" }
    else if at < 24 { "header timestamp_ms" } else if at < 32 { "header last_segment_id" } else if at < 44 { "header reserved" } else if at < HEADER { "header checksum" }
    else if at < HEADER + 4 { "data length prefix" } else if at < len - FOOTER { "data" } else if at < len - 12 { "footer data checksum" } else if at < len - 4 { "footer data_size" } else { "footer checksum" }
}

/// header bytes with another key_count and a consistent header checksum
fn forge_count(img: &[u8], count: u64) -> Vec<u8> {
    let mut x = img.to_vec();
    x[8..16].copy_from_slice(&count.to_le_bytes());
    let mut inp = Vec::new(); inp.extend_from_slice(&x[0..4]); inp.extend_from_slice(&x[4..6]); inp.extend_from_slice(&x[8..16]); inp.extend_from_slice(&x[16..24]); inp.extend_from_slice(&x[24..32]);
    let ck = crc32(&inp);
    x[44..48].copy_from_slice(&ck.to_le_bytes());
    x
}

fn write(state: &HashMap<String, ReplicatedValue>, ts: u64, seg: u64) -> Result<Result<Vec<u8>, String>, String> {
    let st = state.clone();
    catch_unwind(AssertUnwindSafe(move || CheckpointWriter::new(Compression::None).write(st, ts, seg).map_err(|e| e.to_string()))).map_err(panic_text)
}

fn check(state: &HashMap<String, ReplicatedValue>, ts: u64, seg: u64, rng: &mut Rng, exhaustive: bool) -> Option<Found> {
    let want = Loaded { state: canon(state), key_count: state.len() as u64, timestamp_ms: ts, last_segment_id: seg };
    let what = format!("checkpoint of {} written with timestamp_ms={} last_segment_id={}", brief(&want.state), ts, seg);
    let img = match write(state, ts, seg) { Ok(Ok(i)) => i, other => return Some(Found { input: format!("CheckpointWriter::write of {}", brief(&want.state)), observed: format!("{:?}", other.map(|r| r.map(|b| b.len()))), required: "an encoded checkpoint".into() }) };
    // layout the reader relies on
    if img.len() < HEADER + 4 + FOOTER || &img[0..4] != b"RCHK" || u32::from_le_bytes([img[48], img[49], img[50], img[51]]) as usize != img.len() - HEADER - 4 - FOOTER {
        return Some(Found { input: what, observed: format!("{} bytes, magic {:?}, length prefix {}", img.len(), &img[0..4.min(img.len())], if img.len() >= 52 { u32::from_le_bytes([img[48], img[49], img[50], img[51]]) } else { 0 }), required: "48-byte header 'RCHK', u32 data length, data, 16-byte footer".into() });
    }
    for v in [true, false] {
        match read(&img, v) {
            Ok(Ok(got)) if got == want => {}
            other => return Some(Found { input: format!("round trip of {} ({})", what, if v { "open, validate, load" } else { "open, load" }), observed: match other { Ok(Ok(g)) => format!("loaded {} with key_count={} timestamp_ms={} last_segment_id={}", brief(&g.state), g.key_count, g.timestamp_ms, g.last_segment_id), Ok(Err(e)) => format!("Err({})", e), Err(p) => format!("panic: {}", p) }, required: "exactly the written state and header fields".into() }),
        }
    }
    let verdict = |how: String, r: Result<Result<Loaded, String>, String>, must_fail: bool, pipeline: &str| -> Option<Found> {
        match r {
            Ok(Err(_)) => None,
            Ok(Ok(got)) if got == want && !must_fail => None,
            Ok(Ok(got)) if got == want => Some(Found { input: format!("{} ({} bytes) with {}; {}", what, img.len(), how, pipeline), observed: "Ok with the written state".into(), required: "an error: the file is incomplete".into() }),
            Ok(Ok(got)) => Some(Found { input: format!("{} ({} bytes) with {}; {}", what, img.len(), how, pipeline), observed: format!("Ok: {} with key_count={} timestamp_ms={} last_segment_id={}", brief(&got.state), got.key_count, got.timestamp_ms, got.last_segment_id), required: "an error, or exactly the written state and header fields - never different data".into() }),
            Err(m) => Some(Found { input: format!("{} ({} bytes) with {}; {}", what, img.len(), how, pipeline), observed: format!("panic: {}", m), required: "an error".into() }),
        }
    };
    // ---- truncations
    let small = exhaustive || img.len() < 700;
    let cuts: Vec<usize> = if small { (0..img.len()).collect() } else { let mut c: Vec<usize> = (0..100).collect(); c.extend((img.len() - 60)..img.len()); c.extend((0..200).map(|_| rng.below(img.len() as u64) as usize)); c };
    for cut in cuts {
        if let Some(f) = verdict(format!("the file truncated to {} bytes", cut), read(&img[..cut], true), true, "open, validate, load") { return Some(f); }
        // load without validate: total, and never different data (a cut inside the footer leaves the data section whole)
        if let Some(f) = verdict(format!("the file truncated to {} bytes", cut), read(&img[..cut], false), false, "open, load (no validate)") { return Some(f); }
    }
    // ---- every single-bit flip
    let positions: Vec<usize> = if small { (0..img.len()).collect() } else { let mut p: Vec<usize> = (0..HEADER + 40).collect(); p.extend((img.len() - FOOTER - 24)..img.len()); p.extend((0..250).map(|_| rng.below(img.len() as u64) as usize)); p };
    let mut work = img.clone();
    for at in positions {
        for bit in 0..8u8 {
            work[at] ^= 1 << bit;
            let r = read(&work, true);
            // load alone must stay total on the framing bytes (header, length prefix, footer); inside the data section it is the
            // deserializer's business and validate's job to refuse the bytes first
            let r2 = if at < HEADER + 4 || at >= img.len() - FOOTER { Some(read(&work, false)) } else { None };
            work[at] ^= 1 << bit;
            if let Some(f) = verdict(format!("bit {} of byte {} ({}) flipped", bit, at, region(at, img.len())), r, false, "open, validate, load") { return Some(f); }
            if let Some(Err(p)) = r2 { return Some(Found { input: format!("{} ({} bytes) with bit {} of byte {} ({}) flipped; open, load (no validate)", what, img.len(), bit, at, region(at, img.len())), observed: format!("panic: {}", p), required: "an error or a state: load never indexes out of bounds".into() }); }
        }
    }
    // ---- whole bytes of the length prefix / footer size set to extremes
    for (at, val) in [(48usize, 0xffu8), (49, 0xff), (50, 0xff), (51, 0xff), (51, 0x7f), (48, 0), (img.len() - 12, 0xff), (img.len() - 5, 0xff)] {
        let mut x = img.clone(); if x[at] == val { continue; } x[at] = val;
        if let Some(f) = verdict(format!("byte {} ({}) set to {:#04x}", at, region(at, img.len()), val), read(&x, true), false, "open, validate, load") { return Some(f); }
        if let Err(p) = read(&x, false) { return Some(Found { input: format!("{} with byte {} ({}) set to {:#04x}; open, load (no validate)", what, at, region(at, img.len()), val), observed: format!("panic: {}", p), required: "an error".into() }); }
    }
    let mut all_ff = img.clone(); for i in 48..52 { all_ff[i] = 0xff; }
    if let Some(f) = verdict("the data length prefix set to 0xffffffff".into(), read(&all_ff, true), false, "open, validate, load") { return Some(f); }
    if let Err(p) = read(&all_ff, false) { return Some(Found { input: format!("{} with the data length prefix set to 0xffffffff; open, load (no validate)", what), observed: format!("panic: {}", p), required: "an error".into() }); }
    // ---- a key_count that disagrees with the data, header checksum consistent
    for delta in [1i128, -1, 2, 1000, -(state.len() as i128), u64::MAX as i128 - state.len() as i128] {
        let c = state.len() as i128 + delta;
        if c < 0 || c > u64::MAX as i128 || delta == 0 { continue; }
        let x = forge_count(&img, c as u64);
        for v in [true, false] {
            match read(&x, v) {
                Ok(Err(_)) => {}
                Ok(Ok(got)) => return Some(Found { input: format!("{} whose header says key_count={} (header checksum consistent); {}", what, c, if v { "open, validate, load" } else { "open, load" }), observed: format!("Ok: {} entries, key_count() = {}", got.state.len(), got.key_count), required: "an error: the header's key_count disagrees with the data".into() }),
                Err(p) => return Some(Found { input: format!("{} whose header says key_count={}", what, c), observed: format!("panic: {}", p), required: "an error".into() }),
            }
        }
    }
    // sanity of the forgery itself: the true count with a recomputed checksum must still load (otherwise the test above is vacuous)
    match read(&forge_count(&img, state.len() as u64), true) { Ok(Ok(got)) if got == want => {} other => return Some(Found { input: format!("{} with its header checksum recomputed by an independent CRC-32 over magic, version, flags, key_count, timestamp_ms, last_segment_id", what), observed: format!("{:?}", other.map(|r| r.map(|g| g.state.len()))), required: "the written state (the header checksum covers exactly these fields)".into() }) }
    None
}

fn gen_state(rng: &mut Rng, n: u64, kinds_from: u64) -> HashMap<String, ReplicatedValue> {
    let mut st = HashMap::new();
    for i in 0..n {
        let kind = if kinds_from + i < KINDS { kinds_from + i } else { let k = rng.below(KINDS); if k == 3 && !rng.chance(1, 6) { 1 } else { k } };
        let (t, r) = (1 + rng.below(500), 1 + rng.below(3));
        st.insert(gen_key(rng, i), gen_value(rng, kind, t, r));
    }
    st
}

pub fn search(_pid: &str, _oid: &str, seed: u64) -> Option<Found> {
    let mut rng = Rng::new(seed + 1401);
    // structured: the empty state, one value of every kind alone, all kinds together (kind 3 = large payload: sampled damage)
    if let Some(f) = check(&HashMap::new(), 0, 0, &mut rng, true) { return Some(f); }
    if let Some(f) = check(&HashMap::new(), u64::MAX, u64::MAX, &mut rng, true) { return Some(f); }
    for kind in 0..KINDS {
        let mut st = HashMap::new();
        st.insert(gen_key(&mut rng, kind), gen_value(&mut rng, kind, 7 + kind, 1 + kind % 3));
        if let Some(f) = check(&st, 1_700_000_000_000 + kind, kind, &mut rng, kind != 3) { return Some(f); }
    }
    let all = gen_state(&mut rng, KINDS, 0);
    if let Some(f) = check(&all, 1234, 56, &mut rng, false) { return Some(f); }
    // header of one checkpoint on the body of another (both internally consistent): key counts differ -> load must refuse
    {
        let (a, b) = (gen_state(&mut rng, 3, 100), gen_state(&mut rng, 5, 100));
        if let (Ok(Ok(ia)), Ok(Ok(ib))) = (write(&a, 10, 1), write(&b, 10, 1)) {
            let mut x = ia[..HEADER].to_vec(); x.extend_from_slice(&ib[HEADER..]);
            for v in [true, false] {
                match read(&x, v) {
                    Ok(Err(_)) => {}
                    Ok(Ok(got)) => return Some(Found { input: format!("the 48-byte header of a checkpoint of {} keys followed by the data section and footer of a checkpoint of {} keys (both written by CheckpointWriter); {}", a.len(), b.len(), if v { "open, validate, load" } else { "open, load" }), observed: format!("Ok: {} entries while key_count() = {}", got.state.len(), got.key_count), required: "an error: the header's key_count disagrees with the data".into() }),
                    Err(p) => return Some(Found { input: "header of one checkpoint on the body of another".into(), observed: format!("panic: {}", p), required: "an error".into() }),
                }
            }
        }
    }
    // seeded random states
    for it in 0..40u64 {
        let n = if it % 8 == 0 { 30 + rng.below(60) } else { rng.below(7) };
        let st = gen_state(&mut rng, n, 100);
        let (ts, seg) = (rng.next() >> rng.below(64), rng.next() >> rng.below(64));
        if let Some(f) = check(&st, ts, seg, &mut rng, false) { return Some(f); }
    }
    None
}
