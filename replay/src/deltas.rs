//! Shared generator / renderer of replicated updates (every CRDT kind, binary payloads, odd keys) for the
//! storage drivers (wal_codec, wal_rotator, segment, flush).
use crate::rng::Rng;
use redis_sim::redis::SDS;
use redis_sim::replication::lattice::{GCounter, LamportClock, PNCounter, ReplicaId, VectorClock};
use redis_sim::replication::state::{CrdtValue, ReplicatedValue, ReplicationDelta};

pub fn lc(t: u64, r: u64) -> LamportClock { LamportClock { time: t, replica_id: ReplicaId(r) } }

pub fn bytes_of(rng: &mut Rng, n: usize) -> Vec<u8> {
    let specials = [0u8, 0xff, b'\r', b'\n', 0x7f, 0x80, b'$', b'*', 1, 0xfe];
    (0..n).map(|_| if rng.chance(1, 3) { *rng.pick(&specials) } else { (rng.next() & 0xff) as u8 }).collect()
}

pub fn gen_key(rng: &mut Rng, i: u64) -> String {
    match rng.below(9) {
        0 => String::new(),
        1 => format!("k\0{}", i),
        2 => format!("ключ:{}", i),
        3 => format!("键🔑{}", i),
        4 => format!("{}:{}", "L".repeat(200 + rng.below(200) as usize), i),
        5 => format!("with space\r\n{}", i),
        _ => format!("key:{}", i),
    }
}

/// kinds: 0 LWW ascii, 1 LWW binary, 2 LWW empty, 3 LWW large, 4 tombstone, 5 hash, 6 GCounter, 7 PNCounter, 8 GSet, 9 ORSet
pub const KINDS: u64 = 10;

pub fn gen_value(rng: &mut Rng, kind: u64, t: u64, r: u64) -> ReplicatedValue {
    let ts = lc(t, r);
    let mut v = match kind {
        0 => ReplicatedValue::with_value(SDS::from_str(&format!("v{}_{}", t, r)), ts),
        1 => { let n = 1 + rng.below(40) as usize; ReplicatedValue::with_value(SDS::new(bytes_of(rng, n)), ts) }
        2 => ReplicatedValue::with_value(SDS::new(Vec::new()), ts),
        3 => { let n = 600 + rng.below(4000) as usize; ReplicatedValue::with_value(SDS::new(bytes_of(rng, n)), ts) }
        4 => { let mut v = ReplicatedValue::with_value(SDS::from_str("gone"), lc(t.saturating_sub(1), r)); let mut c = lc(t.saturating_sub(1), r); v.delete(&mut c); v }
        5 => {
            let mut v = ReplicatedValue::with_crdt(CrdtValue::new_hash(), ReplicaId(r));
            let mut c = lc(t.saturating_sub(1), r);
            let nf = 1 + rng.below(6);
            for f in 0..nf { let n = rng.below(12) as usize; v.hash_set(format!("f{}", f), SDS::new(bytes_of(rng, n)), &mut c); }
            if nf > 2 { v.hash_delete("f1", &mut c); }
            v
        }
        6 => { let mut g = GCounter::new(); g.increment_by(ReplicaId(r), t); g.increment_by(ReplicaId(r % 3 + 1), 7); let mut v = ReplicatedValue::with_crdt(CrdtValue::GCounter(g), ReplicaId(r)); v.timestamp = ts; v }
        7 => { let mut p = PNCounter::new(); p.increment_by(ReplicaId(r), t); p.decrement_by(ReplicaId(r), t / 2 + 1); let mut v = ReplicatedValue::with_crdt(CrdtValue::PNCounter(p), ReplicaId(r)); v.timestamp = ts; v }
        8 => {
            let mut c = CrdtValue::new_gset();
            if let Some(s) = c.as_gset_mut() { for e in 0..(1 + rng.below(4)) { s.add(format!("m{}\0{}", e, t)); } }
            let mut v = ReplicatedValue::with_crdt(c, ReplicaId(r)); v.timestamp = ts; v
        }
        _ => {
            let mut c = CrdtValue::new_orset();
            if let Some(s) = c.as_orset_mut() { for e in 0..(1 + rng.below(4)) { s.add(format!("o{}", e), ReplicaId(r)); } s.remove(&"o0".to_string()); s.add("é".to_string(), ReplicaId(r)); }
            let mut v = ReplicatedValue::with_crdt(c, ReplicaId(r)); v.timestamp = ts; v
        }
    };
    if rng.chance(1, 3) { v.expiry_ms = Some(1000 * (1 + rng.below(9))); }
    if rng.chance(1, 4) { v.replication_factor = Some(1 + rng.below(4) as u8); }
    if rng.chance(1, 3) { let mut vc = VectorClock::new(); for _ in 0..(1 + rng.below(3)) { vc.increment(ReplicaId(r)); } vc.increment(ReplicaId(r % 3 + 1)); v.vector_clock = Some(vc); }
    v
}

pub fn gen_delta(rng: &mut Rng, i: u64, t: u64) -> ReplicationDelta {
    let r = 1 + rng.below(3);
    let kind = if i < KINDS { i } else { rng.below(KINDS) };
    let key = gen_key(rng, i);
    ReplicationDelta::new(key, gen_value(rng, kind, t.max(1), r), ReplicaId(r))
}

/// like gen_delta with a stamp time drawn from the generator
pub fn gen_delta_auto(rng: &mut Rng, i: u64) -> ReplicationDelta { let t = 1 + rng.below(500); gen_delta(rng, i, t) }

/// canonical rendering of everything observable of an update (key, origin, full value incl. stamp/expiry/rf/clock)
pub fn show_delta(d: &ReplicationDelta) -> String {
    let v = crate::lattice::obs(&d.value);
    let k = if d.key.len() > 40 { format!("{:?}..({} bytes)", d.key.chars().take(16).collect::<String>(), d.key.len()) } else { format!("{:?}", d.key) };
    let v = if v.len() > 400 { format!("{}..({} chars, fnv {:016x})", v.chars().take(200).collect::<String>(), v.len(), fnv(v.as_bytes())) } else { v };
    format!("{{key:{}, src:{}, value:{}}}", k, d.source_replica.0, v)
}

/// exact comparison key (no truncation)
pub fn delta_id(d: &ReplicationDelta) -> String {
    format!("{:?}|{}|{}", d.key, d.source_replica.0, crate::lattice::obs(&d.value))
}

pub fn fnv(b: &[u8]) -> u64 { let mut h = 0xcbf29ce484222325u64; for x in b { h ^= *x as u64; h = h.wrapping_mul(0x100000001b3); } h }

/// independent CRC-32 (IEEE 802.3, reflected, as crc32fast computes)
pub fn crc32(data: &[u8]) -> u32 {
    let mut crc = 0xFFFF_FFFFu32;
    for &b in data {
        crc ^= b as u32;
        for _ in 0..8 { crc = if crc & 1 != 0 { (crc >> 1) ^ 0xEDB8_8320 } else { crc >> 1 }; }
    }
    !crc
}

pub fn hex(b: &[u8]) -> String {
    let s: String = b.iter().take(48).map(|x| format!("{:02x}", x)).collect();
    if b.len() > 48 { format!("{}..({} bytes)", s, b.len()) } else { s }
}
