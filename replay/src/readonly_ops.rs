//! Unit `readonly_ops` (C17, second sentence): "a command classified as read-only never changes the visible keyspace".
//! One or more sample commands are written for EVERY variant of the real `Command` enum; those the real
//! `Command::is_read_only()` classifies read-only (decided at run time, so a variant newly added to the classification is
//! exercised as well) run through the real `CommandExecutor::execute` on seeded random keyspaces holding every value type,
//! keys with a TTL, keys about to expire and keys that are past their deadline but not yet collected (lazy clock path):
//!   - no panic (the replay profile has overflow checks on: SCAN / HSCAN / ZSCAN with COUNT = usize::MAX, huge cursors, index
//!     extremes of GETRANGE / LRANGE / ZRANGE / GETBIT);
//!   - the VISIBLE keyspace - every key with its type, full value and remaining TTL, as observed through KEYS, TYPE, GET, LRANGE,
//!     SMEMBERS, HGETALL, ZRANGE WITHSCORES, PTTL, DBSIZE - and the clock are exactly what they were;
//!     checked three ways: before/after on the same executor, against an untouched twin built by the same construction
//!     (no observation before the command), and after the whole battery has run on one executor.
use crate::executor::{advance, Clock};
use crate::rng::Rng;
use crate::Found;
use redis_sim::redis::{Command, CommandExecutor, RespValue, SDS};
use redis_sim::simulator::VirtualTime;
use std::panic::{catch_unwind, AssertUnwindSafe};

fn esc(b: &[u8]) -> String {
    let mut o = String::from("\"");
    for &c in b { if (0x20..0x7f).contains(&c) && c != b'"' && c != b'\\' { o.push(c as char); } else { o.push_str(&format!("\\x{:02x}", c)); } }
    o.push('"');
    o
}
fn sds(s: &str) -> SDS { SDS::new(s.as_bytes().to_vec()) }
fn bulks(r: &RespValue) -> Vec<Vec<u8>> { if let RespValue::Array(Some(a)) = r { a.iter().map(|x| if let RespValue::BulkString(Some(v)) = x { v.clone() } else { format!("{:?}", x).into_bytes() }).collect() } else { vec![format!("{:?}", r).into_bytes()] } }
fn run(ex: &mut CommandExecutor, c: &Command) -> Result<RespValue, String> {
    catch_unwind(AssertUnwindSafe(|| ex.execute(c))).map_err(|e| e.downcast_ref::<String>().cloned().or_else(|| e.downcast_ref::<&str>().map(|s| s.to_string())).unwrap_or_default())
}

/// what a client can see: every key with type, full value and remaining TTL (binary safe, order independent)
fn snapshot(ex: &mut CommandExecutor) -> Vec<String> {
    let mut keys: Vec<Vec<u8>> = match run(ex, &Command::Keys("*".into())) { Ok(r) => bulks(&r), Err(p) => return vec![format!("KEYS * panicked: {}", p)] };
    keys.sort();
    let mut out = vec![format!("dbsize={:?}", run(ex, &Command::DbSize))];
    for kb in keys {
        let k = String::from_utf8_lossy(&kb).to_string();
        let ty = match run(ex, &Command::TypeOf(k.clone())) { Ok(RespValue::SimpleString(s)) => s.to_string(), other => format!("{:?}", other) };
        let list = |v: Vec<Vec<u8>>| format!("[{}]", v.iter().map(|e| esc(e)).collect::<Vec<_>>().join(","));
        let val = match ty.as_str() {
            "string" => match run(ex, &Command::Get(k.clone())) { Ok(RespValue::BulkString(Some(v))) => esc(&v), other => format!("{:?}", other) },
            "list" => run(ex, &Command::LRange(k.clone(), 0, -1)).map(|r| list(bulks(&r))).unwrap_or_else(|p| format!("panic {}", p)),
            "set" => run(ex, &Command::SMembers(k.clone())).map(|r| { let mut m = bulks(&r); m.sort(); list(m) }).unwrap_or_else(|p| format!("panic {}", p)),
            "hash" => run(ex, &Command::HGetAll(k.clone())).map(|r| { let a = bulks(&r); let mut p: Vec<String> = a.chunks(2).map(|c| c.iter().map(|e| esc(e)).collect::<Vec<_>>().join("=")).collect(); p.sort(); format!("{{{}}}", p.join(",")) }).unwrap_or_else(|p| format!("panic {}", p)),
            "zset" => run(ex, &Command::ZRange(k.clone(), 0, -1, true)).map(|r| list(bulks(&r))).unwrap_or_else(|p| format!("panic {}", p)),
            _ => "?".to_string(),
        };
        let pttl = match run(ex, &Command::Pttl(k.clone())) { Ok(RespValue::Integer(i)) => i.to_string(), other => format!("{:?}", other) };
        out.push(format!("{}: {} {} pttl={}", esc(&kb), ty, val, pttl));
    }
    out
}

// ---------------------------------------------------------------- keyspaces ----------------------------------------------------------------
const T0: u64 = 10_000;
/// fixed key names per type (the samples aim at them); x* = given a short TTL so that they are past their deadline at probe time
const STRS: [&str; 5] = ["s_txt", "s_num", "s_bin", "s_empty", "xs"];
const LISTS: [&str; 3] = ["l", "l1", "xl"];
const SETS: [&str; 2] = ["st", "xst"];
const HASHES: [&str; 2] = ["h", "xh"];
const ZSETS: [&str; 2] = ["z", "xz"];

/// deterministic construction from `seed`: two calls build identical executors.  Returns the executor and the probe-time clock.
fn build(seed: u64, mode: Clock) -> CommandExecutor {
    let mut rng = Rng::new(seed);
    let mut ex = CommandExecutor::new();
    ex.set_simulation_start_epoch_ms(1_700_000_000_000);
    ex.set_simulation_start_epoch(1_700_000_000);
    ex.set_time(VirtualTime::from_millis(T0));
    let bin = |rng: &mut Rng| -> SDS { let n = rng.below(12) as usize; SDS::new((0..n).map(|_| *rng.pick(&[0u8, 0xff, 0x80, b'a', b'\r', b'\n', b'*', 0xc3, 0x28, b'1'])).collect()) };
    ex.execute(&Command::set("s_txt".into(), sds(&format!("hello world {}", rng.below(1000)))));
    ex.execute(&Command::set("s_num".into(), sds(&format!("{}", rng.next() as i64 >> rng.below(60)))));
    ex.execute(&Command::set("s_bin".into(), bin(&mut rng)));
    ex.execute(&Command::set("s_empty".into(), SDS::new(vec![])));
    ex.execute(&Command::set("xs".into(), sds("expired string")));
    for k in LISTS { let n = if k == "l1" { 1 } else { 1 + rng.below(6) }; ex.execute(&Command::RPush(k.into(), (0..n).map(|i| if rng.chance(1, 4) { bin(&mut rng) } else { sds(&format!("e{}", i)) }).collect())); }
    for k in SETS { let n = 1 + rng.below(14); ex.execute(&Command::SAdd(k.into(), (0..n).map(|i| if rng.chance(1, 5) { bin(&mut rng) } else { sds(&format!("m{}", i)) }).collect())); }
    for k in HASHES { let n = 1 + rng.below(14); ex.execute(&Command::HSet(k.into(), (0..n).map(|i| (sds(&format!("f{}", i)), if rng.chance(1, 3) { sds(&format!("{}", i * 7)) } else { bin(&mut rng) })).collect())); }
    for k in ZSETS { let n = 1 + rng.below(14); ex.execute(&Command::ZAdd { key: k.into(), pairs: (0..n).map(|i| ((rng.below(9) as f64) - 4.0 + if rng.chance(1, 3) { 0.5 } else { 0.0 }, sds(&format!("m{}", i)))).collect(), nx: false, xx: false, gt: false, lt: false, ch: false }); }
    for k in ["", "with space", "ключ", "k:1", "k:2", "glob[a]*?"] { ex.execute(&Command::set(k.into(), sds("v"))); }
    // TTLs: the x* keys expire 1..400 ms after T0; some others get a long TTL, some a deadline right at / just after the probe time
    let probe = T0 + 500;
    let px = |k: &str, ms: i64| Command::PExpire { key: k.into(), milliseconds: ms, nx: false, xx: false, gt: false, lt: false };
    for k in ["xs", "xl", "xst", "xh", "xz"] { ex.execute(&px(k, 1 + rng.below(400) as i64)); }
    for k in ["s_txt", "l", "st", "h", "z", "k:1", "s_num", "l1"] { match rng.below(5) { 0 => { ex.execute(&px(k, 60_000 + rng.below(1000) as i64)); } 1 => { ex.execute(&px(k, 500)); } 2 => { ex.execute(&px(k, 501)); } _ => {} } }
    advance(&mut ex, mode, probe);
    ex
}

// ---------------------------------------------------------------- samples ----------------------------------------------------------------
const IDX: [isize; 9] = [isize::MIN, isize::MIN + 1, -100, -1, 0, 1, 5, 100, isize::MAX];

/// at least one sample for EVERY variant of `Command` (writers included: they are filtered by the real is_read_only()),
/// many for the variants that read the keyspace
fn samples() -> Vec<Command> {
    let mut v: Vec<Command> = Vec::new();
    let all_keys: Vec<&str> = STRS.iter().chain(LISTS.iter()).chain(SETS.iter()).chain(HASHES.iter()).chain(ZSETS.iter()).cloned().chain(["missing", "", "ключ", "glob[a]*?"]).collect();
    let k = |s: &str| s.to_string();
    for key in &all_keys {
        v.push(Command::Get(k(key))); v.push(Command::StrLen(k(key))); v.push(Command::TypeOf(k(key))); v.push(Command::Ttl(k(key))); v.push(Command::Pttl(k(key))); v.push(Command::ExpireTime(k(key))); v.push(Command::PExpireTime(k(key)));
        v.push(Command::Exists(vec![k(key), k(key), k("missing")]));
        for (a, b) in [(0isize, -1isize), (isize::MIN, isize::MAX), (isize::MAX, isize::MIN), (-1, -1), (2, 1), (-100, 100), (isize::MIN, 0), (0, isize::MAX), (isize::MAX, isize::MAX), (isize::MIN, isize::MIN)] {
            v.push(Command::GetRange(k(key), a, b)); v.push(Command::LRange(k(key), a, b)); v.push(Command::ZRange(k(key), a, b, false)); v.push(Command::ZRange(k(key), a, b, true)); v.push(Command::ZRevRange(k(key), a, b, false)); v.push(Command::ZRevRange(k(key), a, b, true));
        }
        for off in [0u64, 1, 7, 8, 63, 1 << 20, (1 << 32) - 1, 1 << 32, u64::MAX / 8, u64::MAX - 7, u64::MAX] { v.push(Command::GetBit(k(key), off)); }
        v.push(Command::LLen(k(key))); for i in IDX { v.push(Command::LIndex(k(key), i)); }
        v.push(Command::SMembers(k(key))); v.push(Command::SCard(k(key))); for m in ["m0", "m1", "nope", ""] { v.push(Command::SIsMember(k(key), sds(m))); }
        v.push(Command::HGetAll(k(key))); v.push(Command::HKeys(k(key))); v.push(Command::HVals(k(key))); v.push(Command::HLen(k(key)));
        for f in ["f0", "f1", "nope", ""] { v.push(Command::HGet(k(key), sds(f))); v.push(Command::HExists(k(key), sds(f))); }
        v.push(Command::ZCard(k(key))); for m in ["m0", "m3", "nope", ""] { v.push(Command::ZScore(k(key), sds(m))); v.push(Command::ZRank(k(key), sds(m))); }
        for (lo, hi) in [("-inf", "+inf"), ("0", "1"), ("(0", "(1"), ("1", "0"), ("-4", "4.5"), ("(-inf", "+inf"), ("nan", "nan"), ("", ""), ("abc", "1"), ("-1e400", "1e400"), ("(", "(")] {
            v.push(Command::ZCount(k(key), lo.into(), hi.into()));
            for lim in [None, Some((0isize, 0usize)), Some((0, 1)), Some((1, usize::MAX)), Some((-1, 5)), Some((isize::MAX, usize::MAX)), Some((isize::MIN, 1)), Some((2, 2))] { for ws in [false, true] { v.push(Command::ZRangeByScore { key: k(key), min: lo.into(), max: hi.into(), with_scores: ws, limit: lim }); } }
        }
        for cursor in [0u64, 1, 3, 1000, u64::MAX - 1, u64::MAX] { for count in [None, Some(0usize), Some(1), Some(2), Some(10), Some(usize::MAX - 1), Some(usize::MAX)] { for pat in [None, Some("*"), Some("f*"), Some("m?"), Some("[")] {
            v.push(Command::HScan { key: k(key), cursor, pattern: pat.map(|p| p.to_string()), count }); v.push(Command::ZScan { key: k(key), cursor, pattern: pat.map(|p| p.to_string()), count });
        } } }
        v.push(Command::ObjectEncoding(k(key))); v.push(Command::ObjectRefCount(k(key))); v.push(Command::ObjectIdleTime(k(key))); v.push(Command::ObjectFreq(k(key)));
        v.push(Command::DebugObject(k(key)));
    }
    for cursor in [0u64, 1, 5, 1000, u64::MAX - 1, u64::MAX] { for count in [None, Some(0usize), Some(1), Some(3), Some(10), Some(1000), Some(usize::MAX - 1), Some(usize::MAX)] { for pat in [None, Some("*"), Some("x*"), Some("s_*"), Some("?"), Some("k:[12]"), Some("glob\\[a\\]\\*\\?"), Some("["), Some("")] {
        v.push(Command::Scan { cursor, pattern: pat.map(|p| p.to_string()), count });
    } } }
    for pat in ["*", "", "x*", "*x", "s_???", "[a-z]*", "[", "[]", "[^x]*", "\\", "*\\", "k:?", "**", "*[", "h[ae]llo", "glob\\[a\\]\\*\\?", "ключ", "?"] { v.push(Command::Keys(pat.into())); }
    v.push(Command::MGet(all_keys.iter().map(|s| s.to_string()).collect())); v.push(Command::MGet(vec![])); v.push(Command::MGet(vec![k("xs"), k("xs"), k("s_txt")]));
    v.push(Command::BatchGet(all_keys.iter().map(|s| s.to_string()).collect()));
    v.push(Command::Exists(all_keys.iter().map(|s| s.to_string()).collect())); v.push(Command::Exists(vec![]));
    v.push(Command::DbSize); v.push(Command::Info); v.push(Command::Ping(None)); v.push(Command::Ping(Some(sds("p")))); v.push(Command::Echo(sds("e"))); v.push(Command::Time);
    for (a, b) in [(0i64, 0i64), (1, 100), (i64::MAX, i64::MAX), (i64::MIN, i64::MIN), (-1, -1)] { v.push(Command::Wait(a, b)); }
    for p in ["*", "maxmemory", "", "save", "[", "appendonly"] { v.push(Command::ConfigGet(p.into())); }
    v.push(Command::CommandCommand); v.push(Command::CommandCount); v.push(Command::ClientGetName); v.push(Command::ClientId); v.push(Command::ClientInfo); v.push(Command::ObjectHelp);
    v.push(Command::RandomKey); v.push(Command::RandomKey); v.push(Command::RandomKey);
    v.push(Command::AclDryrun { username: "default".into(), command: "SET".into(), args: vec!["s_txt".into(), "v".into()] }); v.push(Command::AclDryrun { username: "nobody".into(), command: "DEL".into(), args: vec!["l".into()] });
    for c in [None, Some(0usize), Some(10), Some(usize::MAX)] { v.push(Command::AclLog { count: c }); }
    // ---- one sample of every remaining variant (writers, transactions, scripts, admin): exercised only if is_read_only() says so
    let w = "s_txt";
    v.extend(vec![
        Command::set(k(w), sds("w")), Command::Append(k(w), sds("w")), Command::GetSet(k(w), sds("w")), Command::MSet(vec![(k(w), sds("w"))]), Command::MSetNx(vec![(k("fresh"), sds("w"))]), Command::BatchSet(vec![(k(w), sds("w"))]),
        Command::SetRange(k(w), 1, sds("w")), Command::SetBit(k(w), 3, 1), Command::GetEx { key: k(w), ex: None, px: Some(5), exat: None, pxat: None, persist: false }, Command::GetEx { key: k(w), ex: None, px: None, exat: None, pxat: None, persist: true }, Command::GetDel(k(w)),
        Command::Incr(k("s_num")), Command::Decr(k("s_num")), Command::IncrBy(k("s_num"), 2), Command::DecrBy(k("s_num"), 2), Command::IncrByFloat(k("s_num"), 0.5),
        Command::Del(vec![k(w)]), Command::FlushDb, Command::FlushAll, Command::expire(k(w), 5), Command::ExpireAt(k(w), 1_700_000_100), Command::PExpire { key: k(w), milliseconds: 5, nx: false, xx: false, gt: false, lt: false }, Command::PExpireAt(k(w), 1_700_000_100_000), Command::Persist(k("l")),
        Command::Sort { key: k("l"), store: None }, Command::Sort { key: k("l"), store: Some(k("sorted")) },
        Command::LPush(k("l"), vec![sds("w")]), Command::RPush(k("l"), vec![sds("w")]), Command::LPop(k("l")), Command::RPop(k("l")), Command::LSet(k("l"), 0, sds("w")), Command::LTrim(k("l"), 0, 0), Command::RPopLPush(k("l"), k("l1")), Command::LMove { source: k("l"), dest: k("l1"), wherefrom: "LEFT".into(), whereto: "RIGHT".into() },
        Command::SAdd(k("st"), vec![sds("w")]), Command::SRem(k("st"), vec![sds("m0")]), Command::SPop(k("st"), None), Command::SPop(k("st"), Some(2)),
        Command::HSet(k("h"), vec![(sds("w"), sds("w"))]), Command::HDel(k("h"), vec![sds("f0")]), Command::HIncrBy(k("h"), sds("n"), 1),
        Command::ZAdd { key: k("z"), pairs: vec![(1.0, sds("w"))], nx: false, xx: false, gt: false, lt: false, ch: false }, Command::ZRem(k("z"), vec![sds("m0")]),
        Command::Multi, Command::Exec, Command::Discard, Command::Watch(vec![k(w)]), Command::Unwatch,
        Command::Eval { script: "return 1".into(), keys: vec![], args: vec![] }, Command::EvalSha { sha1: "0".repeat(40), keys: vec![], args: vec![] }, Command::ScriptLoad("return 1".into()), Command::ScriptExists(vec!["0".repeat(40)]), Command::ScriptFlush,
        Command::SetNx(k("fresh2"), sds("w")), Command::Auth { username: None, password: "p".into() }, Command::AclWhoami, Command::AclList, Command::AclUsers, Command::AclGetUser { username: "default".into() }, Command::AclSetUser { username: "u".into(), rules: vec!["on".into()] }, Command::AclDelUser { usernames: vec!["u".into()] },
        Command::AclCat { category: None }, Command::AclGenPass { bits: Some(64) }, Command::AclLogReset, Command::ConfigSet("maxmemory".into(), "1".into()), Command::ConfigResetStat, Command::Select(0), Command::FunctionFlush, Command::ClientSetName("n".into()),
        Command::DebugSleep(0.0), Command::DebugSet("a".into(), "b".into()), Command::Rename(k(w), k("renamed")), Command::RenameNx(k("l"), k("renamed2")), Command::Unknown("NOPE".into()),
    ]);
    v
}

fn show_cmd(c: &Command) -> String {
    let s = format!("{:?}", c);
    if s.len() > 300 { format!("{}..", s.chars().take(300).collect::<String>()) } else { s }
}
fn diff(before: &[String], after: &[String]) -> String {
    let mut d: Vec<String> = after.iter().filter(|l| !before.contains(l)).map(|l| format!("now {}", l)).collect();
    d.extend(before.iter().filter(|l| !after.contains(l)).map(|l| format!("was {}", l)));
    let s = d.join(" | ");
    if s.len() > 1200 { format!("{}..", s.chars().take(1200).collect::<String>()) } else { s }
}
fn describe(seed: u64, mode: Clock, snap: &[String]) -> String {
    let s = snap.join("; ");
    format!("keyspace #{} built at clock {}, probed at clock {} through {} (keys xs xl xst xh xz are past their deadline{}): {}", seed, T0, T0 + 500,
        if mode == Clock::Lazy { "update_time_readonly" } else { "set_time" }, if mode == Clock::Lazy { " but not collected" } else { "" }, if s.len() > 900 { format!("{}..", s.chars().take(900).collect::<String>()) } else { s })
}

const REQ: &str = "a command for which Command::is_read_only() is true leaves every visible key, type, value and remaining TTL (and the clock) exactly as they were, and replies without panicking";

fn check_keyspace(kseed: u64, mode: Clock, ro: &[&Command], isolated: bool) -> Option<Found> {
    let mut twin = build(kseed, mode);
    let want = snapshot(&mut twin);
    let mut a = build(kseed, mode);
    for c in ro {
        // (1) same executor, before / after
        let before = snapshot(&mut a);
        let clock = a.get_current_time();
        match run(&mut a, c) { Err(p) => return Some(Found { input: format!("{}; command {}", describe(kseed, mode, &want), show_cmd(c)), observed: format!("panic: {}", p), required: REQ.into() }), Ok(_) => {} }
        let after = snapshot(&mut a);
        if after != before || a.get_current_time() != clock {
            return Some(Found { input: format!("{}; command {}", describe(kseed, mode, &want), show_cmd(c)), observed: format!("is_read_only() = true, but afterwards: {}{}", diff(&before, &after), if a.get_current_time() != clock { format!(" | clock {:?} -> {:?}", clock, a.get_current_time()) } else { String::new() }), required: REQ.into() });
        }
        // (2) a fresh twin that nobody has looked at: only this command runs, then it must look like the untouched one
        if isolated {
            let mut f = build(kseed, mode);
            if let Err(p) = run(&mut f, c) { return Some(Found { input: format!("{}; command {} as the first command after the clock moved", describe(kseed, mode, &want), show_cmd(c)), observed: format!("panic: {}", p), required: REQ.into() }); }
            let got = snapshot(&mut f);
            if got != want { return Some(Found { input: format!("{}; command {} as the first command after the clock moved", describe(kseed, mode, &want), show_cmd(c)), observed: format!("is_read_only() = true, but compared with an untouched twin: {}", diff(&want, &got)), required: REQ.into() }); }
        }
    }
    // (3) accumulated effect of the whole battery
    let end = snapshot(&mut a);
    if end != want { return Some(Found { input: format!("{}; all {} read-only sample commands in sequence", describe(kseed, mode, &want), ro.len()), observed: format!("compared with an untouched twin: {}", diff(&want, &end)), required: REQ.into() }); }
    None
}

pub fn search(_pid: &str, oid: &str, seed: u64) -> Option<Found> {
    let all = samples();
    // the classification is taken from the real code at run time
    let mut ro: Vec<&Command> = all.iter().filter(|c| catch_unwind(|| c.is_read_only()).unwrap_or(false)).collect();
    // the commands of the refuted handler first ("readonly_ops/CommandExecutor::execute_hscan/..." -> HSCAN)
    let hint = oid.split("execute_").nth(1).map(|r| r.split('/').next().unwrap_or("").to_uppercase()).unwrap_or_default();
    if !hint.is_empty() { ro.sort_by_key(|c| !(c.name() == hint || (hint == "TYPEOF" && c.name() == "TYPE") || (hint == "BATCH_GET" && c.name() == "BATCHGET"))); }
    // the recorded witness: SCAN 0 COUNT usize::MAX on three plain keys
    {
        let mut ex = CommandExecutor::new();
        for k in ["a", "b", "c"] { ex.execute(&Command::set(k.to_string(), sds("1"))); }
        for c in [Command::Scan { cursor: 0, pattern: None, count: Some(usize::MAX) }, Command::Scan { cursor: u64::MAX, pattern: None, count: Some(usize::MAX) }] {
            if !c.is_read_only() { continue; }
            if let Err(p) = run(&mut ex, &c) { return Some(Found { input: format!("SET a 1 ; SET b 1 ; SET c 1 ; {:?}", c), observed: format!("panic: {}", p), required: REQ.into() }); }
        }
    }
    // structured: two fixed keyspaces, both clock paths, every sample in isolation on a fresh twin as well
    for kseed in [1u64, 2] { for mode in [Clock::Lazy, Clock::Active] { if let Some(f) = check_keyspace(kseed, mode, &ro, true) { return Some(f); } } }
    // seeded random keyspaces; a random third of the samples also in isolation
    let mut rng = Rng::new(seed + 1701);
    for _ in 0..6u64 {
        let kseed = 100 + rng.below(1_000_000);
        let mode = if rng.chance(2, 3) { Clock::Lazy } else { Clock::Active };
        if let Some(f) = check_keyspace(kseed, mode, &ro, false) { return Some(f); }
        let third: Vec<&Command> = ro.iter().filter(|_| rng.chance(1, 3)).cloned().collect();
        if let Some(f) = check_keyspace(kseed, mode, &third, true) { return Some(f); }
    }
    None
}
