//! Unit `sync_keys` (C18): a digest-driven sync leaves both sides merged, in finitely many rounds under the per-round key limit.
//! Two AntiEntropyManagers hold more than max_keys_per_sync shared keys plus a few divergent ones (newer write on one side,
//! key only on one side, tombstone); the exchange runs as MultiNodeSimulation::run_anti_entropy_sync does (digests ->
//! divergent buckets -> get_keys_in_buckets both ways -> merge) and through the message protocol (process_peer_digest ->
//! create_sync_request -> handle_sync_request -> apply response).  Required: within a bounded number of rounds the digests are
//! equal and every key holds merge(A0[k], B0[k]) on both sides.
use crate::lattice::obs;
use crate::rng::Rng;
use crate::Found;
use redis_sim::redis::SDS;
use redis_sim::replication::anti_entropy::{AntiEntropyConfig, AntiEntropyManager, KeyDigest};
use redis_sim::replication::lattice::{LamportClock, ReplicaId};
use redis_sim::replication::state::{ReplicatedValue, ReplicationDelta};
use std::collections::HashMap;

type State = HashMap<String, ReplicatedValue>;

fn val(key: &str, t: u64, r: u64) -> ReplicatedValue { ReplicatedValue::with_value(SDS::from_str(&format!("{}@{}_{}", key, t, r)), LamportClock { time: t, replica_id: ReplicaId(r) }) }

fn apply(state: &mut State, deltas: Vec<ReplicationDelta>) {
    for d in deltas {
        let merged = match state.get(&d.key) { Some(old) => old.merge(&d.value), None => d.value.clone() };
        state.insert(d.key, merged);
    }
}

struct Scenario { shared: usize, limit: usize, depth: usize, divergent: usize, protocol: bool }
fn show_sc(s: &Scenario) -> String { format!("{} shared keys, max_keys_per_sync={}, merkle_tree_depth={}, {} divergent keys (a newer write on A / on B, a key only on A / only on B, a delete on A, in turn), exchange via {}", s.shared, s.limit, s.depth, s.divergent, if s.protocol { "process_peer_digest/create_sync_request/handle_sync_request" } else { "get_keys_in_buckets both ways (run_anti_entropy_sync)" }) }

fn run(sc: &Scenario, rng: &mut Rng, max_rounds: usize) -> Option<Found> {
    let cfg = AntiEntropyConfig { sync_interval_ms: 1000, max_keys_per_sync: sc.limit, merkle_tree_depth: sc.depth, auto_sync_on_heal: true };
    let mut ma = AntiEntropyManager::new(ReplicaId(1), cfg.clone());
    let mut mb = AntiEntropyManager::new(ReplicaId(2), cfg.clone());
    let (mut a, mut b): (State, State) = (HashMap::new(), HashMap::new());
    for i in 0..sc.shared { let k = format!("key:{}", i); let v = val(&k, 1 + (i as u64 % 7), 1 + (i as u64 % 2)); a.insert(k.clone(), v.clone()); b.insert(k, v); }
    let mut div_keys: Vec<String> = Vec::new();
    for j in 0..sc.divergent {
        match j % 5 {
            0 => { let k = format!("key:{}", rng.below(sc.shared as u64)); a.insert(k.clone(), val(&k, 100 + j as u64, 1)); div_keys.push(k); }
            1 => { let k = format!("key:{}", rng.below(sc.shared as u64)); b.insert(k.clone(), val(&k, 100 + j as u64, 2)); div_keys.push(k); }
            2 => { let k = format!("onlyA:{}", j); a.insert(k.clone(), val(&k, 50, 1)); div_keys.push(k); }
            3 => { let k = format!("onlyB:{}", j); b.insert(k.clone(), val(&k, 50, 2)); div_keys.push(k); }
            _ => { let k = format!("key:{}", rng.below(sc.shared as u64)); if let Some(v) = a.get_mut(&k) { let mut c = LamportClock { time: 200 + j as u64, replica_id: ReplicaId(1) }; v.delete(&mut c); } div_keys.push(k); }
        }
    }
    // what both sides must hold in the end
    let mut want: HashMap<String, String> = HashMap::new();
    for k in a.keys().chain(b.keys()) { let m = match (a.get(k), b.get(k)) { (Some(x), Some(y)) => x.merge(y), (Some(x), None) => x.clone(), (None, Some(y)) => y.clone(), _ => continue }; want.insert(k.clone(), obs(&m)); }
    let divergent_buckets: Vec<usize> = { let mut v: Vec<usize> = div_keys.iter().filter_map(|k| a.get(k).or(b.get(k)).map(|x| KeyDigest::new(k, x).bucket(sc.depth))).collect(); v.sort(); v.dedup(); v };
    let mut rounds = 0;
    let mut sent: Vec<(usize, usize)> = Vec::new();
    while rounds < max_rounds {
        let (da, db) = (ma.generate_digest(&a), mb.generate_digest(&b));
        if !da.differs_from(&db) { break; }
        rounds += 1;
        if sc.protocol {
            // B learns A's digest, asks A for the divergent buckets; then the other direction
            let (mut na, mut nb) = (0, 0);
            if let Some(buckets) = mb.process_peer_digest(da.clone(), &db) {
                let req = mb.create_sync_request(ReplicaId(1), db.clone(), Some(buckets), 1000 * rounds as u64);
                let resp = ma.handle_sync_request(req, &a);
                na = resp.deltas.len();
                apply(&mut b, resp.deltas);
            }
            let (da2, db2) = (ma.generate_digest(&a), mb.generate_digest(&b));
            if let Some(buckets) = ma.process_peer_digest(db2.clone(), &da2) {
                let req = ma.create_sync_request(ReplicaId(2), da2, Some(buckets), 1000 * rounds as u64);
                let resp = mb.handle_sync_request(req, &b);
                nb = resp.deltas.len();
                apply(&mut a, resp.deltas);
            }
            sent.push((na, nb));
        } else {
            let div = da.divergent_buckets(&db);
            let deltas_a = ma.get_keys_in_buckets(&a, &div);
            let deltas_b = mb.get_keys_in_buckets(&b, &div);
            sent.push((deltas_a.len(), deltas_b.len()));
            if deltas_a.len() > sc.limit || deltas_b.len() > sc.limit {
                return Some(Found { input: show_sc(sc), observed: format!("round {} sends {} / {} keys", rounds, deltas_a.len(), deltas_b.len()), required: format!("at most max_keys_per_sync = {} keys per round and direction", sc.limit) });
            }
            apply(&mut b, deltas_a);
            apply(&mut a, deltas_b);
        }
    }
    let (da, db) = (ma.generate_digest(&a), mb.generate_digest(&b));
    let wrong_a = want.iter().find(|(k, w)| a.get(*k).map(obs).as_ref() != Some(*w)).map(|(k, _)| k.clone());
    let wrong_b = want.iter().find(|(k, w)| b.get(*k).map(obs).as_ref() != Some(*w)).map(|(k, _)| k.clone());
    if da.differs_from(&db) || wrong_a.is_some() || wrong_b.is_some() {
        let k = wrong_a.clone().or(wrong_b.clone()).unwrap_or_default();
        return Some(Found {
            input: format!("{}; divergent keys {:?} (buckets {:?})", show_sc(sc), div_keys, divergent_buckets),
            observed: format!("after {} rounds (keys sent per round A->B/B->A, first rounds: {:?}) digests still differ: {}; divergent buckets now {:?}; key {:?}: A holds {:?}, B holds {:?}", rounds, &sent[..sent.len().min(4)], da.differs_from(&db), da.divergent_buckets(&db), k, a.get(&k).map(obs), b.get(&k).map(obs)),
            required: format!("equal digests and both sides holding the merge of their prior states within {} rounds (key {:?} = {:?}): the per-round limit caps the keys SENT, every key of a divergent bucket is offered when they fit", max_rounds, k, want.get(&k)),
        });
    }
    None
}

pub fn search(_pid: &str, oid: &str, seed: u64) -> Option<Found> {
    let mut rng = Rng::new(seed + 180);
    // structured: far more shared keys than the limit, few divergent keys whose buckets fit in one round
    for protocol in [false, true] {
        for (shared, limit, depth, divergent) in [(2000usize, 50usize, 8usize, 3usize), (5000, 1000, 8, 5), (300, 10, 6, 1), (1000, 40, 8, 2), (600, 64, 4, 1), (3000, 100, 10, 10)] {
            let sc = Scenario { shared, limit, depth, divergent, protocol };
            if let Some(f) = run(&sc, &mut rng, 6) { return Some(f); }
        }
    }
    for _ in 0..40 {
        let depth = 6 + rng.below(5) as usize;
        let shared = 200 + rng.below(3000) as usize;
        let divergent = 1 + rng.below(4) as usize;
        // the keys of the divergent buckets must fit into one round: expected bucket population x divergent buckets, with slack
        let per_bucket = shared / (1usize << depth) + 1;
        let limit = (per_bucket * divergent * 4 + 16).min(shared / 2);
        let sc = Scenario { shared, limit, depth, divergent, protocol: rng.chance(1, 2) };
        if let Some(f) = run(&sc, &mut rng, 6) { return Some(f); }
    }
    // on request only: divergent buckets holding MORE keys than the limit (one bucket, depth 0): the same first `limit` keys of the map's
    // iteration order are offered every round, a divergent key behind them is never sent (see report; not part of the unit's contract)
    if oid.contains("overfull") || std::env::var("VERIF_SYNC_OVERFULL").map(|v| v == "1").unwrap_or(false) {
        for protocol in [false, true] {
            let sc = Scenario { shared: 2000, limit: 50, depth: 0, divergent: 2, protocol };
            if let Some(f) = run(&sc, &mut rng, 60) { return Some(f); }
        }
    }
    None
}
