//! Unit `wal_codec` (C10, C14): WAL entry codec round trip, damage is detected (never decoded into different data),
//! WalReader yields exactly the intact entries in order, recover_entries_after filters by stamp >= t,
//! a damaged file never hides other files, truncate_before never removes the active file nor a newer entry.
use crate::deltas::{crc32, delta_id, gen_delta_auto, hex, show_delta};
use crate::rng::Rng;
use crate::Found;
use redis_sim::replication::state::ReplicationDelta;
use redis_sim::streaming::wal_store::{InMemoryWalStore, WalError, WalFileReader, WalStore};
use redis_sim::streaming::{WalEntry, WalReader, WalRotator};
use std::panic::{catch_unwind, AssertUnwindSafe};

struct VecReader(Vec<u8>);
impl WalFileReader for VecReader { fn read_all(&mut self) -> Result<Vec<u8>, WalError> { Ok(self.0.clone()) } }

fn header(seq: u64) -> Vec<u8> {
    let mut h = vec![0u8; 16];
    h[0..4].copy_from_slice(b"RWAL"); h[4] = 1; h[8..16].copy_from_slice(&seq.to_le_bytes());
    h
}

fn show_entry(e: &WalEntry) -> String { format!("{{stamp:{}, crc:{:08x}, data:{}}}", e.timestamp, e.checksum, hex(&e.data)) }
fn same_entry(a: &WalEntry, b: &WalEntry) -> bool { a.data == b.data && a.timestamp == b.timestamp && a.checksum == b.checksum }

fn decode(b: &[u8]) -> Result<Option<(WalEntry, usize)>, String> {
    catch_unwind(|| WalEntry::decode(b)).map_err(|e| e.downcast_ref::<String>().cloned().or_else(|| e.downcast_ref::<&str>().map(|s| s.to_string())).unwrap_or_default())
}

fn make_entries(rng: &mut Rng, n: u64, small: bool) -> Vec<(ReplicationDelta, WalEntry)> {
    let mut out = Vec::new();
    for i in 0..n {
        let stamp = match rng.below(6) { 0 => 0, 1 => u64::MAX, 2 => u64::MAX - 1, _ => 1 + rng.below(1000) };
        let mut d = gen_delta_auto(rng, if small { 10 + i } else { i });
        if small { while WalEntry::from_delta(&d, 0).map(|e| e.data.len()).unwrap_or(0) > 300 { d = gen_delta_auto(rng, 10 + i); } }
        if let Ok(e) = WalEntry::from_delta(&d, stamp) { out.push((d, e)); }
    }
    out
}

fn check_roundtrip(rng: &mut Rng, iters: u64) -> Option<Found> {
    for i in 0..iters {
        let d = gen_delta_auto(rng, i);
        let stamp = match i % 7 { 0 => 0, 1 => u64::MAX, _ => rng.next() >> rng.below(64) };
        let e = match WalEntry::from_delta(&d, stamp) {
            Ok(e) => e,
            Err(x) => return Some(Found { input: format!("WalEntry::from_delta({}, {})", show_delta(&d), stamp), observed: format!("Err({})", x), required: "an entry (every replicated value is serialisable)".into() }),
        };
        let enc = e.encode();
        let want_crc = crc32(&e.data);
        let mut want = Vec::new();
        want.extend_from_slice(&(e.data.len() as u32).to_le_bytes()); want.extend_from_slice(&stamp.to_le_bytes()); want.extend_from_slice(&want_crc.to_le_bytes()); want.extend_from_slice(&e.data);
        if e.timestamp != stamp || e.checksum != want_crc || !e.validate() || enc != want || e.disk_size() != enc.len() {
            return Some(Found { input: format!("from_delta({}, {}).encode()", show_delta(&d), stamp), observed: format!("entry {} validate={} disk_size={} encoded {}", show_entry(&e), e.validate(), e.disk_size(), hex(&enc)), required: format!("len|stamp|crc32(data)|data = {} ({} bytes), crc {:08x}", hex(&want), want.len(), want_crc) });
        }
        for junk in [&b""[..], &b"\0"[..], &b"\xff\xff\xff\xff\xff\xff\xff\xff\xff\xff\xff\xff\xff\xff\xff\xff\xff"[..]] {
            let mut img = enc.clone(); img.extend_from_slice(junk);
            match decode(&img) {
                Ok(Some((e2, n))) if n == enc.len() && same_entry(&e, &e2) => {
                    match e2.to_delta() {
                        Ok(d2) if delta_id(&d2) == delta_id(&d) => {}
                        Ok(d2) => return Some(Found { input: format!("update {} stamped {} through from_delta/encode/decode/to_delta", show_delta(&d), stamp), observed: show_delta(&d2), required: "the update that was written".into() }),
                        Err(x) => return Some(Found { input: format!("update {} through from_delta/encode/decode/to_delta", show_delta(&d)), observed: format!("to_delta Err({})", x), required: "the update that was written".into() }),
                    }
                }
                other => return Some(Found { input: format!("decode(encode({}) ++ {} junk bytes)", show_entry(&e), junk.len()), observed: format!("{:?}", other.map(|o| o.map(|(e, n)| (show_entry(&e), n)))), required: format!("the entry and consumed == {}", enc.len()) }),
            }
        }
    }
    None
}

/// what a damaged image may decode to: nothing, or exactly what was written (the stamp field is outside the CRC: a
/// damaged stamp field decodes to the same payload with the stamp the bytes now spell, as the contract of decode says)
fn damage_ok(orig: &WalEntry, orig_len: usize, img: &[u8], got: &Option<(WalEntry, usize)>) -> bool {
    match got {
        None => true,
        Some((e, n)) => {
            let stamp_now = if img.len() >= 12 { u64::from_le_bytes([img[4], img[5], img[6], img[7], img[8], img[9], img[10], img[11]]) } else { 0 };
            e.data == orig.data && *n == orig_len && e.checksum == orig.checksum && e.timestamp == stamp_now
        }
    }
}

fn check_damage(rng: &mut Rng, iters: u64) -> Option<Found> {
    let entries = make_entries(rng, iters, false);
    for (idx, (_, e)) in entries.iter().enumerate() {
        let enc = e.encode();
        // every truncation
        let cuts: Vec<usize> = if enc.len() <= 400 { (0..enc.len()).collect() } else { let mut c: Vec<usize> = (0..40).collect(); c.extend((0..60).map(|_| rng.below(enc.len() as u64) as usize)); c.push(enc.len() - 1); c };
        for cut in cuts {
            match decode(&enc[..cut]) {
                Ok(None) => {}
                Ok(Some((g, n))) => return Some(Found { input: format!("entry {} ({} bytes) truncated to {} bytes", show_entry(e), enc.len(), cut), observed: format!("decoded {} consuming {}", show_entry(&g), n), required: "None (torn entry)".into() }),
                Err(m) => return Some(Found { input: format!("entry {} truncated to {} bytes", show_entry(e), cut), observed: format!("panic: {}", m), required: "None (torn entry)".into() }),
            }
        }
        // every single-bit flip (sampled for big entries), with and without bytes following the entry
        let tail = crate::deltas::bytes_of(rng, 70000);
        let nbits = enc.len() * 8;
        let bits: Vec<usize> = if enc.len() <= 200 || idx < 3 { (0..nbits).collect() } else { let mut b: Vec<usize> = (0..128).collect(); b.extend((0..300).map(|_| rng.below(nbits as u64) as usize)); b };
        let mut img_plain = enc.clone();
        let mut img_tail = enc.clone(); img_tail.extend_from_slice(&tail);
        for bit in bits {
            for with_tail in [false, true] {
                let img: &mut Vec<u8> = if with_tail { &mut img_tail } else { &mut img_plain };
                img[bit / 8] ^= 1 << (bit % 8);
                let res = decode(img);
                let img_now = img[..16].to_vec();
                img[bit / 8] ^= 1 << (bit % 8);
                let img = img_now;
                let field = match bit / 8 { 0..=3 => "length", 4..=11 => "stamp", 12..=15 => "checksum", _ => "payload" };
                match res {
                    Ok(got) => {
                        if !damage_ok(e, enc.len(), &img, &got) || (field != "stamp" && got.is_some()) {
                            let (g, n) = got.unwrap();
                            return Some(Found { input: format!("entry {} ({} bytes{}) with bit {} flipped (byte {} of the {} field)", show_entry(e), enc.len(), if with_tail { ", followed by other bytes" } else { "" }, bit, bit / 8, field), observed: format!("decoded {} consuming {}", show_entry(&g), n), required: "None: a damaged entry is never decoded into different data".into() });
                        }
                    }
                    Err(m) => return Some(Found { input: format!("entry {} with bit {} flipped ({} field)", show_entry(e), bit, field), observed: format!("panic: {}", m), required: "None".into() }),
                }
            }
        }
        // short bursts (<= 4 contiguous bytes overwritten) inside checksum+payload: always caught by CRC-32
        for _ in 0..60 {
            let mut img = enc.clone();
            let l = 1 + rng.below(4) as usize;
            if enc.len() < 16 + l { continue; }
            let at = 16 + rng.below((enc.len() - 16 - l + 1) as u64) as usize;
            let mut changed = false;
            for j in 0..l { let nb = (rng.next() & 0xff) as u8; if img[at + j] != nb { changed = true; } img[at + j] = nb; }
            if !changed { continue; }
            match decode(&img) {
                Ok(None) => {}
                Ok(Some((g, n))) => return Some(Found { input: format!("entry {} with payload bytes {}..{} overwritten", show_entry(e), at, at + l), observed: format!("decoded {} consuming {}", show_entry(&g), n), required: "None: corrupted payload is never decoded".into() }),
                Err(m) => return Some(Found { input: format!("entry {} with payload bytes {}..{} overwritten", show_entry(e), at, at + l), observed: format!("panic: {}", m), required: "None".into() }),
            }
        }
    }
    // adversarial length fields
    for len in [0xffff_ffffu32, 0xffff_fff0, 0x8000_0000, 0x7fff_ffff, 17, 1] {
        let mut img = Vec::new(); img.extend_from_slice(&len.to_le_bytes()); img.extend_from_slice(&[0u8; 12]); img.extend_from_slice(&[7u8; 8]);
        match decode(&img) { Ok(None) => {} other => return Some(Found { input: format!("entry header claiming {} payload bytes followed by 8", len), observed: format!("{:?}", other.map(|o| o.map(|(e, n)| (show_entry(&e), n)))), required: "None".into() }) }
    }
    None
}

fn read_image(img: &[u8]) -> Result<Result<(u64, Vec<WalEntry>), String>, String> {
    let img = img.to_vec();
    catch_unwind(move || match WalReader::open(VecReader(img)) { Ok(r) => Ok((r.sequence(), r.entries())), Err(e) => Err(e.to_string()) })
        .map_err(|e| e.downcast_ref::<String>().cloned().or_else(|| e.downcast_ref::<&str>().map(|s| s.to_string())).unwrap_or_default())
}

fn check_reader(rng: &mut Rng, iters: u64) -> Option<Found> {
    // damaged headers
    let good = header(5);
    for cut in 0..16 { match read_image(&good[..cut]) { Ok(Err(_)) => {} other => return Some(Found { input: format!("WAL file image of {} bytes (torn header)", cut), observed: format!("{:?}", other.map(|r| r.map(|(s, e)| (s, e.len())))), required: "open() returns Err".into() }) } }
    for (at, val, what) in [(0usize, b'X', "magic"), (3, b'l', "magic"), (4, 2u8, "version"), (4, 0u8, "version")] {
        let mut h = good.clone(); h[at] = val;
        match read_image(&h) { Ok(Err(_)) => {} other => return Some(Found { input: format!("WAL header with bad {} byte {}", what, at), observed: format!("{:?}", other.map(|r| r.map(|(s, e)| (s, e.len())))), required: "open() returns Err".into() }) }
    }
    for it in 0..iters {
        let seq = if it % 5 == 0 { u64::MAX } else { rng.below(1 << 40) };
        let k = rng.below(7);
        let ents = make_entries(rng, k + 1, it % 3 != 0);
        let (intact, extra) = ents.split_at(ents.len() - 1);
        let extra_enc = extra[0].1.encode();
        let mut img = header(seq);
        for (_, e) in intact { img.extend_from_slice(&e.encode()); }
        let body_len = img.len();
        let tail_kind = rng.below(9);
        let what;
        match tail_kind {
            0 => { what = "nothing".to_string(); }
            1 => { let c = 1 + rng.below(15) as usize; img.extend_from_slice(&extra_enc[..c.min(extra_enc.len() - 1)]); what = format!("a torn entry header ({} bytes)", c); }
            2 => { let c = 16 + rng.below((extra_enc.len() - 16) as u64) as usize; img.extend_from_slice(&extra_enc[..c]); what = format!("a torn payload ({} of {} bytes)", c, extra_enc.len()); }
            3 => { let mut x = extra_enc.clone(); let b = 16 * 8 + rng.below(((x.len() - 16) * 8) as u64) as usize; x[b / 8] ^= 1 << (b % 8); img.extend_from_slice(&x); if let Some((_, e)) = intact.first() { img.extend_from_slice(&e.encode()); } what = format!("an entry with payload bit {} flipped, followed by a further intact entry", b); }
            4 => { let mut x = extra_enc.clone(); let b = 12 * 8 + rng.below(32) as usize; x[b / 8] ^= 1 << (b % 8); img.extend_from_slice(&x); what = "an entry with a checksum bit flipped".to_string(); }
            5 => { let n = 1 + rng.below(15) as usize; img.extend_from_slice(&vec![0u8; n]); what = format!("{} zero bytes", n); }
            6 => { let n = 1 + rng.below(64) as usize; let mut j = crate::deltas::bytes_of(rng, n); if j.len() >= 4 { j[3] |= 0x40; } img.extend_from_slice(&j); what = format!("{} junk bytes", n); }
            7 => { let mut x = extra_enc.clone(); let b = rng.below(32) as usize; x[b / 8] ^= 1 << (b % 8); img.extend_from_slice(&x); what = format!("an entry with length bit {} flipped", b); }
            _ => { img.extend_from_slice(&extra_enc[..extra_enc.len() - 1]); what = "an entry missing its last byte".to_string(); }
        }
        let _ = body_len;
        match read_image(&img) {
            Ok(Ok((s, got))) => {
                let ok = s == seq && got.len() == intact.len() && got.iter().zip(intact.iter()).all(|(g, (_, e))| same_entry(g, e));
                if !ok {
                    return Some(Found { input: format!("file image: header(seq {}) ++ {} intact entries [{}] ++ {}", seq, intact.len(), intact.iter().map(|(_, e)| show_entry(e)).collect::<Vec<_>>().join(", "), what), observed: format!("sequence {} and {} entries [{}]", s, got.len(), got.iter().map(show_entry).collect::<Vec<_>>().join(", ")), required: "exactly the intact entries, bit-identical, in append order; recovery of the file ends at the damage".into() });
                }
                // every entry handed back re-materialises the update that was written
                for (g, (d, _)) in got.iter().zip(intact.iter()) {
                    match g.to_delta() { Ok(d2) if delta_id(&d2) == delta_id(d) => {} other => return Some(Found { input: format!("update {} read back from a file image", show_delta(d)), observed: format!("{:?}", other.map(|d| show_delta(&d)).map_err(|e| e.to_string())), required: "the update that was written".into() }) }
                }
            }
            Ok(Err(e)) => return Some(Found { input: format!("file image: valid header(seq {}) ++ {} intact entries ++ {}", seq, intact.len(), what), observed: format!("open() Err({})", e), required: "the intact entries".into() }),
            Err(m) => return Some(Found { input: format!("file image: header(seq {}) ++ {} intact entries ++ {}", seq, intact.len(), what), observed: format!("panic: {}", m), required: "the intact entries, never a panic".into() }),
        }
    }
    None
}

fn ids(es: &[WalEntry]) -> Vec<String> { es.iter().map(|e| format!("{}:{:016x}", e.timestamp, crate::deltas::fnv(&e.data))).collect() }

fn check_rotator(rng: &mut Rng, iters: u64) -> Option<Found> {
    for it in 0..iters {
        let store = InMemoryWalStore::new();
        let max = [64usize, 200, 500, 2000, 1 << 20][rng.below(5) as usize];
        let mut rot = match WalRotator::new(store.clone(), max) { Ok(r) => r, Err(_) => continue };
        let n = 2 + rng.below(14);
        let mut ents = make_entries(rng, n, true);
        // stamp layouts: monotone, reversed, interleaved clocks of several shards, duplicates
        let layout = it % 4;
        for (i, (_, e)) in ents.iter_mut().enumerate() {
            e.timestamp = match layout { 0 => 10 * (i as u64 + 1), 1 => 10 * (n - i as u64), 2 => if i % 2 == 0 { 1000 - 7 * i as u64 } else { 5 + i as u64 }, _ => 10 * (rng.below(6) + 1) };
        }
        let mut file_of: Vec<u64> = Vec::new();
        for (_, e) in &ents { match rot.append(e) { Ok(s) => file_of.push(s), Err(x) => return Some(Found { input: "append on an in-memory store".into(), observed: x.to_string(), required: "Ok".into() }) } }
        let _ = rot.sync();
        let all: Vec<WalEntry> = ents.iter().map(|(_, e)| e.clone()).collect();
        let layout_s = format!("max_file_size={}, stamps in append order {:?}, files {:?}", max, all.iter().map(|e| e.timestamp).collect::<Vec<_>>(), file_of);
        let fresh = match WalRotator::new(store.clone(), max) { Ok(r) => r, Err(_) => continue };
        match fresh.recover_all_entries() {
            Ok(got) if ids(&got) == ids(&all) => {}
            other => return Some(Found { input: format!("{} entries appended ({}); recover_all_entries on a new rotator", all.len(), layout_s), observed: format!("{:?}", other.map(|g| ids(&g)).map_err(|e| e.to_string())), required: format!("all entries in append order {:?}", ids(&all)) }),
        }
        let mut ts: Vec<u64> = vec![0, 1, u64::MAX];
        for e in &all { ts.push(e.timestamp); ts.push(e.timestamp.saturating_add(1)); ts.push(e.timestamp.saturating_sub(1)); }
        for t in ts {
            let want: Vec<String> = ents.iter().filter(|(_, e)| e.timestamp >= t).map(|(d, _)| delta_id(d)).collect();
            match fresh.recover_entries_after(t) {
                Ok(got) if got.iter().map(delta_id).collect::<Vec<_>>() == want => {}
                other => return Some(Found { input: format!("{}; recover_entries_after({})", layout_s, t), observed: format!("{:?}", other.map(|g| g.iter().map(|d| d.key.clone()).collect::<Vec<_>>()).map_err(|e| e.to_string())), required: format!("exactly the {} updates stamped >= {}, in order: keys {:?}", want.len(), t, ents.iter().filter(|(_, e)| e.timestamp >= t).map(|(d, _)| d.key.clone()).collect::<Vec<_>>()) }),
            }
        }
        // a damaged file never hides intact entries of other files; its own recovery ends at the damage
        let files = { let mut f = file_of.clone(); f.dedup(); f };
        if let Some(&victim) = files.get(rng.below(files.len() as u64) as usize) {
            let name = format!("wal-{:08x}.wal", victim);
            if let Some(data) = store.get_file_data(&name) {
                let in_file: Vec<usize> = (0..all.len()).filter(|&i| file_of[i] == victim).collect();
                let (dmg, keep, what): (Vec<u8>, usize, String) = match rng.below(4) {
                    0 => { let c = rng.below(16) as usize; (data[..c].to_vec(), 0, format!("truncated to {} bytes (torn header)", c)) }
                    1 => { let mut d = data.clone(); d[rng.below(4) as usize] ^= 0x20; (d, 0, "magic damaged".to_string()) }
                    2 => {
                        // cut inside entry j
                        let j = rng.below(in_file.len() as u64) as usize;
                        let start: usize = 16 + in_file[..j].iter().map(|&i| all[i].disk_size()).sum::<usize>();
                        let c = start + rng.below(all[in_file[j]].disk_size() as u64) as usize;
                        (data[..c].to_vec(), j, format!("truncated to {} bytes (inside its entry #{})", c, j))
                    }
                    _ => {
                        let j = rng.below(in_file.len() as u64) as usize;
                        let start: usize = 16 + in_file[..j].iter().map(|&i| all[i].disk_size()).sum::<usize>();
                        let mut d = data.clone();
                        let at = start + 16 + rng.below(all[in_file[j]].data.len() as u64) as usize;
                        d[at] ^= 1 << rng.below(8);
                        (d, j, format!("payload byte {} of its entry #{} corrupted", at, j))
                    }
                };
                store.set_file_data(&name, dmg);
                let want: Vec<WalEntry> = (0..all.len()).filter(|&i| file_of[i] != victim || in_file.iter().position(|&x| x == i).map(|p| p < keep).unwrap_or(false)).map(|i| all[i].clone()).collect();
                let r = catch_unwind(AssertUnwindSafe(|| fresh.recover_all_entries()));
                match r {
                    Ok(Ok(got)) if ids(&got) == ids(&want) => {}
                    Ok(other) => return Some(Found { input: format!("{}; then file {} {}", layout_s, name, what), observed: format!("{:?}", other.map(|g| ids(&g)).map_err(|e| e.to_string())), required: format!("the intact entries of every file, the damaged file up to the damage: {:?}", ids(&want)) }),
                    Err(_) => return Some(Found { input: format!("{}; then file {} {}", layout_s, name, what), observed: "panic".into(), required: "recovery ends at the damage".into() }),
                }
                store.set_file_data(&name, data);
            }
        }
        // truncation up to T: the active file and every entry stamped later than T survive
        let active = rot.current_sequence();
        let mut cands: Vec<u64> = all.iter().map(|e| e.timestamp).collect(); cands.push(0); cands.push(u64::MAX);
        let t = *rng.pick(&cands);
        let t = if rng.chance(1, 3) { t.saturating_sub(1) } else { t };
        match rot.truncate_before(t) {
            Ok(_) => {}
            Err(x) => return Some(Found { input: format!("{}; truncate_before({})", layout_s, t), observed: x.to_string(), required: "Ok".into() }),
        }
        let after = match rot.recover_all_entries() { Ok(a) => ids(&a), Err(_) => Vec::new() };
        for (i, e) in all.iter().enumerate() {
            let id = format!("{}:{:016x}", e.timestamp, crate::deltas::fnv(&e.data));
            let must = e.timestamp > t || file_of[i] == active;
            if must && !after.contains(&id) {
                return Some(Found { input: format!("{}; active file {}; truncate_before({})", layout_s, active, t), observed: format!("entry #{} stamped {} (file {}) is gone; stamps left: {:?}", i, e.timestamp, file_of[i], after.iter().map(|s| s.split(':').next().unwrap_or("").to_string()).collect::<Vec<_>>()), required: "truncation up to T never removes the active file nor any entry stamped later than T".into() });
            }
        }
        if rot.store().exists(&format!("wal-{:08x}.wal", active)).ok() != Some(true) {
            return Some(Found { input: format!("{}; truncate_before({})", layout_s, t), observed: format!("active file {} deleted", active), required: "the active file is never removed".into() });
        }
    }
    None
}

/// open finding C10/C14 (lemma_stamp_is_checksummed): the stamp bytes [4,12) of an entry are outside the CRC
fn check_stamp_covered(rng: &mut Rng) -> Option<Found> {
    for (_, e) in make_entries(rng, 8, true) {
        let img = e.encode();
        for bit in [0usize, 7, 13, 63] {
            let mut d = img.clone();
            d[4 + bit / 8] ^= 1 << (bit % 8);
            if let Ok(Some((g, n))) = decode(&d) {
                if !same_entry(&g, &e) {
                    return Some(Found { input: format!("entry {} with bit {} of its stamp field (bytes 4..12) flipped", show_entry(&e), bit),
                        observed: format!("decode accepts it ({} bytes) as {}", n, show_entry(&g)),
                        required: "None (corruption detected) or the entry that was written".into() });
                }
            }
        }
    }
    None
}

pub fn search(_pid: &str, oid: &str, seed: u64) -> Option<Found> {
    let mut rng = Rng::new(seed + 10);
    let f = oid.split('/').nth(1).unwrap_or("");
    if oid.contains("stamp_is_checksummed") { return check_stamp_covered(&mut rng); }
    if f.starts_with("WalRotator") || oid.starts_with("wal_files/") { if let Some(x) = check_rotator(&mut rng, 300) { return Some(x); } }
    if f.starts_with("WalReader") { if let Some(x) = check_reader(&mut rng, 600) { return Some(x); } }
    if let Some(x) = check_roundtrip(&mut rng, 400) { return Some(x); }
    if let Some(x) = check_damage(&mut rng, 40) { return Some(x); }
    if let Some(x) = check_reader(&mut rng, 1500) { return Some(x); }
    if let Some(x) = check_rotator(&mut rng, 600) { return Some(x); }
    None
}
