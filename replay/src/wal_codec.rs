//! Unit `wal_codec` (C10, C14): WAL entry codec round trip, damage is detected (never decoded into different data),
//! WalReader yields exactly the intact entries in order, recover_entries_after filters by stamp >= t,
//! a damaged file never hides other files, truncate_before never removes the active file nor a newer entry.
use crate::deltas::{crc32, delta_id, gen_delta_auto, hex, show_delta};
use crate::rng::Rng;
use crate::Found;
use redis_sim::replication::state::ReplicationDelta;
use redis_sim::streaming::wal_store::{InMemoryWalStore, LocalWalStore, WalError, WalFileReader, WalStore};
use redis_sim::streaming::{WalEntry, WalReader, WalRotator};
use std::panic::{catch_unwind, AssertUnwindSafe};

struct VecReader(Vec<u8>);
impl WalFileReader for VecReader { fn read_all(&mut self) -> Result<Vec<u8>, WalError> { Ok(self.0.clone()) } }

fn header(seq: u64) -> Vec<u8> {
    let mut h = vec![0u8; 16];
    h[0..4].copy_from_slice(b"RWAL"); h[4] = 1; h[8..16].copy_from_slice(&seq.to_le_bytes());
    h
}

fn show_entry(e: &WalEntry) -> String { format!("{{stamp:{}, crc:{:08x}, data:{}}}", e.timestamp, e.checksum, hex(&e.data)) }
fn same_entry(a: &WalEntry, b: &WalEntry) -> bool { a.data == b.data && a.timestamp == b.timestamp && a.checksum == b.checksum }

fn decode(b: &[u8]) -> Result<Option<(WalEntry, usize)>, String> {
    catch_unwind(|| WalEntry::decode(b)).map_err(|e| e.downcast_ref::<String>().cloned().or_else(|| e.downcast_ref::<&str>().map(|s| s.to_string())).unwrap_or_default())
}

fn make_entries(rng: &mut Rng, n: u64, small: bool) -> Vec<(ReplicationDelta, WalEntry)> {
    let mut out = Vec::new();
    for i in 0..n {
        let stamp = match rng.below(6) { 0 => 0, 1 => u64::MAX, 2 => u64::MAX - 1, _ => 1 + rng.below(1000) };
        let mut d = gen_delta_auto(rng, if small { 10 + i } else { i });
        if small { while WalEntry::from_delta(&d, 0).map(|e| e.data.len()).unwrap_or(0) > 300 { d = gen_delta_auto(rng, 10 + i); } }
        if let Ok(e) = WalEntry::from_delta(&d, stamp) { out.push((d, e)); }
    }
    out
}

fn check_roundtrip(rng: &mut Rng, iters: u64) -> Option<Found> {
    for i in 0..iters {
        let d = gen_delta_auto(rng, i);
        let stamp = match i % 7 { 0 => 0, 1 => u64::MAX, _ => rng.next() >> rng.below(64) };
        let e = match WalEntry::from_delta(&d, stamp) {
            Ok(e) => e,
            Err(x) => return Some(Found { input: format!("WalEntry::from_delta({}, {})", show_delta(&d), stamp), observed: format!("Err({})", x), required: "an entry (every replicated value is serialisable)".into() }),
        };
        let enc = e.encode();
        let want_crc = crc32(&e.data);
        let mut want = Vec::new();
        want.extend_from_slice(&(e.data.len() as u32).to_le_bytes()); want.extend_from_slice(&stamp.to_le_bytes()); want.extend_from_slice(&want_crc.to_le_bytes()); want.extend_from_slice(&e.data);
        if e.timestamp != stamp || e.checksum != want_crc || !e.validate() || enc != want || e.disk_size() != enc.len() {
            return Some(Found { input: format!("from_delta({}, {}).encode()", show_delta(&d), stamp), observed: format!("entry {} validate={} disk_size={} encoded {}", show_entry(&e), e.validate(), e.disk_size(), hex(&enc)), required: format!("len|stamp|crc32(data)|data = {} ({} bytes), crc {:08x}", hex(&want), want.len(), want_crc) });
        }
        for junk in [&b""[..], &b"\0"[..], &b"\xff\xff\xff\xff\xff\xff\xff\xff\xff\xff\xff\xff\xff\xff\xff\xff\xff"[..]] {
            let mut img = enc.clone(); img.extend_from_slice(junk);
            match decode(&img) {
                Ok(Some((e2, n))) if n == enc.len() && same_entry(&e, &e2) => {
                    match e2.to_delta() {
                        Ok(d2) if delta_id(&d2) == delta_id(&d) => {}
                        Ok(d2) => return Some(Found { input: format!("update {} stamped {} through from_delta/encode/decode/to_delta", show_delta(&d), stamp), observed: show_delta(&d2), required: "the update that was written".into() }),
                        Err(x) => return Some(Found { input: format!("update {} through from_delta/encode/decode/to_delta", show_delta(&d)), observed: format!("to_delta Err({})", x), required: "the update that was written".into() }),
                    }
                }
                other => return Some(Found { input: format!("decode(encode({}) ++ {} junk bytes)", show_entry(&e), junk.len()), observed: format!("{:?}", other.map(|o| o.map(|(e, n)| (show_entry(&e), n)))), required: format!("the entry and consumed == {}", enc.len()) }),
            }
        }
    }
    None
}

/// what a damaged image may decode to: nothing, or exactly what was written (the stamp field is outside the CRC: a
/// damaged stamp field decodes to the same payload with the stamp the bytes now spell, as the contract of decode says)
fn damage_ok(orig: &WalEntry, orig_len: usize, img: &[u8], got: &Option<(WalEntry, usize)>) -> bool {
    match got {
        None => true,
        Some((e, n)) => {
            let stamp_now = if img.len() >= 12 { u64::from_le_bytes([img[4], img[5], img[6], img[7], img[8], img[9], img[10], img[11]]) } else { 0 };
            e.data == orig.data && *n == orig_len && e.checksum == orig.checksum && e.timestamp == stamp_now
        }
    }
}

fn check_damage(rng: &mut Rng, iters: u64) -> Option<Found> {
    let entries = make_entries(rng, iters, false);
    for (idx, (_, e)) in entries.iter().enumerate() {
        let enc = e.encode();
        // every truncation
        let cuts: Vec<usize> = if enc.len() <= 400 { (0..enc.len()).collect() } else { let mut c: Vec<usize> = (0..40).collect(); c.extend((0..60).map(|_| rng.below(enc.len() as u64) as usize)); c.push(enc.len() - 1); c };
        for cut in cuts {
            match decode(&enc[..cut]) {
                Ok(None) => {}
                Ok(Some((g, n))) => return Some(Found { input: format!("entry {} ({} bytes) truncated to {} bytes", show_entry(e), enc.len(), cut), observed: format!("decoded {} consuming {}", show_entry(&g), n), required: "None (torn entry)".into() }),
                Err(m) => return Some(Found { input: format!("entry {} truncated to {} bytes", show_entry(e), cut), observed: format!("panic: {}", m), required: "None (torn entry)".into() }),
            }
        }
        // every single-bit flip (sampled for big entries), with and without bytes following the entry
        let tail = crate::deltas::bytes_of(rng, 70000);
        let nbits = enc.len() * 8;
        let bits: Vec<usize> = if enc.len() <= 200 || idx < 3 { (0..nbits).collect() } else { let mut b: Vec<usize> = (0..128).collect(); b.extend((0..300).map(|_| rng.below(nbits as u64) as usize)); b };
        let mut img_plain = enc.clone();
        let mut img_tail = enc.clone(); img_tail.extend_from_slice(&tail);
        for bit in bits {
            for with_tail in [false, true] {
                let img: &mut Vec<u8> = if with_tail { &mut img_tail } else { &mut img_plain };
                img[bit / 8] ^= 1 << (bit % 8);
                let res = decode(img);
                let img_now = img[..16].to_vec();
                img[bit / 8] ^= 1 << (bit % 8);
                let img = img_now;
                let field = match bit / 8 { 0..=3 => "length", 4..=11 => "stamp", 12..=15 => "checksum", _ => "payload" };
                match res {
                    Ok(got) => {
                        if !damage_ok(e, enc.len(), &img, &got) || (field != "stamp" && got.is_some()) {
                            let (g, n) = got.unwrap();
                            return Some(Found { input: format!("entry {} ({} bytes{}) with bit {} flipped (byte {} of the {} field)", show_entry(e), enc.len(), if with_tail { ", followed by other bytes" } else { "" }, bit, bit / 8, field), observed: format!("decoded {} consuming {}", show_entry(&g), n), required: "None: a damaged entry is never decoded into different data".into() });
                        }
                    }
                    Err(m) => return Some(Found { input: format!("entry {} with bit {} flipped ({} field)", show_entry(e), bit, field), observed: format!("panic: {}", m), required: "None".into() }),
                }
            }
        }
        // short bursts (<= 4 contiguous bytes overwritten) inside checksum+payload: always caught by CRC-32
        for _ in 0..60 {
            let mut img = enc.clone();
            let l = 1 + rng.below(4) as usize;
            if enc.len() < 16 + l { continue; }
            let at = 16 + rng.below((enc.len() - 16 - l + 1) as u64) as usize;
            let mut changed = false;
            for j in 0..l { let nb = (rng.next() & 0xff) as u8; if img[at + j] != nb { changed = true; } img[at + j] = nb; }
            if !changed { continue; }
            match decode(&img) {
                Ok(None) => {}
                Ok(Some((g, n))) => return Some(Found { input: format!("entry {} with payload bytes {}..{} overwritten", show_entry(e), at, at + l), observed: format!("decoded {} consuming {}", show_entry(&g), n), required: "None: corrupted payload is never decoded".into() }),
                Err(m) => return Some(Found { input: format!("entry {} with payload bytes {}..{} overwritten", show_entry(e), at, at + l), observed: format!("panic: {}", m), required: "None".into() }),
            }
        }
    }
    // adversarial length fields
    for len in [0xffff_ffffu32, 0xffff_fff0, 0x8000_0000, 0x7fff_ffff, 17, 1] {
        let mut img = Vec::new(); img.extend_from_slice(&len.to_le_bytes()); img.extend_from_slice(&[0u8; 12]); img.extend_from_slice(&[7u8; 8]);
        match decode(&img) { Ok(None) => {} other => return Some(Found { input: format!("entry header claiming {} payload bytes followed by 8", len), observed: format!("{:?}", other.map(|o| o.map(|(e, n)| (show_entry(&e), n)))), required: "None".into() }) }
    }
    None
}

fn read_image(img: &[u8]) -> Result<Result<(u64, Vec<WalEntry>), String>, String> {
    let img = img.to_vec();
    catch_unwind(move || match WalReader::open(VecReader(img)) { Ok(r) => Ok((r.sequence(), r.entries())), Err(e) => Err(e.to_string()) })
        .map_err(|e| e.downcast_ref::<String>().cloned().or_else(|| e.downcast_ref::<&str>().map(|s| s.to_string())).unwrap_or_default())
}

fn check_reader(rng: &mut Rng, iters: u64) -> Option<Found> {
    // damaged headers
    let good = header(5);
    for cut in 0..16 { match read_image(&good[..cut]) { Ok(Err(_)) => {} other => return Some(Found { input: format!("WAL file image of {} bytes (torn header)", cut), observed: format!("{:?}", other.map(|r| r.map(|(s, e)| (s, e.len())))), required: "open() returns Err".into() }) } }
    for (at, val, what) in [(0usize, b'X', "magic"), (3, b'l', "magic"), (4, 2u8, "version"), (4, 0u8, "version")] {
        let mut h = good.clone(); h[at] = val;
        match read_image(&h) { Ok(Err(_)) => {} other => return Some(Found { input: format!("WAL header with bad {} byte {}", what, at), observed: format!("{:?}", other.map(|r| r.map(|(s, e)| (s, e.len())))), required: "open() returns Err".into() }) }
    }
    for it in 0..iters {
        let seq = if it % 5 == 0 { u64::MAX } else { rng.below(1 << 40) };
        let k = rng.below(7);
        let ents = make_entries(rng, k + 1, it % 3 != 0);
        let (intact, extra) = ents.split_at(ents.len() - 1);
        let extra_enc = extra[0].1.encode();
        let mut img = header(seq);
        for (_, e) in intact { img.extend_from_slice(&e.encode()); }
        let body_len = img.len();
        let tail_kind = rng.below(9);
        let what;
        match tail_kind {
            0 => { what = "nothing".to_string(); }
            1 => { let c = 1 + rng.below(15) as usize; img.extend_from_slice(&extra_enc[..c.min(extra_enc.len() - 1)]); what = format!("a torn entry header ({} bytes)", c); }
            2 => { let c = 16 + rng.below((extra_enc.len() - 16) as u64) as usize; img.extend_from_slice(&extra_enc[..c]); what = format!("a torn payload ({} of {} bytes)", c, extra_enc.len()); }
            3 => { let mut x = extra_enc.clone(); let b = 16 * 8 + rng.below(((x.len() - 16) * 8) as u64) as usize; x[b / 8] ^= 1 << (b % 8); img.extend_from_slice(&x); if let Some((_, e)) = intact.first() { img.extend_from_slice(&e.encode()); } what = format!("an entry with payload bit {} flipped, followed by a further intact entry", b); }
            4 => { let mut x = extra_enc.clone(); let b = 12 * 8 + rng.below(32) as usize; x[b / 8] ^= 1 << (b % 8); img.extend_from_slice(&x); what = "an entry with a checksum bit flipped".to_string(); }
            5 => { let n = 1 + rng.below(15) as usize; img.extend_from_slice(&vec![0u8; n]); what = format!("{} zero bytes", n); }
            6 => { let n = 1 + rng.below(64) as usize; let mut j = crate::deltas::bytes_of(rng, n); if j.len() >= 4 { j[3] |= 0x40; } img.extend_from_slice(&j); what = format!("{} junk bytes", n); }
            7 => { let mut x = extra_enc.clone(); let b = rng.below(32) as usize; x[b / 8] ^= 1 << (b % 8); img.extend_from_slice(&x); what = format!("an entry with length bit {} flipped", b); }
            _ => { img.extend_from_slice(&extra_enc[..extra_enc.len() - 1]); what = "an entry missing its last byte".to_string(); }
        }
        let _ = body_len;
        match read_image(&img) {
            Ok(Ok((s, got))) => {
                let ok = s == seq && got.len() == intact.len() && got.iter().zip(intact.iter()).all(|(g, (_, e))| same_entry(g, e));
                if !ok {
                    return Some(Found { input: format!("file image: header(seq {}) ++ {} intact entries [{}] ++ {}", seq, intact.len(), intact.iter().map(|(_, e)| show_entry(e)).collect::<Vec<_>>().join(", "), what), observed: format!("sequence {} and {} entries [{}]", s, got.len(), got.iter().map(show_entry).collect::<Vec<_>>().join(", ")), required: "exactly the intact entries, bit-identical, in append order; recovery of the file ends at the damage".into() });
                }
                // every entry handed back re-materialises the update that was written
                for (g, (d, _)) in got.iter().zip(intact.iter()) {
                    match g.to_delta() { Ok(d2) if delta_id(&d2) == delta_id(d) => {} other => return Some(Found { input: format!("update {} read back from a file image", show_delta(d)), observed: format!("{:?}", other.map(|d| show_delta(&d)).map_err(|e| e.to_string())), required: "the update that was written".into() }) }
                }
            }
            Ok(Err(e)) => return Some(Found { input: format!("file image: valid header(seq {}) ++ {} intact entries ++ {}", seq, intact.len(), what), observed: format!("open() Err({})", e), required: "the intact entries".into() }),
            Err(m) => return Some(Found { input: format!("file image: header(seq {}) ++ {} intact entries ++ {}", seq, intact.len(), what), observed: format!("panic: {}", m), required: "the intact entries, never a panic".into() }),
        }
    }
    None
}

fn ids(es: &[WalEntry]) -> Vec<String> { es.iter().map(|e| format!("{}:{:016x}", e.timestamp, crate::deltas::fnv(&e.data))).collect() }

fn check_rotator(rng: &mut Rng, iters: u64) -> Option<Found> {
    for it in 0..iters {
        let store = InMemoryWalStore::new();
        let max = [64usize, 200, 500, 2000, 1 << 20][rng.below(5) as usize];
        let mut rot = match WalRotator::new(store.clone(), max) { Ok(r) => r, Err(_) => continue };
        let n = 2 + rng.below(14);
        let mut ents = make_entries(rng, n, true);
        // stamp layouts: monotone, reversed, interleaved clocks of several shards, duplicates
        let layout = it % 4;
        for (i, (_, e)) in ents.iter_mut().enumerate() {
            e.timestamp = match layout { 0 => 10 * (i as u64 + 1), 1 => 10 * (n - i as u64), 2 => if i % 2 == 0 { 1000 - 7 * i as u64 } else { 5 + i as u64 }, _ => 10 * (rng.below(6) + 1) };
        }
        let mut file_of: Vec<u64> = Vec::new();
        for (_, e) in &ents { match rot.append(e) { Ok(s) => file_of.push(s), Err(x) => return Some(Found { input: "append on an in-memory store".into(), observed: x.to_string(), required: "Ok".into() }) } }
        let _ = rot.sync();
        let all: Vec<WalEntry> = ents.iter().map(|(_, e)| e.clone()).collect();
        let layout_s = format!("max_file_size={}, stamps in append order {:?}, files {:?}", max, all.iter().map(|e| e.timestamp).collect::<Vec<_>>(), file_of);
        let fresh = match WalRotator::new(store.clone(), max) { Ok(r) => r, Err(_) => continue };
        match fresh.recover_all_entries() {
            Ok(got) if ids(&got) == ids(&all) => {}
            other => return Some(Found { input: format!("{} entries appended ({}); recover_all_entries on a new rotator", all.len(), layout_s), observed: format!("{:?}", other.map(|g| ids(&g)).map_err(|e| e.to_string())), required: format!("all entries in append order {:?}", ids(&all)) }),
        }
        let mut ts: Vec<u64> = vec![0, 1, u64::MAX];
        for e in &all { ts.push(e.timestamp); ts.push(e.timestamp.saturating_add(1)); ts.push(e.timestamp.saturating_sub(1)); }
        for t in ts {
            let want: Vec<String> = ents.iter().filter(|(_, e)| e.timestamp >= t).map(|(d, _)| delta_id(d)).collect();
            match fresh.recover_entries_after(t) {
                Ok(got) if got.iter().map(delta_id).collect::<Vec<_>>() == want => {}
                other => return Some(Found { input: format!("{}; recover_entries_after({})", layout_s, t), observed: format!("{:?}", other.map(|g| g.iter().map(|d| d.key.clone()).collect::<Vec<_>>()).map_err(|e| e.to_string())), required: format!("exactly the {} updates stamped >= {}, in order: keys {:?}", want.len(), t, ents.iter().filter(|(_, e)| e.timestamp >= t).map(|(d, _)| d.key.clone()).collect::<Vec<_>>()) }),
            }
        }
        // a damaged file never hides intact entries of other files; its own recovery ends at the damage
        let files = { let mut f = file_of.clone(); f.dedup(); f };
        if let Some(&victim) = files.get(rng.below(files.len() as u64) as usize) {
            let name = format!("wal-{:08x}.wal", victim);
            if let Some(data) = store.get_file_data(&name) {
                let in_file: Vec<usize> = (0..all.len()).filter(|&i| file_of[i] == victim).collect();
                let (dmg, keep, what): (Vec<u8>, usize, String) = match rng.below(4) {
                    0 => { let c = rng.below(16) as usize; (data[..c].to_vec(), 0, format!("truncated to {} bytes (torn header)", c)) }
                    1 => { let mut d = data.clone(); d[rng.below(4) as usize] ^= 0x20; (d, 0, "magic damaged".to_string()) }
                    2 => {
                        // cut inside entry j
                        let j = rng.below(in_file.len() as u64) as usize;
                        let start: usize = 16 + in_file[..j].iter().map(|&i| all[i].disk_size()).sum::<usize>();
                        let c = start + rng.below(all[in_file[j]].disk_size() as u64) as usize;
                        (data[..c].to_vec(), j, format!("truncated to {} bytes (inside its entry #{})", c, j))
                    }
                    _ => {
                        let j = rng.below(in_file.len() as u64) as usize;
                        let start: usize = 16 + in_file[..j].iter().map(|&i| all[i].disk_size()).sum::<usize>();
                        let mut d = data.clone();
                        let at = start + 16 + rng.below(all[in_file[j]].data.len() as u64) as usize;
                        d[at] ^= 1 << rng.below(8);
                        (d, j, format!("payload byte {} of its entry #{} corrupted", at, j))
                    }
                };
                store.set_file_data(&name, dmg);
                let want: Vec<WalEntry> = (0..all.len()).filter(|&i| file_of[i] != victim || in_file.iter().position(|&x| x == i).map(|p| p < keep).unwrap_or(false)).map(|i| all[i].clone()).collect();
                let r = catch_unwind(AssertUnwindSafe(|| fresh.recover_all_entries()));
                match r {
                    Ok(Ok(got)) if ids(&got) == ids(&want) => {}
                    Ok(other) => return Some(Found { input: format!("{}; then file {} {}", layout_s, name, what), observed: format!("{:?}", other.map(|g| ids(&g)).map_err(|e| e.to_string())), required: format!("the intact entries of every file, the damaged file up to the damage: {:?}", ids(&want)) }),
                    Err(_) => return Some(Found { input: format!("{}; then file {} {}", layout_s, name, what), observed: "panic".into(), required: "recovery ends at the damage".into() }),
                }
                store.set_file_data(&name, data);
            }
        }
        // truncation up to T: the active file and every entry stamped later than T survive
        let active = rot.current_sequence();
        let mut cands: Vec<u64> = all.iter().map(|e| e.timestamp).collect(); cands.push(0); cands.push(u64::MAX);
        let t = *rng.pick(&cands);
        let t = if rng.chance(1, 3) { t.saturating_sub(1) } else { t };
        match rot.truncate_before(t) {
            Ok(_) => {}
            Err(x) => return Some(Found { input: format!("{}; truncate_before({})", layout_s, t), observed: x.to_string(), required: "Ok".into() }),
        }
        let after = match rot.recover_all_entries() { Ok(a) => ids(&a), Err(_) => Vec::new() };
        for (i, e) in all.iter().enumerate() {
            let id = format!("{}:{:016x}", e.timestamp, crate::deltas::fnv(&e.data));
            let must = e.timestamp > t || file_of[i] == active;
            if must && !after.contains(&id) {
                return Some(Found { input: format!("{}; active file {}; truncate_before({})", layout_s, active, t), observed: format!("entry #{} stamped {} (file {}) is gone; stamps left: {:?}", i, e.timestamp, file_of[i], after.iter().map(|s| s.split(':').next().unwrap_or("").to_string()).collect::<Vec<_>>()), required: "truncation up to T never removes the active file nor any entry stamped later than T".into() });
            }
        }
        if rot.store().exists(&format!("wal-{:08x}.wal", active)).ok() != Some(true) {
            return Some(Found { input: format!("{}; truncate_before({})", layout_s, t), observed: format!("active file {} deleted", active), required: "the active file is never removed".into() });
        }
    }
    None
}

// ======================= C10 under damage of ANY byte of ANY file, the ACTIVE file and its 16-byte header included =======================
// Several rotated files + the active one, non-monotone stamps; every single-bit flip of the active file's header, header flips of the
// other files, random flips / overwrites / cuts / zero-fills anywhere (also combined with a header flip of the active file); then
// truncate_before(T) on the LIVE rotator for thresholds around the stamps.  Required (independent oracle from the file format):
//  * recovery before the truncation = every entry of every file up to that file's first damaged entry (a damaged file hides nothing else;
//    nothing is recovered that was never appended);
//  * the active file (wal-<current_sequence>.wal, the one the writer appends to) still exists afterwards, byte for byte;
//  * what is recovered afterwards is a subsequence of what was recoverable before and contains every entry stamped > T;
//  * appends after the truncation succeed and are recovered after a restart (new rotator over the same store).

trait Lab {
    type S: WalStore + Clone;
    fn fresh(&mut self) -> Result<Self::S, String>;
    fn get(&self, s: &Self::S, name: &str) -> Option<Vec<u8>>;
    fn put(&self, s: &Self::S, name: &str, data: &[u8]);
    fn done(&mut self);
    fn what(&self) -> &'static str;
}

struct MemLab;
impl Lab for MemLab {
    type S = InMemoryWalStore;
    fn fresh(&mut self) -> Result<InMemoryWalStore, String> { Ok(InMemoryWalStore::new()) }
    fn get(&self, s: &InMemoryWalStore, name: &str) -> Option<Vec<u8>> { s.get_file_data(name) }
    fn put(&self, s: &InMemoryWalStore, name: &str, data: &[u8]) { s.set_file_data(name, data.to_vec()) }
    fn done(&mut self) {}
    fn what(&self) -> &'static str { "InMemoryWalStore" }
}

/// LocalWalStore in a scratch directory under /var/tmp (removed after every case and on drop)
struct DirLab { base: std::path::PathBuf, n: usize, cur: Option<std::path::PathBuf> }
impl Lab for DirLab {
    type S = LocalWalStore;
    fn fresh(&mut self) -> Result<LocalWalStore, String> {
        self.done();
        self.n += 1;
        let d = self.base.join(format!("case-{}", self.n));
        let s = LocalWalStore::new(d.clone()).map_err(|e| e.to_string())?;
        self.cur = Some(d);
        Ok(s)
    }
    fn get(&self, _s: &LocalWalStore, name: &str) -> Option<Vec<u8>> { std::fs::read(self.cur.as_ref()?.join(name)).ok() }
    /// in place (same inode: the live writer keeps its descriptor), same length
    fn put(&self, _s: &LocalWalStore, name: &str, data: &[u8]) {
        use std::io::Write;
        if let Some(d) = &self.cur {
            if let Ok(mut f) = std::fs::OpenOptions::new().write(true).open(d.join(name)) { let _ = f.write_all(data); let _ = f.set_len(data.len() as u64); let _ = f.sync_all(); }
        }
    }
    fn done(&mut self) { if let Some(d) = self.cur.take() { let _ = std::fs::remove_dir_all(d); } }
    fn what(&self) -> &'static str { "LocalWalStore (directory under /var/tmp)" }
}
impl Drop for DirLab { fn drop(&mut self) { self.done(); let _ = std::fs::remove_dir_all(&self.base); } }

struct Layout { max: usize, ents: Vec<WalEntry>, file_of: Vec<u64> }
impl Layout {
    fn files(&self) -> Vec<u64> { let mut f = self.file_of.clone(); f.dedup(); f }
    fn active(&self) -> u64 { *self.file_of.last().unwrap_or(&0) }
    fn in_file(&self, seq: u64) -> Vec<&WalEntry> { (0..self.ents.len()).filter(|&i| self.file_of[i] == seq).map(|i| &self.ents[i]).collect() }
    fn file_len(&self, seq: u64) -> usize { 16 + self.in_file(seq).iter().map(|e| e.disk_size()).sum::<usize>() }
    /// offset of entry #j of file `seq`
    fn entry_off(&self, seq: u64, j: usize) -> usize { 16 + self.in_file(seq).iter().take(j).map(|e| e.disk_size()).sum::<usize>() }
    fn text(&self) -> String { format!("max_file_size={}, {} entries with stamps (append order) {:?} in files {:?}, active file wal-{:08x}.wal", self.max, self.ents.len(), self.ents.iter().map(|e| e.timestamp).collect::<Vec<_>>(), self.file_of, self.active()) }
}

#[derive(Clone)]
enum DmgKind { Flip(usize), Over(usize, Vec<u8>), Cut(usize) }
#[derive(Clone)]
struct Dmg { seq: u64, kind: DmgKind, what: String }

fn apply_dmg(img: &mut Vec<u8>, d: &DmgKind) {
    match d {
        DmgKind::Flip(bit) => if bit / 8 < img.len() { img[bit / 8] ^= 1 << (bit % 8); },
        DmgKind::Over(at, bytes) => for (j, b) in bytes.iter().enumerate() { if at + j < img.len() { img[at + j] = *b; } },
        DmgKind::Cut(len) => img.truncate(*len),
    }
}

fn wname(seq: u64) -> String { format!("wal-{:08x}.wal", seq) }
type Eid = (u64, u64);
fn eids(es: &[WalEntry]) -> Vec<Eid> { es.iter().map(|e| (e.timestamp, crate::deltas::fnv(&e.data))).collect() }
fn stamps_of(e: &[Eid]) -> Vec<u64> { e.iter().map(|x| x.0).collect() }
fn is_subseq(small: &[Eid], big: &[Eid]) -> bool { let mut i = 0; for b in big { if i < small.len() && small[i] == *b { i += 1; } } i == small.len() }
fn count(v: &[Eid], x: &Eid) -> usize { v.iter().filter(|y| *y == x).count() }

/// what the file format says a (damaged) image still holds: nothing if the magic/version bytes or the header are gone, else the
/// entries up to the first one whose length, checksum or payload bytes changed or are cut off (the stamp field is outside the
/// checksum - known finding - so a damaged stamp field keeps the entry, with the stamp the bytes now spell).  bool = read to the end
fn expect_file(orig: &[u8], img: &[u8], ents: &[&WalEntry]) -> (Vec<Eid>, bool) {
    if img.len() < 16 || img[0..5] != orig[0..5] { return (Vec::new(), false); }
    let mut off = 16; let mut out = Vec::new();
    for e in ents {
        let sz = e.disk_size();
        if img.len() < off + sz { return (out, false); }
        if img[off..off + 4] != orig[off..off + 4] || img[off + 12..off + sz] != orig[off + 12..off + sz] { return (out, false); }
        let mut s = [0u8; 8]; s.copy_from_slice(&img[off + 4..off + 12]);
        out.push((u64::from_le_bytes(s), crate::deltas::fnv(&e.data)));
        off += sz;
    }
    (out, true)
}

fn post_entries(rng: &mut Rng) -> Vec<WalEntry> {
    let mut out = Vec::new();
    let mut i = 0u64;
    while out.len() < 4 {
        let mut d = gen_delta_auto(rng, 10 + i); i += 1;
        d.key = format!("appended-after-truncation:{}:{}", out.len(), rng.below(1 << 30));
        let stamp = match rng.below(5) { 0 => 0, 1 => u64::MAX, _ => 1 + rng.below(80) };
        if let Ok(e) = WalEntry::from_delta(&d, stamp) { if e.data.len() <= 400 { out.push(e); } }
    }
    out
}

/// 16 zero bytes where the reader expects an entry header (length 0, stamp 0, checksum 0 = crc32 of nothing)
fn zero_header_at_boundary(img: &[u8], ents: &[&WalEntry]) -> bool {
    let mut off = 16;
    let mut offs = vec![off];
    for e in ents { off += e.disk_size(); offs.push(off); }
    offs.iter().any(|&o| img.len() >= o + 16 && img[o..o + 16].iter().all(|b| *b == 0))
}

// zero-filled regions are part of the default damage family since /repo rejects length-0 entries (set VERIF_WAL_ZERO_HEADER=0 to skip them)
fn zero_headers_allowed() -> bool { std::env::var("VERIF_WAL_ZERO_HEADER").map(|v| v != "0").unwrap_or(true) }

fn run_damage_case<L: Lab>(lab: &mut L, lay: &Layout, dmg: &[Dmg], t: u64, post: &[WalEntry]) -> Option<Found> { run_damage_case_z(lab, lay, dmg, t, post, zero_headers_allowed()) }

fn run_damage_case_z<L: Lab>(lab: &mut L, lay: &Layout, dmg: &[Dmg], t: u64, post: &[WalEntry], allow_zero: bool) -> Option<Found> {
    let store = match lab.fresh() { Ok(s) => s, Err(_) => return None };
    let mut rot = WalRotator::new(store.clone(), lay.max).ok()?;
    for (i, e) in lay.ents.iter().enumerate() { match rot.append(e) { Ok(s) if s == lay.file_of[i] => {} _ => return None } }
    if rot.sync().is_err() { return None; }
    let active = rot.current_sequence();
    if active != lay.active() { return None; }
    let active_name = wname(active);
    let ctx = format!("{}: {}; damage: {}; truncate_before({})", lab.what(), lay.text(), if dmg.is_empty() { "none".to_string() } else { dmg.iter().map(|d| d.what.clone()).collect::<Vec<_>>().join(" + ") }, t);
    // damage + what each file still holds according to the format
    let mut expected: Vec<Eid> = Vec::new();
    let mut active_complete = true;
    let mut active_img: Vec<u8> = Vec::new();
    for seq in lay.files() {
        let name = wname(seq);
        let orig = match lab.get(&store, &name) { Some(d) => d, None => return None };
        let mut img = orig.clone();
        for d in dmg.iter().filter(|d| d.seq == seq) { apply_dmg(&mut img, &d.kind); }
        // open finding (reported; own trigger `zero_header`): a zero-filled entry header decodes as an entry
        if !allow_zero && zero_header_at_boundary(&img, &lay.in_file(seq)) { return None; }
        if img != orig { lab.put(&store, &name, &img); }
        let (mut ex, complete) = expect_file(&orig, &img, &lay.in_file(seq));
        expected.append(&mut ex);
        if seq == active { active_complete = complete; active_img = img; }
    }
    let recover = |s: &L::S| -> Result<Vec<Eid>, String> {
        match catch_unwind(AssertUnwindSafe(|| WalRotator::new(s.clone(), lay.max).and_then(|r| r.recover_all_entries()))) { Ok(Ok(e)) => Ok(eids(&e)), Ok(Err(e)) => Err(format!("Err({})", e)), Err(_) => Err("panic".into()) }
    };
    let before = match recover(&store) {
        Ok(b) => b,
        Err(e) => return Some(Found { input: format!("{} [recovery before the truncation]", ctx), observed: e, required: "the intact entries".into() }),
    };
    if before != expected {
        return Some(Found { input: format!("{} [recover_all_entries on a new rotator, before the truncation]", ctx), observed: format!("{} entries, stamps {:?}", before.len(), stamps_of(&before)), required: format!("exactly the entries of every file up to that file's first damaged entry, in order ({} entries, stamps {:?}): a damaged file hides nothing of other files and nothing is recovered that was never appended", expected.len(), stamps_of(&expected)) });
    }
    // the update-level recovery (what a restart uses) sees them all: one damaged file never makes recovery of the others fail
    match catch_unwind(AssertUnwindSafe(|| WalRotator::new(store.clone(), lay.max).and_then(|r| r.recover_entries_after(0)))) {
        Ok(Ok(ds)) if ds.len() == expected.len() => {}
        other => return Some(Found { input: format!("{} [recover_entries_after(0) on a new rotator, before the truncation]", ctx), observed: match other { Ok(Ok(ds)) => format!("{} updates", ds.len()), Ok(Err(e)) => format!("Err({}): nothing is recovered", e), Err(_) => "panic".into() }, required: format!("the {} updates of the intact entries of all files", expected.len()) }),
    }
    // the truncation, on the live rotator
    match catch_unwind(AssertUnwindSafe(|| rot.truncate_before(t))) {
        Ok(Ok(_)) => {}
        Ok(Err(e)) => return Some(Found { input: ctx, observed: format!("Err({})", e), required: "Ok".into() }),
        Err(_) => return Some(Found { input: ctx, observed: "panic".into(), required: "Ok".into() }),
    }
    if store.exists(&active_name).ok() != Some(true) {
        return Some(Found { input: ctx, observed: format!("the active file {} (current_sequence() = {}) is gone; files left: {:?}", active_name, active, store.list().unwrap_or_default()), required: "truncation never removes the active file".into() });
    }
    if lab.get(&store, &active_name).as_deref() != Some(&active_img[..]) {
        return Some(Found { input: ctx, observed: format!("the bytes of the active file {} changed", active_name), required: "truncation never touches the active file".into() });
    }
    let after = match recover(&store) { Ok(a) => a, Err(e) => return Some(Found { input: format!("{} [recovery after the truncation]", ctx), observed: e, required: "the surviving entries".into() }) };
    if !is_subseq(&after, &before) {
        return Some(Found { input: ctx.clone(), observed: format!("recovered afterwards: stamps {:?}", stamps_of(&after)), required: format!("a subsequence of what was recoverable before (stamps {:?})", stamps_of(&before)) });
    }
    for e in before.iter().filter(|e| e.0 > t) {
        if count(&after, e) < count(&before, e) {
            return Some(Found { input: ctx, observed: format!("the entry stamped {} (recoverable before the truncation) is gone; stamps left: {:?}", e.0, stamps_of(&after)), required: format!("truncation up to {} never removes an entry stamped later", t) });
        }
    }
    // appends after the truncation: through the live writer, then after a restart; everything is there after one more restart
    // (a file that got SHORTER under a live writer is not a crash model: the tail is torn when the writer is gone; then only the restart path)
    let active_cut = dmg.iter().any(|d| d.seq == active && matches!(d.kind, DmgKind::Cut(_)));
    let mut first_seq = Vec::new();
    for e in post[..2].iter().filter(|_| !active_cut) {
        match catch_unwind(AssertUnwindSafe(|| rot.append(e))) {
            Ok(Ok(s)) => first_seq.push(s),
            Ok(Err(x)) => return Some(Found { input: format!("{}; then append of an entry stamped {}", ctx, e.timestamp), observed: format!("Err({})", x), required: "Ok: the writer keeps working after a truncation".into() }),
            Err(_) => return Some(Found { input: format!("{}; then append of an entry stamped {}", ctx, e.timestamp), observed: "panic (the file the writer appends to is gone)".into(), required: "Ok: the writer keeps working after a truncation".into() }),
        }
    }
    if let Err(x) = rot.sync() { return Some(Found { input: format!("{}; then 2 appends and sync()", ctx), observed: format!("Err({})", x), required: "Ok".into() }); }
    drop(rot);
    match catch_unwind(AssertUnwindSafe(|| -> Result<(), String> {
        let mut r2 = WalRotator::new(store.clone(), lay.max).map_err(|e| e.to_string())?;
        for e in &post[2..4] { r2.append(e).map_err(|e| e.to_string())?; }
        r2.sync().map_err(|e| e.to_string())
    })) {
        Ok(Ok(())) => {}
        Ok(Err(x)) => return Some(Found { input: format!("{}; then a restart (new rotator on the same store) and 2 appends", ctx), observed: format!("Err({})", x), required: "Ok".into() }),
        Err(_) => return Some(Found { input: format!("{}; then a restart and 2 appends", ctx), observed: "panic".into(), required: "Ok".into() }),
    }
    let fin = match recover(&store) { Ok(a) => a, Err(e) => return Some(Found { input: format!("{}; then 2 appends, a restart, 2 appends, a restart [recovery]", ctx), observed: e, required: "all surviving entries".into() }) };
    let post_ids = eids(post);
    for (i, id) in post_ids.iter().enumerate() {
        // an entry appended behind damage of the active file itself is hidden by that damage (recovery of the file ends there): not required
        if i < 2 && active_cut { continue; }
        let must = i >= 2 || active_complete || first_seq[i] != active;
        if must && count(&fin, id) != 1 {
            return Some(Found { input: format!("{}; then 2 appends through the live writer (files {:?}), a restart, 2 more appends, a restart; recover_all_entries", ctx, first_seq), observed: format!("appended entry #{} (stamp {}) is recovered {} times; stamps recovered: {:?}", i, id.0, count(&fin, id), stamps_of(&fin)), required: "every entry appended after the truncation is recovered exactly once".into() });
        }
    }
    let post_ids: Vec<Eid> = if active_cut { post_ids[2..].to_vec() } else { post_ids };
    let rest: Vec<Eid> = fin.iter().filter(|e| !post_ids.contains(e)).cloned().collect();
    if rest != after {
        return Some(Found { input: format!("{}; then 4 appends and two restarts", ctx), observed: format!("older entries recovered now: stamps {:?}", stamps_of(&rest)), required: format!("the same older entries as right after the truncation: stamps {:?}", stamps_of(&after)) });
    }
    None
}

fn make_layout(rng: &mut Rng, it: u64) -> Option<Layout> {
    let max = [64usize, 120, 200, 500][rng.below(4) as usize];
    let n = 3 + rng.below(9);
    let mut ents: Vec<WalEntry> = make_entries(rng, n, true).into_iter().map(|(_, e)| e).collect();
    // random, non-monotone stamps with duplicates; sometimes the extremes
    for e in ents.iter_mut() { e.timestamp = match rng.below(12) { 0 => 0, 1 if it % 3 == 0 => u64::MAX, _ => 1 + rng.below(60) }; }
    // distinct payloads (identity of an entry = stamp + payload)
    let mut seen = std::collections::HashSet::new();
    ents.retain(|e| seen.insert(crate::deltas::fnv(&e.data)));
    if ents.len() < 2 { return None; }
    let store = InMemoryWalStore::new();
    let mut rot = WalRotator::new(store, max).ok()?;
    let mut file_of = Vec::new();
    for e in &ents { file_of.push(rot.append(e).ok()?); }
    Some(Layout { max, ents, file_of })
}

fn random_damage(rng: &mut Rng, lay: &Layout, same_length: bool) -> Dmg {
    let files = lay.files();
    let seq = if rng.chance(1, 2) { lay.active() } else { *rng.pick(&files) };
    let len = lay.file_len(seq);
    let n_in = lay.in_file(seq).len();
    let role = if seq == lay.active() { "ACTIVE file" } else { "file" };
    match rng.below(if same_length { 5 } else { 7 }) {
        0 => { let bit = rng.below(len as u64 * 8) as usize; Dmg { seq, kind: DmgKind::Flip(bit), what: format!("bit {} (byte {}) of {} {} flipped", bit, bit / 8, role, wname(seq)) } }
        1 | 2 => { let l = 1 + rng.below(8) as usize; let at = rng.below(len as u64) as usize; let b: Vec<u8> = (0..l).map(|_| (rng.next() & 0xff) as u8).collect(); Dmg { seq, kind: DmgKind::Over(at, b.clone()), what: format!("bytes {}.. of {} {} overwritten with {}", at, role, wname(seq), hex(&b)) } }
        3 => { let at = rng.below(len as u64) as usize; let l = 1 + rng.below(40) as usize; Dmg { seq, kind: DmgKind::Over(at, vec![0u8; l]), what: format!("bytes {}..{} of {} {} zero-filled", at, (at + l).min(len), role, wname(seq)) } }
        4 => {
            // payload of entry #j damaged (recovery of the file ends exactly there)
            let j = rng.below(n_in as u64) as usize; let e = lay.in_file(seq)[j];
            let at = lay.entry_off(seq, j) + 16 + rng.below(e.data.len() as u64) as usize; let bit = rng.below(8) as usize;
            Dmg { seq, kind: DmgKind::Flip(at * 8 + bit), what: format!("payload byte {} of entry #{} of {} {} damaged", at, j, role, wname(seq)) }
        }
        5 => { let c = rng.below(len as u64) as usize; Dmg { seq, kind: DmgKind::Cut(c), what: format!("{} {} torn: cut to {} of {} bytes", role, wname(seq), c, len) } }
        _ => { let j = rng.below(n_in as u64) as usize; let c = lay.entry_off(seq, j) + rng.below(lay.in_file(seq)[j].disk_size() as u64) as usize; Dmg { seq, kind: DmgKind::Cut(c), what: format!("{} {} torn inside its entry #{} (cut to {} bytes)", role, wname(seq), j, c) } }
    }
}

fn thresholds(rng: &mut Rng, lay: &Layout, k: usize) -> Vec<u64> {
    let mut cands: Vec<u64> = vec![0, u64::MAX];
    for e in &lay.ents { cands.push(e.timestamp); cands.push(e.timestamp.saturating_sub(1)); cands.push(e.timestamp.saturating_add(1)); }
    (0..k).map(|_| *rng.pick(&cands)).collect()
}

fn check_truncate_damaged(rng: &mut Rng, layouts: u64, seed: u64) -> Option<Found> {
    let mut mem = MemLab;
    for it in 0..layouts {
        let lay = match make_layout(rng, it) { Some(l) => l, None => continue };
        let post = post_entries(rng);
        let active = lay.active();
        let active_max = lay.in_file(active).iter().map(|e| e.timestamp).max().unwrap_or(0);
        // control: no damage
        for t in thresholds(rng, &lay, 3) { if let Some(f) = run_damage_case(&mut mem, &lay, &[], t, &post) { return Some(f); } }
        // every single-bit flip of the 16 header bytes of the ACTIVE file
        for bit in 0..128usize {
            let field = match bit / 8 { 0..=3 => "magic", 4 => "version", 5 => "flags", 6 | 7 => "reserved", _ => "sequence" };
            let d = Dmg { seq: active, kind: DmgKind::Flip(bit), what: format!("bit {} of the 16-byte header of the ACTIVE file {} flipped (byte {}, {} field)", bit, wname(active), bit / 8, field) };
            let mut ts = vec![active_max, u64::MAX]; ts.extend(thresholds(rng, &lay, 1));
            for t in ts { if let Some(f) = run_damage_case(&mut mem, &lay, std::slice::from_ref(&d), t, &post) { return Some(f); } }
        }
        // header flips of the other files
        for seq in lay.files() {
            if seq == active { continue; }
            for _ in 0..12 {
                let bit = rng.below(128) as usize;
                let d = Dmg { seq, kind: DmgKind::Flip(bit), what: format!("bit {} of the header of file {} flipped", bit, wname(seq)) };
                for t in thresholds(rng, &lay, 1) { if let Some(f) = run_damage_case(&mut mem, &lay, std::slice::from_ref(&d), t, &post) { return Some(f); } }
            }
        }
        // the active file holds no readable entry AND its header is damaged (any threshold)
        for _ in 0..6 {
            let e0 = lay.in_file(active)[0];
            let at = 16 + 16 + rng.below(e0.data.len() as u64) as usize;
            let hb = 64 + rng.below(64) as usize;
            let ds = vec![
                Dmg { seq: active, kind: DmgKind::Flip(at * 8 + rng.below(8) as usize), what: format!("payload byte {} of the FIRST entry of the ACTIVE file {} damaged", at, wname(active)) },
                Dmg { seq: active, kind: DmgKind::Flip(hb), what: format!("bit {} of its header (sequence field) flipped", hb) },
            ];
            for t in [0u64, active_max, u64::MAX] { if let Some(f) = run_damage_case(&mut mem, &lay, &ds, t, &post) { return Some(f); } }
        }
        // random damage anywhere, alone or together with a header flip of the active file
        for _ in 0..40 {
            let mut ds = vec![random_damage(rng, &lay, false)];
            if rng.chance(1, 4) { ds.push(random_damage(rng, &lay, false)); }
            if rng.chance(1, 3) { let hb = 40 + rng.below(88) as usize; ds.push(Dmg { seq: active, kind: DmgKind::Flip(hb), what: format!("bit {} of the header of the ACTIVE file {} flipped", hb, wname(active)) }); }
            // cuts last (a cut after an overwrite of the same file keeps offsets meaningful)
            ds.sort_by_key(|d| matches!(d.kind, DmgKind::Cut(_)) as u8);
            let mut ts = thresholds(rng, &lay, 2); if rng.chance(1, 2) { ts.push(active_max); }
            for t in ts { if let Some(f) = run_damage_case(&mut mem, &lay, &ds, t, &post) { return Some(f); } }
        }
    }
    // the production store on a real directory: a sample of the same cases (same-length damage only: the live writer keeps its descriptor)
    let base = std::path::PathBuf::from(format!("/var/tmp/verif-replay-wal-{}-{}", std::process::id(), seed));
    if std::fs::create_dir_all(&base).is_ok() {
        let mut dir = DirLab { base, n: 0, cur: None };
        for it in 0..2u64 {
            let lay = match make_layout(rng, it) { Some(l) => l, None => continue };
            let post = post_entries(rng);
            let active = lay.active();
            let active_max = lay.in_file(active).iter().map(|e| e.timestamp).max().unwrap_or(0);
            if let Some(f) = run_damage_case(&mut dir, &lay, &[], active_max, &post) { return Some(f); }
            let mut bits: Vec<usize> = (0..8).map(|_| 64 + rng.below(64) as usize).collect(); bits.extend((0..3).map(|_| rng.below(64) as usize));
            for bit in bits {
                let d = Dmg { seq: active, kind: DmgKind::Flip(bit), what: format!("bit {} of the 16-byte header of the ACTIVE file {} flipped", bit, wname(active)) };
                let t = if rng.chance(1, 2) { active_max } else { u64::MAX };
                if let Some(f) = run_damage_case(&mut dir, &lay, std::slice::from_ref(&d), t, &post) { return Some(f); }
            }
            for _ in 0..5 {
                let ds = vec![random_damage(rng, &lay, true)];
                for t in thresholds(rng, &lay, 1) { if let Some(f) = run_damage_case(&mut dir, &lay, &ds, t, &post) { return Some(f); } }
            }
        }
    }
    None
}

/// reported finding (C10): a zero-filled region where an entry header is expected (a file tail zero-extended by a crash) decodes as an
/// entry that was never appended (length 0, stamp 0, checksum 0 == crc32 of the empty payload); recover_entries_after then fails as a whole
fn check_zero_header(rng: &mut Rng) -> Option<Found> {
    for it in 0..20u64 {
        let lay = match make_layout(rng, it) { Some(l) => l, None => continue };
        let files = lay.files();
        let seq = *rng.pick(&files);
        let n_in = lay.in_file(seq).len();
        if n_in < 2 { continue; }
        let j = 1 + rng.below(n_in as u64 - 1) as usize; // the first j entries stay intact
        let at = lay.entry_off(seq, j);
        let store = InMemoryWalStore::new();
        let mut rot = WalRotator::new(store.clone(), lay.max).ok()?;
        for e in &lay.ents { rot.append(e).ok()?; }
        let _ = rot.sync();
        let mut img = store.get_file_data(&wname(seq))?;
        for b in img[at..].iter_mut() { *b = 0; }
        let len = img.len();
        store.set_file_data(&wname(seq), img);
        let intact: Vec<Eid> = (0..lay.ents.len()).filter(|&i| lay.file_of[i] != seq || lay.in_file(seq).iter().take(j).any(|e| std::ptr::eq(*e, &lay.ents[i]))).map(|i| (lay.ents[i].timestamp, crate::deltas::fnv(&lay.ents[i].data))).collect();
        let fresh = WalRotator::new(store.clone(), lay.max).ok()?;
        let got = fresh.recover_all_entries().map(|e| eids(&e)).unwrap_or_default();
        let upd = fresh.recover_entries_after(0);
        if got != intact || !matches!(&upd, Ok(d) if d.len() == intact.len()) {
            return Some(Found {
                input: format!("{}; then bytes {}..{} of file {} (from the start of its entry #{} to the end of the file) are zero-filled, as a crash leaves a zero-extended tail; recovery on a new rotator", lay.text(), at, len, wname(seq), j),
                observed: format!("recover_all_entries: {} entries, stamps {:?} ({} entries that were never appended: length 0, stamp 0, checksum 0); recover_entries_after(0): {}", got.len(), stamps_of(&got), got.len().saturating_sub(intact.len()), match &upd { Ok(d) => format!("{} updates", d.len()), Err(e) => format!("Err({}) - no update of ANY file is recovered", e) }),
                required: format!("the {} intact entries (stamps {:?}): recovery of the damaged file ends at its last intact entry, and it hides nothing of the other files", intact.len(), stamps_of(&intact)),
            });
        }
    }
    None
}

/// open finding C10/C14 (lemma_stamp_is_checksummed): the stamp bytes [4,12) of an entry are outside the CRC
fn check_stamp_covered(rng: &mut Rng) -> Option<Found> {
    for (_, e) in make_entries(rng, 8, true) {
        let img = e.encode();
        for bit in [0usize, 7, 13, 63] {
            let mut d = img.clone();
            d[4 + bit / 8] ^= 1 << (bit % 8);
            if let Ok(Some((g, n))) = decode(&d) {
                if !same_entry(&g, &e) {
                    return Some(Found { input: format!("entry {} with bit {} of its stamp field (bytes 4..12) flipped", show_entry(&e), bit),
                        observed: format!("decode accepts it ({} bytes) as {}", n, show_entry(&g)),
                        required: "None (corruption detected) or the entry that was written".into() });
                }
            }
        }
    }
    None
}

pub fn search(_pid: &str, oid: &str, seed: u64) -> Option<Found> {
    let mut rng = Rng::new(seed + 10);
    let f = oid.split('/').nth(1).unwrap_or("");
    if oid.contains("stamp_is_checksummed") { return check_stamp_covered(&mut rng); }
    if oid.contains("zero_header") { return check_zero_header(&mut rng); }
    if f.starts_with("WalRotator") || oid.starts_with("wal_files/") {
        if let Some(x) = check_rotator(&mut rng, 300) { return Some(x); }
        if let Some(x) = check_truncate_damaged(&mut Rng::new(seed + 7010), 6, seed) { return Some(x); }
    }
    if f.starts_with("WalReader") { if let Some(x) = check_reader(&mut rng, 600) { return Some(x); } }
    if let Some(x) = check_roundtrip(&mut rng, 400) { return Some(x); }
    if let Some(x) = check_damage(&mut rng, 40) { return Some(x); }
    if let Some(x) = check_reader(&mut rng, 1500) { return Some(x); }
    if let Some(x) = check_rotator(&mut rng, 600) { return Some(x); }
    if !(f.starts_with("WalRotator") || oid.starts_with("wal_files/")) { if let Some(x) = check_truncate_damaged(&mut Rng::new(seed + 7010), 6, seed) { return Some(x); } }
    None
}
