//! Unit `sim_substrate` (C20, "simulation is reproducible: same seed, same trace, same verdict"): a STANDING battery at the
//! harness level, which no function contract of the substrate decides.  `dump(seed)` runs every built-in simulation / DST
//! harness of redis_sim (executor, list/set/hash/sorted-set, transaction, CRDT x4, streaming, compaction, WAL, connection,
//! scenario harness, discrete-event executor, SimulationContext timers, multi-node broadcast + partitioned, partition tests,
//! simulator/dst.rs, dst_integration) for every preset and a small seed set (fixed 1 7 42 1234 99999 + two derived from the
//! battery seed) and renders ONE canonical text: traces, final states, counters and verdicts in the order the harness
//! exposes them (vectors and traces as they are; a map-valued RESULT FIELD is rendered sorted by key, because its iteration
//! order is not part of its value).  `search`:
//!   1. spawns this executable three times with the hidden sub-command `__sim_substrate_dump <seed>` (fresh processes:
//!      fresh hash seeds, fresh allocator and thread-local state);
//!   2. computes the dump twice in THIS process, one after the other on the same thread (the second run sees whatever the
//!      first left in thread-local state; its last harness is a DSTSimulation over FaultConfig::disabled());
//!   3. compares run 2 and each child's output with run 1, line by line.  The FIRST differing line is the finding:
//!      required = identical dump for the same seed.
//! The cases that exposed the four defects found by the probe of unit sim_substrate are always part of the battery:
//!   D1 MultiNodeSimulation::new_partitioned seeds 1234 / 99999 (routing HashMap iterated while drawing),
//!   D2 DSTSimulation chaos (crashed_nodes() in HashMap order while drawing),
//!   D3 streaming_dst chaos/1234, compaction / WAL chaos after a disabled-config DSTSimulation on the same thread,
//!   D4 SimulationResult.buggify_stats of a repeated DSTSimulation (cumulative thread-local statistics).
//! Wall time is dominated by the REAL `tokio::time::sleep` of the simulated object store (chaos: 1..100 ms per call), so the
//! streaming / compaction cases are few; everything else is CPU-cheap.
#![allow(clippy::all)]
use crate::Found;
use std::cell::RefCell;
use std::collections::HashMap;
use std::fmt::Debug;
use std::hash::Hash;
use std::sync::{Arc, Mutex};

use redis_sim::buggify::FaultConfig;
use redis_sim::io::simulation::{NodeId, SimulatedRng, SimulationContext};
use redis_sim::io::{Rng, Timestamp};
use redis_sim::redis::{Command, SDS};
use redis_sim::simulator::{Duration, HostId, VirtualTime};

thread_local! {
    static BUF: RefCell<String> = RefCell::new(String::new());
}
fn out(tag: &str, field: &str, v: impl std::fmt::Display) {
    BUF.with(|b| {
        use std::fmt::Write;
        let _ = writeln!(b.borrow_mut(), "{} | {} | {}", tag, field, v);
    });
}
fn dbg<T: Debug>(v: &T) -> String {
    format!("{:?}", v)
}
fn map_sorted<K: Debug + Ord + Hash + Eq, V: Debug>(m: &HashMap<K, V>) -> String {
    let mut v: Vec<_> = m.iter().collect();
    v.sort_by(|a, b| a.0.cmp(b.0));
    format!("{:?}", v)
}

// ---------------------------------------------------------------------------------------------------------------------
// redis-level harnesses
// ---------------------------------------------------------------------------------------------------------------------
fn h_executor(seeds: &[u64]) {
    use redis_sim::redis::{ExecutorDSTConfig, ExecutorDSTHarness};
    let presets: [(&str, fn(u64) -> ExecutorDSTConfig); 4] = [
        ("new", ExecutorDSTConfig::new),
        ("calm", ExecutorDSTConfig::calm),
        ("chaos", ExecutorDSTConfig::chaos),
        ("string_heavy", ExecutorDSTConfig::string_heavy),
    ];
    for &s in seeds {
        for (pn, cf) in presets.iter() {
            let tag = format!("executor_dst/{}/{}", pn, s);
            let mut h = ExecutorDSTHarness::new(cf(s));
            h.run(1500);
            let r = h.result();
            out(&tag, "summary", r.summary());
            out(&tag, "verdict", r.is_success());
            out(&tag, "result", dbg(r));
        }
    }
}

fn h_list(seeds: &[u64]) {
    use redis_sim::redis::{ListDSTConfig, ListDSTHarness};
    let presets: [(&str, fn(u64) -> ListDSTConfig); 3] = [
        ("new", ListDSTConfig::new),
        ("high_churn", ListDSTConfig::high_churn),
        ("modify_heavy", ListDSTConfig::modify_heavy),
    ];
    for &s in seeds {
        for (pn, cf) in presets.iter() {
            let tag = format!("list_dst/{}/{}", pn, s);
            let mut h = ListDSTHarness::new(cf(s));
            h.run(1000);
            out(&tag, "summary", h.result().summary());
            out(&tag, "result", dbg(h.result()));
            out(&tag, "final_state", dbg(h.list()));
        }
    }
}

fn h_set(seeds: &[u64]) {
    use redis_sim::redis::{SetDSTConfig, SetDSTHarness};
    let presets: [(&str, fn(u64) -> SetDSTConfig); 4] = [
        ("new", SetDSTConfig::new),
        ("small_members", SetDSTConfig::small_members),
        ("high_churn", SetDSTConfig::high_churn),
        ("large_members", SetDSTConfig::large_members),
    ];
    for &s in seeds {
        for (pn, cf) in presets.iter() {
            let tag = format!("set_dst/{}/{}", pn, s);
            let mut h = SetDSTHarness::new(cf(s));
            h.run(1000);
            out(&tag, "summary", h.result().summary());
            out(&tag, "result", dbg(h.result()));
            let mut members: Vec<String> = h.set().members().iter().map(|m| dbg(m)).collect();
            members.sort();
            out(&tag, "final_members_sorted", dbg(&members));
        }
    }
}

fn h_hash(seeds: &[u64]) {
    use redis_sim::redis::{HashDSTConfig, HashDSTHarness};
    let presets: [(&str, fn(u64) -> HashDSTConfig); 3] = [
        ("new", HashDSTConfig::new),
        ("small_fields", HashDSTConfig::small_fields),
        ("high_churn", HashDSTConfig::high_churn),
    ];
    for &s in seeds {
        for (pn, cf) in presets.iter() {
            let tag = format!("hash_dst/{}/{}", pn, s);
            let mut h = HashDSTHarness::new(cf(s));
            h.run(1000);
            out(&tag, "summary", h.result().summary());
            out(&tag, "result", dbg(h.result()));
        }
    }
}

fn h_zset(seeds: &[u64]) {
    use redis_sim::redis::{SortedSetDSTConfig, SortedSetDSTHarness};
    let presets: [(&str, fn(u64) -> SortedSetDSTConfig); 3] = [
        ("new", SortedSetDSTConfig::new),
        ("small_keyspace", SortedSetDSTConfig::small_keyspace),
        ("large_keyspace", SortedSetDSTConfig::large_keyspace),
    ];
    for &s in seeds {
        for (pn, cf) in presets.iter() {
            let tag = format!("sorted_set_dst/{}/{}", pn, s);
            let mut h = SortedSetDSTHarness::new(cf(s));
            h.run(1000);
            out(&tag, "summary", h.result().summary());
            out(&tag, "result", dbg(h.result()));
        }
    }
}

fn h_transaction(seeds: &[u64]) {
    use redis_sim::redis::{TransactionDSTConfig, TransactionDSTHarness};
    let presets: [(&str, fn(u64) -> TransactionDSTConfig); 3] = [
        ("new", TransactionDSTConfig::new),
        ("high_conflict", TransactionDSTConfig::high_conflict),
        ("error_heavy", TransactionDSTConfig::error_heavy),
    ];
    for &s in seeds {
        for (pn, cf) in presets.iter() {
            let tag = format!("transaction_dst/{}/{}", pn, s);
            let mut h = TransactionDSTHarness::new(cf(s));
            h.run(500);
            out(&tag, "summary", h.result().summary());
            out(&tag, "verdict", h.result().is_success());
            out(&tag, "result", dbg(h.result()));
        }
    }
}

// ---------------------------------------------------------------------------------------------------------------------
// CRDT DST (all four types)
// ---------------------------------------------------------------------------------------------------------------------
fn crdt_dump(tag: &str, r: &redis_sim::replication::crdt_dst::CRDTDSTResult) {
    out(tag, "summary", r.summary());
    out(tag, "verdict", r.is_success());
    out(tag, "total_operations", r.total_operations);
    out(tag, "ops_per_replica_sorted", map_sorted(&r.ops_per_replica));
    out(tag, "syncs_performed", r.syncs_performed);
    out(tag, "messages_dropped", r.messages_dropped);
    out(tag, "converged", r.converged);
    out(tag, "invariant_violations", dbg(&r.invariant_violations));
}

fn h_crdt(seeds: &[u64]) {
    use redis_sim::replication::crdt_dst::*;
    let presets: [(&str, fn(u64) -> CRDTDSTConfig); 3] = [
        ("calm", CRDTDSTConfig::calm),
        ("moderate", CRDTDSTConfig::moderate),
        ("chaos", CRDTDSTConfig::chaos),
    ];
    for &s in seeds {
        for (pn, cf) in presets.iter() {
            let mut h = GCounterDSTHarness::new(cf(s));
            h.run(300);
            crdt_dump(&format!("crdt_gcounter/{}/{}", pn, s), h.result());
            let mut h = PNCounterDSTHarness::new(cf(s));
            h.run(300);
            crdt_dump(&format!("crdt_pncounter/{}/{}", pn, s), h.result());
            let mut h = ORSetDSTHarness::new(cf(s));
            h.run(300);
            crdt_dump(&format!("crdt_orset/{}/{}", pn, s), h.result());
            let mut h = VectorClockDSTHarness::new(cf(s));
            h.run(300);
            crdt_dump(&format!("crdt_vectorclock/{}/{}", pn, s), h.result());
        }
    }
}

// ---------------------------------------------------------------------------------------------------------------------
// streaming / compaction / WAL
// ---------------------------------------------------------------------------------------------------------------------
fn h_streaming(cases: &[(&str, u64, usize)], rt: &tokio::runtime::Runtime) {
    use redis_sim::streaming::{StreamingDSTConfig, StreamingDSTHarness};
    let presets: [(&str, fn(u64) -> StreamingDSTConfig); 3] = [
        ("calm", StreamingDSTConfig::calm),
        ("moderate", StreamingDSTConfig::moderate),
        ("chaos", StreamingDSTConfig::chaos),
    ];
    for &(want, s, ops) in cases {
        for (pn, cf) in presets.iter().filter(|p| p.0 == want) {
            let tag = format!("streaming_dst/{}/{}", pn, s);
            let r = rt.block_on(async {
                let mut h = StreamingDSTHarness::new(cf(s)).await;
                h.run(ops).await;
                h.check_invariants().await;
                h.into_result()
            });
            out(&tag, "summary", r.summary());
            out(&tag, "verdict", r.is_success());
            out(&tag, "store_stats", dbg(&r.store_stats));
            out(&tag, "invariant_violations", dbg(&r.invariant_violations));
            out(&tag, "history_len", r.history.len());
            for op in &r.history {
                out(&tag, "trace", dbg(op));
            }
        }
    }
}

fn h_compaction(cases: &[(&str, u64, usize)], rt: &tokio::runtime::Runtime) {
    use redis_sim::streaming::compaction_dst::{CompactionDSTConfig, CompactionDSTHarness};
    let presets: [(&str, fn(u64) -> CompactionDSTConfig); 4] = [
        ("new", CompactionDSTConfig::new),
        ("calm", CompactionDSTConfig::calm),
        ("aggressive", CompactionDSTConfig::aggressive),
        ("chaos", CompactionDSTConfig::chaos),
    ];
    for &(want, s, ops) in cases {
        for (pn, cf) in presets.iter().filter(|p| p.0 == want) {
            let tag = format!("compaction_dst/{}/{}", pn, s);
            let r = rt.block_on(async {
                let mut h = CompactionDSTHarness::new(cf(s)).await;
                h.run(ops).await;
                h.check_invariants().await;
                h.into_result()
            });
            out(&tag, "summary", r.summary());
            out(&tag, "verdict", r.is_success());
            out(&tag, "store_stats", dbg(&r.store_stats));
            out(&tag, "invariant_violations", dbg(&r.invariant_violations));
            out(&tag, "history_len", r.history.len());
            for op in &r.history {
                out(&tag, "trace", dbg(op));
            }
        }
    }
}

fn h_wal(seeds: &[u64]) {
    use redis_sim::streaming::wal_dst::{WalDSTConfig, WalDSTHarness};
    let presets: [(&str, fn() -> WalDSTConfig); 4] = [
        ("default", WalDSTConfig::default),
        ("baseline", WalDSTConfig::baseline),
        ("crash_only", WalDSTConfig::crash_only),
        ("chaos", WalDSTConfig::chaos),
    ];
    for &s in seeds {
        for (pn, cf) in presets.iter() {
            let tag = format!("wal_dst/{}/{}", pn, s);
            let mut h = WalDSTHarness::new(s, cf());
            let r = h.run();
            out(&tag, "verdict", r.passed);
            out(&tag, "result", dbg(&r));
        }
    }
}

// ---------------------------------------------------------------------------------------------------------------------
// connection harness, scenario harness, discrete-event executor, simulated clock
// ---------------------------------------------------------------------------------------------------------------------
fn h_connection(seeds: &[u64]) {
    use redis_sim::simulator::connection::{PipelineSimulator, SimulatedConnection};
    for &s in seeds {
        let tag = format!("connection/pipeline/{}", s);
        let mut p = PipelineSimulator::new(s).with_sizes(vec![1, 2, 4, 8, 16, 32, 64]);
        p.run();
        out(&tag, "summary", p.summary().replace('\n', " // "));
        out(&tag, "results", dbg(&p.results));

        let tag = format!("connection/partial_reads/{}", s);
        let mut c = SimulatedConnection::new(s).with_partial_reads(0.5);
        let cmds: Vec<Command> = (0..40)
            .map(|i| Command::set(format!("k{}", i % 7), SDS::from_str(&format!("v{}", i))))
            .collect();
        c.send_pipeline(cmds);
        let resp = c.process();
        out(&tag, "responses", dbg(&resp));
        out(&tag, "flush_count", c.flush_count());
        out(&tag, "bytes_per_flush", dbg(&c.bytes_per_flush()));
        out(&tag, "commands_executed", c.commands_executed());
        out(&tag, "history", dbg(&c.history()));
    }
}

fn h_scenario(seeds: &[u64]) {
    use redis_sim::simulator::ScenarioBuilder;
    for &s in seeds {
        // (a) harness buggify delays on, strictly spaced operation times (the harness's own delay of 1..9 ms combined with
        //     equal operation times trips its debug_assert "Time cannot go backwards" - deterministic, not a C20 matter)
        // (b) equal operation times, no buggify: order must be the insertion order (stable sort)
        for (pn, bug, div) in [("buggify0.3_spaced", true, 1u64), ("equal_times", false, 3u64)] {
            let tag = format!("scenario/{}/{}", pn, s);
            let mut b = ScenarioBuilder::new(s);
            if bug {
                b = b.with_buggify(0.3);
            }
            for i in 0..60u64 {
                let cmd = if i % 5 == 4 {
                    Command::del(format!("k{}", i % 6))
                } else {
                    Command::set(format!("k{}", i % 6), SDS::from_str(&format!("v{}", i)))
                };
                b = b.at_time((i / div) * 10).client((i % 3) as usize, cmd);
            }
            let mut h = if bug { b.run() } else { b.run_with_eviction(25) };
            out(&tag, "current_time", dbg(&h.current_time()));
            out(&tag, "history", dbg(&h.history()));
            out(&tag, "rng_next", h.rng().next_u64());
        }
    }
}

fn h_sim_executor(seeds: &[u64]) {
    use redis_sim::simulator::{EventType, Simulation, SimulationConfig};
    for &s in seeds {
        let tag = format!("sim_executor/timers+messages/{}", s);
        let mut sim = Simulation::new(SimulationConfig {
            seed: s,
            max_time: VirtualTime::from_millis(2_000),
            simulation_start_epoch: 0,
        });
        let hs: Vec<HostId> = (0..4).map(|i| sim.add_host(format!("h{}", i))).collect();
        sim.set_network_drop_rate(0.2);
        for i in 0..24usize {
            sim.schedule_timer(hs[i % 4], Duration::from_millis(((i / 6) * 10) as u64)); // 6 timers per deadline
        }
        let mut trace: Vec<String> = Vec::new();
        let mut budget = 400usize;
        sim.run(|sm, ev| {
            trace.push(format!("{:?}@{:?}:{:?}", ev.time, ev.host_id, ev.event_type));
            if budget == 0 {
                return;
            }
            budget -= 1;
            match &ev.event_type {
                EventType::Timer(t) => {
                    let to = HostId(((ev.host_id.0) + 1) % 4);
                    sm.send_message(ev.host_id, to, vec![(t.0 % 256) as u8]);
                    let d = sm.rng().gen_range(0, 4) * 5; // many equal deadlines
                    sm.schedule_timer(ev.host_id, Duration::from_millis(d + 5));
                }
                EventType::NetworkMessage(m) => {
                    if m.payload[0] % 3 == 0 {
                        sm.send_message(m.to, m.from, vec![m.payload[0].wrapping_add(1)]);
                    }
                }
                EventType::HostStart => {}
            }
        });
        out(&tag, "events", trace.len());
        out(&tag, "final_time", dbg(&sim.current_time()));
        for (i, t) in trace.iter().enumerate() {
            out(&tag, &format!("trace[{}]", i), t);
        }
    }
}

struct LogWaker {
    label: u64,
    log: Arc<Mutex<Vec<u64>>>,
}
impl std::task::Wake for LogWaker {
    fn wake(self: Arc<Self>) {
        self.log.lock().unwrap().push(self.label);
    }
}

fn h_simctx(seeds: &[u64]) {
    for &s in seeds {
        let tag = format!("simctx/timers/{}", s);
        let ctx = SimulationContext::new(s, FaultConfig::calm());
        let mut rng = SimulatedRng::new(s);
        let log = Arc::new(Mutex::new(Vec::new()));
        let mut ids = Vec::new();
        for label in 0..40u64 {
            let deadline = rng.gen_range(0, 5) * 10; // 5 distinct deadlines, 8 timers each on average
            let w: std::task::Waker = Arc::new(LogWaker { label, log: log.clone() }).into();
            let id = ctx.add_timer(Timestamp::from_millis(deadline), w);
            ids.push((label, id, deadline));
        }
        out(&tag, "timers(label,id,deadline)", dbg(&ids));
        out(&tag, "next_timer_time", dbg(&ctx.next_timer_time()));
        let mut fired = Vec::new();
        for step in 0..6u64 {
            ctx.advance_to(Timestamp::from_millis(step * 10));
            ctx.process_timers();
            let now_fired: Vec<u64> = log.lock().unwrap().drain(..).collect();
            fired.push((ctx.now().as_millis(), now_fired));
        }
        out(&tag, "fire_order", dbg(&fired));
        ctx.set_clock_offset(
            NodeId(1),
            redis_sim::io::simulation::ClockOffset { fixed_offset_ms: -30, drift_ppm: 500, drift_anchor: Timestamp::ZERO },
        );
        out(&tag, "local_time", dbg(&(ctx.local_time(NodeId(0)), ctx.local_time(NodeId(1)), ctx.next_id())));
    }
}

// ---------------------------------------------------------------------------------------------------------------------
// multi-node simulation, partition tests
// ---------------------------------------------------------------------------------------------------------------------
fn multinode_drive(tag: &str, mut sim: redis_sim::simulator::MultiNodeSimulation, n: usize) {
    let nkeys = 23usize;
    for step in 0..240usize {
        let node = (step * 7) % n;
        let key = format!("k{}", (step * 5) % nkeys);
        let cmd = if step % 11 == 10 {
            Command::del(key)
        } else {
            Command::set(key, SDS::from_str(&format!("v{}-{}", step, node)))
        };
        let resp = sim.execute(step % 3, node, cmd);
        if step < 5 {
            out(tag, &format!("resp[{}]", step), dbg(&resp));
        }
        if step % 60 == 20 {
            sim.partition(0, n - 1);
            sim.partition(1, n - 1);
        }
        if step % 60 == 50 {
            sim.heal_partition(0, n - 1);
            sim.heal_partition(1, n - 1);
        }
        sim.advance_time_ms(3);
        sim.gossip_round();
        let q: Vec<String> = sim
            .message_queue
            .iter()
            .map(|m| {
                format!(
                    "{}->{}@{}:{:?}",
                    m.from,
                    m.to,
                    m.delivery_time.as_millis(),
                    m.deltas.iter().map(|d| d.key.clone()).collect::<Vec<_>>()
                )
            })
            .collect();
        out(tag, &format!("queue[{}]", step), dbg(&q));
    }
    let mid: Vec<Vec<Option<String>>> = (0..nkeys).map(|k| sim.get_all_values(&format!("k{}", k))).collect();
    for (k, v) in mid.iter().enumerate() {
        out(tag, &format!("values_before_converge[k{}]", k), dbg(v));
    }
    sim.converge(30);
    let fin: Vec<Vec<Option<String>>> = (0..nkeys).map(|k| sim.get_all_values(&format!("k{}", k))).collect();
    for (k, v) in fin.iter().enumerate() {
        out(tag, &format!("values_after_converge[k{}]", k), dbg(v));
    }
    let conv: Vec<bool> = (0..nkeys).map(|k| sim.check_key_convergence(&format!("k{}", k))).collect();
    out(tag, "verdict_converged", dbg(&conv));
    out(tag, "history_len", sim.history.len());
    out(tag, "anti_entropy_syncs", sim.anti_entropy_syncs);
    out(tag, "current_time", dbg(&sim.current_time));
    out(tag, "rng_next", sim.rng.next_u64());
    let lin = redis_sim::simulator::check_single_key_linearizability(&sim.history, "k0");
    out(tag, "linearizability_k0", dbg(&lin));
}

fn h_multinode(seeds: &[u64]) {
    use redis_sim::simulator::MultiNodeSimulation;
    for &s in seeds {
        multinode_drive(
            &format!("multi_node/broadcast5_loss0.2/{}", s),
            MultiNodeSimulation::new(5, s).with_packet_loss(0.2).with_message_delay(1, 12),
            5,
        );
        multinode_drive(
            &format!("multi_node/partitioned5_rf3_loss0.2/{}", s),
            MultiNodeSimulation::new_partitioned(5, 3, s).with_packet_loss(0.2).with_message_delay(1, 12),
            5,
        );
    }
}

fn h_partition(seeds: &[u64]) {
    use redis_sim::simulator::{run_partition_test, PartitionConfig};
    for &s in seeds {
        let cfgs = vec![
            ("isolate", PartitionConfig::isolate_node(0, 5)),
            ("split_brain", PartitionConfig::split_brain(vec![0, 1], vec![2, 3, 4])),
            ("ring", PartitionConfig::ring(5)),
            ("asymmetric", PartitionConfig::asymmetric(0, 4)),
        ];
        for (pn, cfg) in cfgs {
            let tag = format!("partition_tests/{}/{}", pn, s);
            let r = run_partition_test(
                pn,
                5,
                s,
                cfg,
                vec![(0, "key1", "value_from_0"), (4, "key1", "value_from_last"), (2, "key2", "x")],
                vec![(0, "key1", "final_value"), (3, "key2", "y")],
                50,
            );
            out(&tag, "result", dbg(&r));
        }
    }
}

// ---------------------------------------------------------------------------------------------------------------------
// simulator/dst.rs  and  simulator/dst_integration.rs
// ---------------------------------------------------------------------------------------------------------------------
fn sim_result_dump(tag: &str, r: &redis_sim::simulator::SimulationResult) {
    out(tag, "summary", r.summary());
    out(tag, "verdict", r.is_success());
    out(tag, "total_time_ms", r.total_time_ms);
    out(tag, "total_operations", r.total_operations);
    out(tag, "operations_by_type_sorted", map_sorted(&r.operations_by_type));
    out(tag, "crashes", r.crashes);
    out(tag, "recoveries", r.recoveries);
    out(tag, "buggify_checks_sorted", map_sorted(&r.buggify_stats.checks));
    out(tag, "buggify_triggers_sorted", map_sorted(&r.buggify_stats.triggers));
    out(tag, "buggify_summary", r.buggify_stats.summary().replace('\n', " // "));
    out(tag, "linearizable", r.linearizable);
    out(tag, "converged", r.converged);
    out(tag, "errors", dbg(&r.errors));
    out(tag, "operation_history_len", r.operation_history.len());
    for (i, op) in r.operation_history.iter().enumerate() {
        out(tag, &format!("op[{}]", i), dbg(op));
    }
}

fn crash_dump(tag: &str, cs: &redis_sim::simulator::CrashSimulator, nodes: usize) {
    let st = cs.stats();
    out(tag, "crash.total_crashes", st.total_crashes);
    out(tag, "crash.total_recoveries", st.total_recoveries);
    out(tag, "crash.by_reason_sorted", map_sorted(&st.crashes_by_reason));
    out(tag, "crash.state_loss_events", st.total_state_loss_events);
    out(tag, "crash.average_recovery_time_ms", st.average_recovery_time_ms);
    let states: Vec<String> = (0..nodes).map(|i| dbg(&cs.get_state(HostId(i)))).collect();
    out(tag, "node_states", dbg(&states));
}

fn h_dst(seeds: &[u64]) {
    use redis_sim::simulator::{DSTConfig, DSTSimulation};
    let presets: [(&str, fn(u64) -> DSTConfig); 3] =
        [("calm", DSTConfig::calm), ("new", DSTConfig::new), ("chaos", DSTConfig::chaos)];
    for &s in seeds {
        for (pn, cf) in presets.iter() {
            let tag = format!("simulator_dst/{}/{}", pn, s);
            let mut sim = DSTSimulation::with_config(cf(s));
            // per-step observation = the operation trace of this harness
            let nodes = sim.config().node_count;
            let mut steps: Vec<String> = Vec::new();
            for _ in 0..3000 {
                sim.step();
                let running: Vec<u8> = (0..nodes).map(|i| sim.is_node_running(i) as u8).collect();
                steps.push(format!("{}:{:?}", sim.current_time().as_millis(), running));
                if sim.current_time().0 >= sim.config().max_time_ms {
                    break;
                }
            }
            // the trace first, so that the first differing line names the first step at which two runs part
            for (i, st) in steps.iter().enumerate() {
                out(&tag, &format!("step[{}] time_ms:running_flags", i), st);
            }
            let r = sim.finalize().clone();
            sim_result_dump(&tag, &r);
            crash_dump(&tag, sim.crash_simulator(), nodes);
            out(&tag, "rng_next", sim.rng().next_u64());
        }
    }
}

fn h_dst_disabled(seeds: &[u64]) {
    use redis_sim::simulator::{DSTConfig, DSTSimulation};
    for &s in seeds {
        let tag = format!("simulator_dst/faults_disabled/{}", s);
        let mut sim = DSTSimulation::with_config(DSTConfig::new(s).with_faults(FaultConfig::disabled()));
        let r = sim.run_operations(500).clone();
        sim_result_dump(&tag, &r);
    }
}

fn h_redis_dst(seeds: &[u64]) {
    use redis_sim::simulator::dst_integration::RedisDSTSimulation;
    for &s in seeds {
        for (pn, fc) in [("moderate", FaultConfig::moderate()), ("chaos", FaultConfig::chaos())] {
            let tag = format!("redis_dst_integration/{}/{}", pn, s);
            let mut sim = RedisDSTSimulation::new(s, 5).with_faults(fc);
            let r = sim.run(600).clone();
            sim_result_dump(&tag, &r);
            out(&tag, "check_convergence", sim.check_convergence());
            out(&tag, "stats", dbg(&sim.stats()));
        }
    }
}


fn splitmix(x: u64) -> u64 {
    let mut z = x.wrapping_add(0x9E3779B97F4A7C15);
    z = (z ^ (z >> 30)).wrapping_mul(0xBF58476D1CE4E5B9);
    z = (z ^ (z >> 27)).wrapping_mul(0x94D049BB133111EB);
    z ^ (z >> 31)
}

fn guarded(name: &str, f: impl FnOnce()) {
    let t0 = std::time::Instant::now();
    if std::panic::catch_unwind(std::panic::AssertUnwindSafe(f)).is_err() {
        out(name, "PANIC", "the harness driver panicked");
    }
    if std::env::var("SIM_SUBSTRATE_TIMING").is_ok() {
        eprintln!("sim_substrate timing: {:<14} {:>7.2}s", name, t0.elapsed().as_secs_f64());
    }
}

/// One canonical rendering of everything the built-in harnesses expose, for the seed set of this battery seed.
pub fn dump(seed: u64) -> String {
    BUF.with(|b| b.borrow_mut().clear());
    let d1 = splitmix(seed) % 1_000_000;
    let d2 = splitmix(seed ^ 0xC20) % 1_000_000;
    let all: Vec<u64> = vec![1, 7, 42, 1234, 99999, d1, d2];
    let rt = tokio::runtime::Builder::new_current_thread().enable_all().build().expect("runtime");
    out("battery", "seeds", dbg(&all));
    guarded("executor", || h_executor(&all));
    guarded("list", || h_list(&all));
    guarded("set", || h_set(&all));
    guarded("hash", || h_hash(&all));
    guarded("zset", || h_zset(&all));
    guarded("transaction", || h_transaction(&all));
    guarded("crdt", || h_crdt(&all));
    // real sleeps inside: few cases.  chaos/1234 (300 ops) is the case whose VERDICT depended on the thread's buggify state.
    guarded("streaming", || h_streaming(&[("chaos", 1234, 300), ("moderate", 7, 120), ("calm", d1, 120)], &rt));
    guarded("compaction", || h_compaction(&[("chaos", 1, 100), ("new", 42, 100), ("aggressive", d1, 60), ("calm", 7, 60)], &rt));
    guarded("wal", || h_wal(&all));
    guarded("connection", || h_connection(&all));
    guarded("scenario", || h_scenario(&all));
    guarded("sim_executor", || h_sim_executor(&all));
    guarded("simctx", || h_simctx(&all));
    guarded("multinode", || h_multinode(&[1, 1234, 99999, d1]));
    guarded("partition", || h_partition(&all));
    guarded("dst", || h_dst(&[1, 7, 42, d1]));
    guarded("redis_dst", || h_redis_dst(&[1, 7, d1]));
    // LAST: a legitimate preset that leaves `enabled = false` in the thread-local buggify configuration; the second in-process
    // run of the battery starts from that state
    guarded("dst_disabled", || h_dst_disabled(&[1, d1]));
    BUF.with(|b| std::mem::take(&mut *b.borrow_mut()))
}

fn clip(s: &str) -> String {
    let n = 600;
    if s.chars().count() <= n { s.to_string() } else { let t: String = s.chars().take(n).collect(); format!("{} ...[{} chars]", t, s.chars().count()) }
}

/// first differing line of two dumps: (line number, line of a, line of b)
fn first_diff(a: &str, b: &str) -> Option<(usize, String, String)> {
    let mut ia = a.lines();
    let mut ib = b.lines();
    let mut n = 0usize;
    loop {
        n += 1;
        match (ia.next(), ib.next()) {
            (None, None) => return None,
            (Some(x), Some(y)) if x == y => continue,
            (x, y) => return Some((n, x.unwrap_or("<end of dump>").to_string(), y.unwrap_or("<end of dump>").to_string())),
        }
    }
}

fn finding(kind: &str, seed: u64, d: (usize, String, String)) -> Found {
    let (n, x, y) = d;
    // harness/preset/seed | field | value
    let mut px = x.splitn(3, " | ");
    let tag = px.next().unwrap_or("").to_string();
    let field = px.next().unwrap_or("").to_string();
    // where the two values part
    let at = x.chars().zip(y.chars()).take_while(|(p, q)| p == q).count();
    let ctx = |s: &str| -> String {
        let from = at.saturating_sub(120);
        let t: String = s.chars().skip(from).take(360).collect();
        if from > 0 { format!("...{}", t) } else { t }
    };
    Found {
        input: format!("battery seed {}; harness/preset/seed = {}; field = {}; comparison = {} (dump line {})", seed, tag, field, kind, n),
        observed: format!("run A: {}  ||  run B: {}  ||  values part at char {}: A `{}` vs B `{}`", clip(&x), clip(&y), at, ctx(&x), ctx(&y)),
        required: "identical dump for the same seed (same trace, final state, counters and verdict from every built-in harness, in this process twice and in a fresh process)".to_string(),
    }
}


/// The thread-local fault configuration must be REPLACED by `set_config`, never merged: whatever configuration a previous
/// simulation installed on this thread, after `set_config(B)` every `should_buggify` decision and the number of words it
/// draws are those of a fresh thread that only ever saw `set_config(B)` (seed C20-1: an in-place `extend` kept the
/// probabilities of fault ids B does not list).  Each (A, B) pair runs on its own fresh thread.
fn config_isolation(seed: u64) -> Option<Found> {
    use redis_sim::buggify::{self, FaultConfig, ALL_FAULTS};
    fn preset(n: &str) -> FaultConfig {
        match n { "disabled" => FaultConfig::disabled(), "calm" => FaultConfig::calm(), "moderate" => FaultConfig::moderate(), "chaos" => FaultConfig::chaos(), _ => FaultConfig::new() }
    }
    fn trace(first: Option<&'static str>, second: &'static str, seed: u64) -> Vec<String> {
        std::thread::spawn(move || {
            if let Some(a) = first { buggify::set_config(preset(a)); }
            buggify::set_config(preset(second));
            buggify::reset_stats();
            let mut out = Vec::new();
            for id in ALL_FAULTS.iter() {
                let mut rng = SimulatedRng::new(seed ^ 0x5eed);
                let mut fired = 0u32;
                for _ in 0..400 { if buggify::should_buggify(&mut rng, id) { fired += 1; } }
                // the generator's position afterwards tells how many words the 400 checks drew
                let pos = { use redis_sim::io::Rng; rng.next_u64() };
                out.push(format!("{}: fired {} of 400, generator then yields {}", id, fired, pos));
            }
            out
        }).join().unwrap_or_default()
    }
    const P: [&str; 5] = ["disabled", "calm", "moderate", "chaos", "new"];
    for b in P {
        let fresh = trace(None, b, seed);
        for a in P {
            if a == b { continue; }
            let after = trace(Some(a), b, seed);
            if let Some(k) = (0..fresh.len().max(after.len())).find(|k| fresh.get(*k) != after.get(*k)) {
                return Some(Found {
                    input: format!("thread 1: set_config({}); thread 2: set_config({}) then set_config({}); on each thread 400 x should_buggify(SimulatedRng::new({}), id) for every fault id", b, a, b, seed ^ 0x5eed),
                    observed: format!("after {} then {}: {}  |  fresh thread with {} only: {}", a, b, after.get(k).cloned().unwrap_or_default(), b, fresh.get(k).cloned().unwrap_or_default()),
                    required: "identical decisions and generator position: a simulation's fault configuration is the one it installed, not a mixture with what ran before on the thread".into(),
                });
            }
        }
    }
    None
}

pub fn search(_pid: &str, _oid: &str, seed: u64) -> Option<Found> {
    if let Some(f) = config_isolation(seed) { return Some(f); }
    // fresh processes first (they run while this process computes its own two dumps)
    let exe = std::env::current_exe().ok();
    let mut kids = Vec::new();
    if let Some(exe) = exe {
        for _ in 0..3 {
            let exe = exe.clone();
            kids.push(std::thread::spawn(move || {
                std::process::Command::new(exe)
                    .arg("__sim_substrate_dump")
                    .arg(seed.to_string())
                    .stdin(std::process::Stdio::null())
                    .stderr(std::process::Stdio::null())
                    .output()
                    .ok()
                    .map(|o| String::from_utf8_lossy(&o.stdout).to_string())
            }));
        }
    }
    let a = dump(seed);
    let b = dump(seed);
    let mut res: Option<Found> = None;
    if let Some(d) = first_diff(&a, &b) {
        res = Some(finding("first vs second run in ONE process (same thread)", seed, d));
    }
    for (k, h) in kids.into_iter().enumerate() {
        let o = h.join().ok().flatten();
        if res.is_some() {
            continue;
        }
        match o {
            Some(c) if !c.is_empty() => {
                if let Some(d) = first_diff(&a, &c) {
                    res = Some(finding(&format!("this process vs fresh process #{}", k + 1), seed, d));
                }
            }
            _ => {}
        }
    }
    res
}
