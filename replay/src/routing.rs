//! Unit `routing` (C03): one home per key whichever path touches it; N shards answer like one shard.
//! Drives the real `ShardedActorState` (fast GET/SET, pooled, batched pipeline, generic dispatch, multi-key
//! fan-out, KEYS/DBSIZE aggregation) on 1 shard and on 2,3,4,5,8,16 shards with the same session.
use crate::rng::Rng;
use crate::Found;
use bytes::Bytes;
use redis_sim::production::ShardedActorState;
use redis_sim::redis::{Command, RespValue, SDS};

const SHARDS: [usize; 6] = [2, 3, 4, 5, 8, 16];

#[derive(Clone, Debug)]
enum Step {
    FastSet(String, String),
    PooledSet(String, String),
    ExecSet(String, String),
    BatchSet(Vec<(String, String)>),
    MSet(Vec<(String, String)>),
    FastGet(String),
    PooledGet(String),
    ExecGet(String),
    BatchGet(Vec<String>),
    MGet(Vec<String>),
    Exists(Vec<String>),
    Del(Vec<String>),
    Keys(String),
    Scan(Option<String>),
    DbSize,
    Append(String, String),
    StrLen(String),
    TypeOf(String),
}

fn short(s: &str) -> String {
    if s.chars().count() > 24 { format!("{}..({} bytes)", s.chars().take(12).collect::<String>(), s.len()) } else { format!("{:?}", s) }
}

fn show_step(s: &Step) -> String {
    match s {
        Step::FastSet(k, v) => format!("fast_set({}, {})", short(k), short(v)),
        Step::PooledSet(k, v) => format!("pooled_fast_set({}, {})", short(k), short(v)),
        Step::ExecSet(k, v) => format!("execute(SET {} {})", short(k), short(v)),
        Step::BatchSet(p) => format!("fast_batch_set_pipeline({})", p.iter().map(|(k, v)| format!("{}={}", short(k), short(v))).collect::<Vec<_>>().join(",")),
        Step::MSet(p) => format!("execute(MSET {})", p.iter().map(|(k, v)| format!("{}={}", short(k), short(v))).collect::<Vec<_>>().join(",")),
        Step::FastGet(k) => format!("fast_get({})", short(k)),
        Step::PooledGet(k) => format!("pooled_fast_get({})", short(k)),
        Step::ExecGet(k) => format!("execute(GET {})", short(k)),
        Step::BatchGet(k) => format!("fast_batch_get_pipeline({})", k.iter().map(|k| short(k)).collect::<Vec<_>>().join(",")),
        Step::MGet(k) => format!("execute(MGET {})", k.iter().map(|k| short(k)).collect::<Vec<_>>().join(",")),
        Step::Exists(k) => format!("execute(EXISTS {})", k.iter().map(|k| short(k)).collect::<Vec<_>>().join(",")),
        Step::Del(k) => format!("execute(DEL {})", k.iter().map(|k| short(k)).collect::<Vec<_>>().join(",")),
        Step::Keys(p) => format!("execute(KEYS {})", short(p)),
        Step::Scan(p) => format!("execute(SCAN 0{} COUNT 100000)", p.as_ref().map(|p| format!(" MATCH {}", short(p))).unwrap_or_default()),
        Step::DbSize => "execute(DBSIZE)".to_string(),
        Step::Append(k, v) => format!("execute(APPEND {} {})", short(k), short(v)),
        Step::StrLen(k) => format!("execute(STRLEN {})", short(k)),
        Step::TypeOf(k) => format!("execute(TYPE {})", short(k)),
    }
}

fn show_resp(r: &RespValue) -> String {
    match r {
        RespValue::SimpleString(s) => format!("+{}", s),
        RespValue::Error(s) => format!("-{}", s),
        RespValue::Integer(i) => format!(":{}", i),
        RespValue::BulkString(None) => "nil".to_string(),
        RespValue::BulkString(Some(b)) => format!("${}", short(&String::from_utf8_lossy(b))),
        RespValue::Array(None) => "*nil".to_string(),
        RespValue::Array(Some(a)) => format!("[{}]", a.iter().map(show_resp).collect::<Vec<_>>().join(",")),
    }
}

fn b(s: &str) -> Bytes { Bytes::copy_from_slice(s.as_bytes()) }
fn sds(s: &str) -> SDS { SDS::new(s.as_bytes().to_vec()) }

/// reply of one step, rendered; unordered multi-element replies (KEYS) are sorted
async fn run_step(st: &ShardedActorState, s: &Step) -> String {
    match s {
        Step::FastSet(k, v) => show_resp(&st.fast_set(b(k), b(v)).await),
        Step::PooledSet(k, v) => show_resp(&st.pooled_fast_set(b(k), b(v)).await),
        Step::ExecSet(k, v) => show_resp(&st.execute(&Command::set(k.clone(), sds(v))).await),
        Step::BatchSet(p) => format!("{:?}", st.fast_batch_set_pipeline(p.iter().map(|(k, v)| (b(k), b(v))).collect()).await.iter().map(show_resp).collect::<Vec<_>>()),
        Step::MSet(p) => show_resp(&st.execute(&Command::MSet(p.iter().map(|(k, v)| (k.clone(), sds(v))).collect())).await),
        Step::FastGet(k) => show_resp(&st.fast_get(b(k)).await),
        Step::PooledGet(k) => show_resp(&st.pooled_fast_get(b(k)).await),
        Step::ExecGet(k) => show_resp(&st.execute(&Command::Get(k.clone())).await),
        Step::BatchGet(ks) => format!("{:?}", st.fast_batch_get_pipeline(ks.iter().map(|k| b(k)).collect()).await.iter().map(show_resp).collect::<Vec<_>>()),
        Step::MGet(ks) => show_resp(&st.execute(&Command::MGet(ks.clone())).await),
        Step::Exists(ks) => show_resp(&st.execute(&Command::Exists(ks.clone())).await),
        Step::Del(ks) => show_resp(&st.execute(&Command::Del(ks.clone())).await),
        Step::Keys(p) => match st.execute(&Command::Keys(p.clone())).await {
            RespValue::Array(Some(items)) => { let mut v: Vec<String> = items.iter().map(show_resp).collect(); v.sort(); format!("keys{:?}", v) }
            other => show_resp(&other),
        },
        // SCAN with a COUNT above the keyspace size completes in one call: [cursor 0, every (matching) key once], order free
        Step::Scan(p) => match st.execute(&Command::Scan { cursor: 0, pattern: p.clone(), count: Some(100_000) }).await {
            RespValue::Array(Some(parts)) if parts.len() == 2 => { let cur = show_resp(&parts[0]); match &parts[1] { RespValue::Array(Some(items)) => { let mut v: Vec<String> = items.iter().map(show_resp).collect(); v.sort(); format!("scan(cursor {}){:?}", cur, v) } other => show_resp(other) } }
            other => show_resp(&other),
        },
        Step::DbSize => show_resp(&st.execute(&Command::DbSize).await),
        Step::Append(k, v) => show_resp(&st.execute(&Command::Append(k.clone(), sds(v))).await),
        Step::StrLen(k) => show_resp(&st.execute(&Command::StrLen(k.clone())).await),
        Step::TypeOf(k) => show_resp(&st.execute(&Command::TypeOf(k.clone())).await),
    }
}

async fn run_session(n: usize, steps: &[Step]) -> Vec<String> {
    let st = ShardedActorState::with_shards(n);
    let mut out = Vec::with_capacity(steps.len() + 1);
    for s in steps { out.push(run_step(&st, s).await); }
    out.push(run_step(&st, &Step::Keys("*".to_string())).await);
    out
}

/// does the LAST step of `steps` answer differently on n shards than on one shard?
async fn last_differs(n: usize, steps: &[Step]) -> Option<(String, String)> {
    let st1 = ShardedActorState::with_shards(1);
    let stn = ShardedActorState::with_shards(n);
    let mut last = None;
    for s in steps {
        let a = run_step(&st1, s).await;
        let b = run_step(&stn, s).await;
        last = Some((a, b));
    }
    match last { Some((a, b)) if a != b => Some((a, b)), _ => None }
}

/// 1 shard vs N shards on the same session: first differing reply, shrunk to a minimal session (greedy step removal)
async fn differential(steps: &[Step], label: &str) -> Option<Found> {
    let reference = run_session(1, steps).await;
    for n in SHARDS {
        let got = run_session(n, steps).await;
        for i in 0..reference.len() {
            if got[i] != reference[i] {
                let mut min: Vec<Step> = steps[..i.min(steps.len())].to_vec();
                min.push(if i < steps.len() { steps[i].clone() } else { Step::Keys("*".to_string()) });
                // chunked, then single-step greedy removal keeping the last step
                let mut chunk = (min.len() / 2).max(1);
                loop {
                    let mut j = 0;
                    while j + 1 < min.len() {
                        let hi = (j + chunk).min(min.len() - 1);
                        let mut cand = min[..j].to_vec();
                        cand.extend_from_slice(&min[hi..]);
                        if last_differs(n, &cand).await.is_some() { min = cand; } else { j = hi; }
                    }
                    if chunk == 1 { break; }
                    chunk = (chunk / 2).max(1);
                }
                let (want, have) = last_differs(n, &min).await.unwrap_or((reference[i].clone(), got[i].clone()));
                return Some(Found {
                    input: format!("{} step #{}, shrunk to: shards={}; {}", label, i, n, min.iter().map(show_step).collect::<Vec<_>>().join(" ; ")),
                    observed: format!("{}-shard reply to the last step: {}", n, have),
                    required: format!("the 1-shard reply {}", want),
                });
            }
        }
    }
    None
}


/// the OPEN C03 finding (fanout .. ensures#13): a command naming TWO keys is dispatched whole to the first key's shard, so when
/// the two keys have different homes the second key is read / written on the wrong shard.  Witness battery only (never part of
/// the default battery): sessions over key pairs, 1 shard vs N shards; the first pair that differs is reported.
async fn two_key_witness() -> Option<Found> {
    let pool: Vec<String> = (0..24).map(|i| format!("k{}", i)).collect();
    let mk = |kind: usize, a: &str, b: &str| -> (String, Vec<Command>) {
        let (a, b) = (a.to_string(), b.to_string());
        match kind {
            0 => (format!("SET {a} v1 ; RENAME {a} {b} ; GET {b} ; GET {a}"), vec![Command::set(a.clone(), sds("v1")), Command::Rename(a.clone(), b.clone()), Command::Get(b.clone()), Command::Get(a.clone())]),
            1 => (format!("SET {a} v1 ; RENAMENX {a} {b} ; GET {b}"), vec![Command::set(a.clone(), sds("v1")), Command::RenameNx(a.clone(), b.clone()), Command::Get(b.clone())]),
            2 => (format!("RPUSH {a} x y ; RPOPLPUSH {a} {b} ; LRANGE {b} 0 -1"), vec![Command::RPush(a.clone(), vec![sds("x"), sds("y")]), Command::RPopLPush(a.clone(), b.clone()), Command::LRange(b.clone(), 0, -1)]),
            3 => (format!("RPUSH {a} x y ; LMOVE {a} {b} LEFT RIGHT ; LRANGE {b} 0 -1"), vec![Command::RPush(a.clone(), vec![sds("x"), sds("y")]), Command::LMove { source: a.clone(), dest: b.clone(), wherefrom: "LEFT".into(), whereto: "RIGHT".into() }, Command::LRange(b.clone(), 0, -1)]),
            _ => (format!("SET {b} old ; MSETNX {a} n1 {b} n2 ; GET {a} ; GET {b}"), vec![Command::set(b.clone(), sds("old")), Command::MSetNx(vec![(a.clone(), sds("n1")), (b.clone(), sds("n2"))]), Command::Get(a.clone()), Command::Get(b.clone())]),
        }
    };
    for kind in 0..5 {
        for n in SHARDS {
            for i in 0..pool.len() { for j in 0..pool.len() { if i == j { continue; }
                let (text, cmds) = mk(kind, &pool[i], &pool[j]);
                let one = ShardedActorState::with_shards(1);
                let many = ShardedActorState::with_shards(n);
                let mut r1 = Vec::new(); let mut rn = Vec::new();
                for c in &cmds { r1.push(show_resp(&one.execute(c).await)); rn.push(show_resp(&many.execute(c).await)); }
                if r1 != rn {
                    return Some(Found { input: format!("{} shards: {}", n, text), observed: format!("replies [{}]", rn.join(", ")), required: format!("the 1-shard replies [{}] (a two-key command must reach both keys wherever they live)", r1.join(", ")) });
                }
            } }
        }
    }
    None
}

fn key_pool() -> Vec<String> {
    let mut ks: Vec<String> = vec!["".into(), "a".into(), "b".into(), "key".into(), "foo:bar".into(), "with space".into(), "tab\tkey".into(), "nul\0key".into(),
        "ключ".into(), "键".into(), "🔑key".into(), "é".into(), "e\u{301}".into(), "ÿ".into(), "\u{7f}".into(), "\u{80}".into(), "\u{ff}\u{ff}".into(),
        "h[ae]llo".into(), "hello".into(), "hallo".into(), "star*".into(), "q?".into(), "tags".into(), "kags".into()];
    for i in 0..32 { ks.push(format!("k{}", i)); }
    // names with structure a router might be tempted to interpret (cluster hash tags, separators, prefixes of each other): a key is routed
    // by ALL its bytes on every path
    for k in ["{user1}:profile", "{user1}:cart", "{user2}:cart", "a{b}c", "{}", "x{}y", "{open", "close}", "{{a}}", "{a}{b}", "user1", "b", "ns:{t}:1", "ns:{t}:2", "k1:sub", "k1 ", " k1"] { ks.push(k.into()); }
    for i in 0..10 { ks.push(format!("user:{}", i)); }
    for c in ['a', 'b', 'c', 'd', 'e', 'f'] { ks.push(format!("item:{}", c)); }
    ks.push("L".repeat(300));
    ks.push(format!("{}x", "L".repeat(300)));
    ks.push("长".repeat(700));
    ks
}

/// absolute oracle: a key written through path `w` is read back through every read path, on every shard count
async fn cross_path(keys: &[String]) -> Option<Found> {
    let mut counts = vec![1usize];
    counts.extend_from_slice(&SHARDS);
    for n in counts {
        let st = ShardedActorState::with_shards(n);
        for (ki, k) in keys.iter().enumerate() {
            for w in 0..5 {
                let v = format!("v{}_{}_{}", n, ki, w);
                let wstep = match w {
                    0 => Step::FastSet(k.clone(), v.clone()),
                    1 => Step::PooledSet(k.clone(), v.clone()),
                    2 => Step::ExecSet(k.clone(), v.clone()),
                    3 => Step::BatchSet(vec![(k.clone(), v.clone()), (format!("{}#sibling", k), "s".into())]),
                    _ => Step::MSet(vec![(format!("{}#sibling2", k), "s".into()), (k.clone(), v.clone())]),
                };
                let wr = run_step(&st, &wstep).await;
                let want_scalar = format!("${}", short(&v));
                let reads = [
                    (Step::FastGet(k.clone()), want_scalar.clone()),
                    (Step::PooledGet(k.clone()), want_scalar.clone()),
                    (Step::ExecGet(k.clone()), want_scalar.clone()),
                    (Step::BatchGet(vec![k.clone()]), format!("{:?}", vec![want_scalar.clone()])),
                    (Step::MGet(vec![k.clone()]), format!("[{}]", want_scalar)),
                    (Step::Exists(vec![k.clone()]), ":1".to_string()),
                    (Step::StrLen(k.clone()), format!(":{}", v.len())),
                ];
                for (r, want) in reads.iter() {
                    let got = run_step(&st, r).await;
                    if &got != want {
                        return Some(Found {
                            input: format!("shards={}; {} (reply {}) then {}", n, show_step(&wstep), wr, show_step(r)),
                            observed: got,
                            required: format!("{} - the value just written through the other path (one home per key)", want),
                        });
                    }
                }
            }
            // delete through the generic path, then invisible through the fast paths
            let d = run_step(&st, &Step::Del(vec![k.clone()])).await;
            for r in [Step::FastGet(k.clone()), Step::PooledGet(k.clone()), Step::ExecGet(k.clone())] {
                let got = run_step(&st, &r).await;
                if d != ":1" || got != "nil" {
                    return Some(Found { input: format!("shards={}; key {} written through 5 paths, execute(DEL) replied {}, then {}", n, short(k), d, show_step(&r)), observed: got, required: "DEL replies :1 and the key is gone through every read path".into() });
                }
            }
        }
    }
    None
}

fn structured_session(keys: &[String]) -> Vec<Step> {
    let mut s = Vec::new();
    for (i, k) in keys.iter().enumerate() {
        let v = format!("v{}", i);
        s.push(match i % 5 {
            0 => Step::FastSet(k.clone(), v),
            1 => Step::ExecSet(k.clone(), v),
            2 => Step::PooledSet(k.clone(), v),
            3 => Step::BatchSet(vec![(k.clone(), v)]),
            _ => Step::MSet(vec![(k.clone(), v)]),
        });
    }
    s.push(Step::DbSize);
    for k in keys { s.push(Step::ExecGet(k.clone())); s.push(Step::FastGet(k.clone())); }
    s.push(Step::BatchGet(keys.to_vec()));
    s.push(Step::MGet(keys.to_vec()));
    s.push(Step::Exists(keys.to_vec()));
    for p in ["*", "user:*", "k?", "k??", "user:3", "tags", "nosuchkey", "", "user:[12]", "user:[0-9]", "item:[a-c]", "item:[^a]", "k[0-9]", "k[0-9][0-9]", "[kt]ags", "h[ae]llo", "h?llo", "h\\[ae\\]llo", "star\\*", "q\\?", "*:*", "[a-b]", "é", "键", "ÿ"] {
        s.push(Step::Keys(p.to_string()));
    }
    for (i, k) in keys.iter().enumerate() { if i % 3 == 0 { s.push(Step::Append(k.clone(), "+".into())); s.push(Step::FastGet(k.clone())); } }
    s.push(Step::Del(vec!["user:1".into(), "item:b".into(), "k5".into(), "nosuchkey".into()]));
    s.push(Step::Del(vec!["k7".into()]));
    for p in ["user:[12]", "item:[a-c]", "k[0-9]", "*"] { s.push(Step::Keys(p.to_string())); s.push(Step::Scan(Some(p.to_string()))); }
    s.push(Step::Scan(None));
    s.push(Step::DbSize);
    for k in keys { s.push(Step::TypeOf(k.clone())); }
    s
}

fn random_pattern(rng: &mut Rng, keys: &[String]) -> String {
    let k = rng.pick(keys).clone();
    let cs: Vec<char> = k.chars().collect();
    if cs.is_empty() || cs.len() > 40 { return rng.pick(&["*", "?", "[a-z]", "??", "[^k]*"]).to_string(); }
    let i = rng.below(cs.len() as u64) as usize;
    let pre: String = cs[..i].iter().collect();
    let post: String = cs[i + 1..].iter().collect();
    let c = cs[i];
    match rng.below(7) {
        0 => k,
        1 => format!("{}*", pre),
        2 => format!("{}?{}", pre, post),
        3 => format!("{}[{}z]{}", pre, c, post),
        4 => if c.is_ascii_digit() { format!("{}[0-9]{}", pre, post) } else if c.is_ascii_lowercase() { format!("{}[a-z]{}", pre, post) } else { format!("{}[{}]{}", pre, c, post) },
        5 => format!("{}[^{}]{}", pre, if c == 'q' { 'r' } else { 'q' }, post),
        _ => format!("*{}", post),
    }
}

fn random_session(rng: &mut Rng, pool: &[String]) -> Vec<Step> {
    let nk = 4 + rng.below(10) as usize;
    let keys: Vec<String> = (0..nk).map(|_| rng.pick(pool).clone()).collect();
    let mut s = Vec::new();
    let len = 30 + rng.below(50);
    for i in 0..len {
        let k = rng.pick(&keys).clone();
        let v = format!("w{}", i);
        let some = |rng: &mut Rng| -> Vec<String> { let n = 1 + rng.below(4); (0..n).map(|_| rng.pick(&keys).clone()).collect() };
        s.push(match rng.below(20) {
            0 | 1 => Step::FastSet(k, v),
            2 => Step::PooledSet(k, v),
            3 | 4 => Step::ExecSet(k, v),
            5 => Step::BatchSet(some(rng).into_iter().enumerate().map(|(j, k)| (k, format!("{}b{}", v, j))).collect()),
            6 => Step::MSet(some(rng).into_iter().enumerate().map(|(j, k)| (k, format!("{}m{}", v, j))).collect()),
            7 => Step::FastGet(k),
            8 => Step::PooledGet(k),
            9 => Step::ExecGet(k),
            10 => Step::BatchGet(some(rng)),
            11 => Step::MGet(some(rng)),
            12 => Step::Exists(some(rng)),
            13 => Step::Del(some(rng)),
            14 | 15 => Step::Keys(random_pattern(rng, &keys)),
            16 => if rng.chance(1, 3) { Step::Scan(None) } else { Step::Scan(Some(random_pattern(rng, &keys))) },
            17 => Step::DbSize,
            18 => Step::Append(k, v),
            _ => Step::StrLen(k),
        });
    }
    s
}

/// Multi-key fan-out while ANOTHER connection keeps one shard busy: the per-shard replies then complete out of submission order.
/// MGET / EXISTS / DEL counts / MSET must still answer like one shard (replies are reassembled by position, not by arrival).
async fn fanout_under_load() -> Option<Found> {
    const KEYS: usize = 32;
    let key = |i: usize| format!("key:{}", i);
    for n in [2usize, 4, 8] {
        let st = ShardedActorState::with_shards(n);
        let pairs: Vec<(String, SDS)> = (0..KEYS).map(|i| (key(i), sds(&format!("val:{}", i)))).collect();
        st.execute(&Command::MSet(pairs)).await;
        for round in 0..40usize {
            let idx: Vec<usize> = (0..8).map(|j| (round * 5 + j * 3) % KEYS).collect();
            let keys: Vec<String> = idx.iter().map(|i| key(*i)).collect();
            let busy = b(&format!("busy:{}", round % 16));
            let load: Vec<(Bytes, Bytes)> = (0..1500).map(|i| (busy.clone(), b(&format!("{}", i)))).collect();
            let other = st.clone();
            let mget = Command::MGet(keys.clone());
            let (_, reply) = tokio::join!(other.fast_batch_set_pipeline(load), st.execute(&mget));
            let want = RespValue::Array(Some(idx.iter().map(|i| RespValue::BulkString(Some(format!("val:{}", i).into_bytes()))).collect()));
            if reply != want {
                return Some(Found { input: format!("{} shards: MSET key:0..key:{} = val:i; then MGET {:?} while another connection runs a 1500-SET pipelined batch on {:?} (round {})", n, KEYS - 1, keys, String::from_utf8_lossy(&busy), round),
                    observed: show_resp(&reply), required: format!("{} (what one shard answers: each key's own value, in request order)", show_resp(&want)) });
            }
            // EXISTS over the same keys under the same kind of load
            let load2: Vec<(Bytes, Bytes)> = (0..1500).map(|i| (busy.clone(), b(&format!("{}", i)))).collect();
            let other2 = st.clone();
            let ex = Command::Exists(keys.clone());
            let (_, r2) = tokio::join!(other2.fast_batch_set_pipeline(load2), st.execute(&ex));
            if r2 != RespValue::Integer(keys.len() as i64) {
                return Some(Found { input: format!("{} shards: EXISTS {:?} under load (round {})", n, keys, round), observed: show_resp(&r2), required: format!(":{}", keys.len()) });
            }
        }
    }
    None
}

pub fn search(_pid: &str, oid: &str, seed: u64) -> Option<Found> {
    let rt = tokio::runtime::Builder::new_current_thread().enable_all().build().ok()?;
    let witness = oid.contains("ensures#13");
    rt.block_on(async move {
        if witness { return two_key_witness().await; }
        let pool = key_pool();
        if let Some(f) = cross_path(&pool).await { return Some(f); }
        if let Some(f) = fanout_under_load().await { return Some(f); }
        if let Some(f) = differential(&structured_session(&pool), "structured session").await { return Some(f); }
        let mut rng = Rng::new(seed + 3);
        for it in 0..600u64 {
            // random keys too: printable ASCII, multi-byte, empty
            let mut p = pool.clone();
            for _ in 0..6 {
                let l = rng.below(12);
                let alphabet: Vec<char> = "abk:01[]*?é键 \u{ff}".chars().collect();
                p.push((0..l).map(|_| *rng.pick(&alphabet)).collect());
            }
            let sess = random_session(&mut rng, &p);
            if let Some(f) = differential(&sess, &format!("random session {} (seed {})", it, seed)).await { return Some(f); }
        }
        None
    })
}
