pub struct Rng(pub u64);
impl Rng {
    pub fn new(seed: u64) -> Self { Rng(seed.wrapping_mul(0x9E3779B97F4A7C15) ^ 0xD1B54A32D192ED03) }
    pub fn next(&mut self) -> u64 {
        let mut x = self.0;
        x ^= x << 13; x ^= x >> 7; x ^= x << 17;
        self.0 = x;
        x.wrapping_mul(0x2545F4914F6CDD1D)
    }
    pub fn below(&mut self, n: u64) -> u64 { if n == 0 { 0 } else { self.next() % n } }
    pub fn pick<'a, T>(&mut self, xs: &'a [T]) -> &'a T { &xs[self.below(xs.len() as u64) as usize] }
    pub fn chance(&mut self, num: u64, den: u64) -> bool { self.below(den) < num }
}
