//! Unit `ckpt_recovery` (C11, checkpoint leg): updates are persisted through the REAL writer chain - StreamingPersistence push/flush
//! for the segments, CheckpointManager::create_checkpoint for a checkpoint that covers the first segments (its state = the fold
//! of exactly their updates: the writer obligation of the unit), Manifest::compact_segments + ManifestManager::save to install it -
//! then recovered through RecoveryManager::recover_with_progress (the path the server takes) and ::recover, and installed with
//! ReplicatedShardedState::apply_recovered_state.  Checked on the real code:
//!   (1) the recovered per-key state equals the fold of ReplicatedValue::merge over EVERYTHING persisted (covered segments
//!       included), also when several segments share one min_timestamp (the load order is only sorted by it);
//!   (2) recover and recover_with_progress return the same checkpoint state and the same deltas;
//!   (3) recovering a second time into the same node changes nothing;
//!   (4) a checkpoint object that is missing, truncated or has one flipped byte makes BOTH recovery functions fail - never an Ok
//!       that starts from nothing or from the uncovered segments alone;
//!   (5) a manifest entry whose last_segment_id is ABOVE the one in the checkpoint object's own header (the object is not the
//!       checkpoint the entry describes; segments the object does not cover would be skipped) makes both fail as well.
use crate::deltas::lc;
use crate::lattice::obs;
use crate::rng::Rng;
use crate::Found;
use redis_sim::production::ReplicatedShardedState;
use redis_sim::redis::SDS;
use redis_sim::replication::lattice::ReplicaId;
use redis_sim::replication::state::{CrdtValue, ReplicatedValue, ReplicationDelta};
use redis_sim::replication::ReplicationConfig;
use redis_sim::streaming::{CheckpointConfig, CheckpointInfo, CheckpointManager, InMemoryObjectStore, ManifestManager, ObjectStore, RecoveryManager, StreamingPersistence, WriteBufferConfig};
use std::collections::{BTreeMap, HashMap};
use std::sync::Arc;

const FIELDS: [&str; 3] = ["name", "email", "city"];

/// one update and the segment (by position) it is flushed in
#[derive(Clone)]
struct Upd { delta: ReplicationDelta, text: String, seg: usize }

fn mk(key: &str, t: u64, r: u64) -> (ReplicationDelta, String) {
    let (v, text) = if key.starts_with('h') {
        let f = FIELDS[((t + r) % 3) as usize];
        let mut v = ReplicatedValue::with_crdt(CrdtValue::new_hash(), ReplicaId(r));
        let mut c = lc(t - 1, r);
        v.hash_set(f.to_string(), SDS::from_str(&format!("{}.{}@{}_{}", key, f, t, r)), &mut c);
        (v, format!("HSET {} {} @({},r{})", key, f, t, r))
    } else if (t + r) % 5 == 0 {
        let mut v = ReplicatedValue::with_value(SDS::from_str("gone"), lc(t - 1, r)); let mut c = lc(t - 1, r); v.delete(&mut c);
        (v, format!("DEL {} @({},r{})", key, t, r))
    } else {
        (ReplicatedValue::with_value(SDS::from_str(&format!("{}@{}_{}", key, t, r)), lc(t, r)), format!("SET {} @({},r{})", key, t, r))
    };
    (ReplicationDelta::new(key.to_string(), v, ReplicaId(r)), text)
}
fn upd(key: &str, t: u64, r: u64, seg: usize) -> Upd { let (delta, text) = mk(key, t, r); Upd { delta, text, seg } }
fn merge_into(m: &mut HashMap<String, ReplicatedValue>, k: &str, v: &ReplicatedValue) { let n = match m.get(k) { Some(o) => o.merge(v), None => v.clone() }; m.insert(k.to_string(), n); }
fn describe(us: &[Upd], nseg: usize, covered: usize) -> String {
    let mut s = format!("{} segments, the checkpoint covers the first {} (last_segment_id = id of segment #{}): ", nseg, covered, covered.saturating_sub(1));
    s.push_str(&us.iter().map(|u| format!("{} in segment #{}", u.text, u.seg)).collect::<Vec<_>>().join(" ; "));
    s
}
fn obs_map(m: &HashMap<String, ReplicatedValue>) -> BTreeMap<String, String> { m.iter().map(|(k, v)| (k.clone(), obs(v))).collect() }

#[derive(Clone, Copy, PartialEq)]
enum Damage { None, Missing, Truncated, Flipped, EntryAhead }

/// `covered` = number of leading segments folded into a checkpoint (0 = no checkpoint at all)
async fn run(us: &[Upd], nseg: usize, covered: usize, damage: Damage, rng: &mut Rng, label: &str) -> Option<Found> {
    let store = InMemoryObjectStore::new();
    let prefix = "t".to_string();
    let input = || format!("{}: {}", label, describe(us, nseg, covered));
    let fail = |what: &str, e: String| Some(Found { input: input(), observed: format!("{}: {}", what, e), required: "persisting succeeds".into() });
    let mut p = match StreamingPersistence::new(Arc::new(store.clone()), prefix.clone(), 1, WriteBufferConfig::test()).await { Ok(p) => p, Err(e) => return fail("StreamingPersistence::new", e.to_string()) };
    let mm = ManifestManager::new(store.clone(), &prefix);
    let mut ckpt_key: Option<String> = None;
    for s in 0..nseg {
        for u in us.iter().filter(|u| u.seg == s) { let _ = p.push(u.delta.clone()); }
        let seg_id = match p.flush().await { Ok(r) => match r.segment { Some(s) => s.id, None => return fail("flush", "no segment written".into()) }, Err(e) => return fail("flush", e.to_string()) };
        if covered > 0 && s + 1 == covered {
            // the checkpoint: the fold of exactly the updates of segments #0..covered, recorded as covering up to this segment's id
            let mut state: HashMap<String, ReplicatedValue> = HashMap::new();
            for u in us.iter().filter(|u| u.seg < covered) { merge_into(&mut state, &u.delta.key, &u.delta.value); }
            let cm = CheckpointManager::new(Arc::new(store.clone()), prefix.clone(), mm.clone(), CheckpointConfig::test());
            let res = match cm.create_checkpoint(state, seg_id).await { Ok(r) => r, Err(e) => return fail("create_checkpoint", e.to_string()) };
            let mut manifest = match mm.load().await { Ok(m) => m, Err(e) => return fail("manifest load", e.to_string()) };
            let res = if damage == Damage::EntryAhead { let mut r = res; r.last_segment_id = seg_id + 1 + rng.below(3); r } else { res };
            // half of the runs keep the covered segments listed (only the checkpoint entry is set), half compact them away
            if rng.chance(1, 2) { manifest.compact_segments(CheckpointInfo { key: res.key.clone(), timestamp_ms: res.timestamp_ms, key_count: res.key_count, last_segment_id: res.last_segment_id }); }
            else { manifest.checkpoint = Some(CheckpointInfo { key: res.key.clone(), timestamp_ms: res.timestamp_ms, key_count: res.key_count, last_segment_id: res.last_segment_id }); manifest.version += 1; }
            if let Err(e) = mm.save(&manifest).await { return fail("manifest save", e.to_string()); }
            ckpt_key = Some(res.key);
        }
    }
    // damage to the checkpoint object
    if let (Some(k), true) = (&ckpt_key, damage != Damage::None && damage != Damage::EntryAhead) {
        let bytes = match store.get(k).await { Ok(b) => b, Err(e) => return fail("reading the checkpoint back", e.to_string()) };
        let r = match damage {
            Damage::Missing => store.delete(k).await,
            Damage::Truncated => { let n = if bytes.len() > 60 { 48 + rng.below(bytes.len() as u64 - 48) as usize } else { bytes.len() / 2 }; store.put(k, &bytes[..n]).await }
            Damage::Flipped => { let mut b = bytes.clone(); let covered_idx: Vec<usize> = (0..b.len()).filter(|i| !(6..8).contains(i) && !(32..44).contains(i)).collect(); let i = *rng.pick(&covered_idx); b[i] ^= 1 << rng.below(8); store.put(k, &b).await }
            Damage::None | Damage::EntryAhead => Ok(()),
        };
        if let Err(e) = r { return fail("damaging the checkpoint object", e.to_string()); }
    }
    // ---- recovery, both entry points
    let rm = RecoveryManager::new(store.clone(), &prefix, 1);
    let a = rm.recover_with_progress(|_| {}).await;
    let b = rm.recover().await;
    if damage != Damage::None {
        for (name, r) in [("recover_with_progress", a.as_ref().map(|x| (x.checkpoint_state.as_ref().map(|s| s.len()), x.deltas.len()))), ("recover", b.as_ref().map(|x| (x.checkpoint_state.as_ref().map(|s| s.len()), x.deltas.len())))] {
            if let Ok((cs, nd)) = r {
                return Some(Found { input: format!("{}; {}", input(), match damage { Damage::Missing => "then the checkpoint object is deleted", Damage::Truncated => "then the checkpoint object is truncated", Damage::EntryAhead => "the manifest entry of the checkpoint says a HIGHER last_segment_id than the header of the checkpoint object", _ => "then the checkpoint object is changed in one bit (outside the bytes no checksum covers)" }),
                    observed: format!("{} returned Ok: checkpoint state of {:?} keys, {} deltas", name, cs, nd), required: "recovery fails: the manifest names a checkpoint that cannot be read, or that is not the one its entry describes (the segments the entry covers are skipped or already gone)".into() });
            }
        }
        return None;
    }
    let (a, b) = match (a, b) { (Ok(a), Ok(b)) => (a, b), (Err(e), _) => return fail("recover_with_progress", e.to_string()), (_, Err(e)) => return fail("recover", e.to_string()) };
    let same_ckpt = a.checkpoint_state.as_ref().map(obs_map) == b.checkpoint_state.as_ref().map(obs_map);
    let same_deltas = a.deltas.len() == b.deltas.len() && a.deltas.iter().zip(b.deltas.iter()).all(|(x, y)| x.key == y.key && obs(&x.value) == obs(&y.value));
    if !same_ckpt || !same_deltas {
        return Some(Found { input: input(), observed: format!("recover_with_progress: checkpoint of {:?} keys + {} deltas; recover: checkpoint of {:?} keys + {} deltas", a.checkpoint_state.as_ref().map(|s| s.len()), a.deltas.len(), b.checkpoint_state.as_ref().map(|s| s.len()), b.deltas.len()), required: "both entry points recover the same checkpoint state and the same deltas".into() });
    }
    // ---- the fold of merge over everything persisted
    let mut want: HashMap<String, ReplicatedValue> = HashMap::new();
    for u in us { merge_into(&mut want, &u.delta.key, &u.delta.value); }
    let node = ReplicatedShardedState::new(ReplicationConfig { enabled: true, replica_id: 1, ..Default::default() });
    let (n_ckpt, n_deltas) = (a.checkpoint_state.as_ref().map(|s| s.len()), a.deltas.len());
    node.apply_recovered_state(a.checkpoint_state, a.deltas);
    let got = node.snapshot_state().await;
    let keys: BTreeMap<&String, ()> = want.keys().chain(got.keys()).map(|k| (k, ())).collect();
    for k in keys.keys() {
        let (g, w) = (got.get(*k).map(obs), want.get(*k).map(obs));
        if g != w {
            return Some(Found { input: format!("{}; recover_with_progress returned a checkpoint of {:?} keys and {} deltas", input(), n_ckpt, n_deltas), observed: format!("recovered state of key {:?}: {:?}", k, g), required: format!("the merge of everything persisted for that key: {:?}", w) });
        }
    }
    // ---- recovery repeated into the same node
    node.apply_recovered_state(b.checkpoint_state, b.deltas);
    let again = node.snapshot_state().await;
    if obs_map(&again) != obs_map(&got) {
        let k = obs_map(&got).into_iter().find(|(k, v)| obs_map(&again).get(k) != Some(v)).map(|(k, _)| k).unwrap_or_default();
        return Some(Found { input: format!("{}; recovery applied twice to the same node", input()), observed: format!("after the second recovery key {:?} holds {:?}", k, again.get(&k).map(obs)), required: format!("what it held after the first: {:?}", got.get(&k).map(obs)) });
    }
    None
}

pub fn search(_pid: &str, _oid: &str, seed: u64) -> Option<Found> {
    let rt = tokio::runtime::Builder::new_current_thread().enable_all().build().ok()?;
    rt.block_on(async move {
        let mut rng = Rng::new(seed + 4711);
        let fams: Vec<(&str, usize, usize, Vec<Upd>)> = vec![
            ("three uncovered segments share one min stamp", 4, 1, vec![upd("s0", 3, 1, 0), upd("s1", 7, 1, 1), upd("s2", 7, 2, 2), upd("s3", 7, 3, 3), upd("s1", 9, 2, 2)]),
            ("all segments share one min stamp, no checkpoint", 3, 0, vec![upd("s1", 5, 1, 0), upd("s2", 5, 2, 1), upd("s3", 5, 3, 2), upd("s1", 5, 2, 2)]),
            ("same key in two segments of equal min stamp, higher stamp in the segment with the lower id", 3, 1, vec![upd("s9", 2, 1, 0), upd("s1", 4, 1, 1), upd("s1", 8, 2, 1), upd("s1", 4, 3, 2), upd("s1", 6, 1, 2)]),
            ("the covered segments hold the newest value of a key, an uncovered one an older value", 4, 2, vec![upd("s1", 50, 1, 0), upd("s2", 40, 2, 1), upd("s1", 4, 2, 2), upd("s2", 3, 1, 3)]),
            ("hash fields spread over covered and uncovered segments, stamps not ordered by segment", 4, 2, vec![upd("h1", 10, 1, 0), upd("h1", 3, 2, 1), upd("h1", 7, 3, 2), upd("h1", 2, 1, 3), upd("h1", 12, 2, 3)]),
            ("a tombstone is the newest covered update, the uncovered segment holds an older write", 3, 2, vec![upd("s1", 6, 1, 0), upd("s1", 14, 1, 1), upd("s1", 9, 2, 2)]),
            ("the checkpoint covers every segment", 2, 2, vec![upd("s1", 6, 1, 0), upd("h1", 4, 1, 0), upd("s1", 9, 2, 1), upd("h1", 5, 2, 1)]),
        ];
        for (name, nseg, covered, us) in &fams { for _ in 0..2 { if let Some(f) = run(us, *nseg, *covered, Damage::None, &mut rng, name).await { return Some(f); } } }
        for (name, nseg, covered, us) in fams.iter().filter(|f| f.2 > 0) {
            for d in [Damage::Missing, Damage::Truncated, Damage::Flipped, Damage::Flipped, Damage::Flipped, Damage::EntryAhead] { if let Some(f) = run(us, *nseg, *covered, d, &mut rng, name).await { return Some(f); } }
        }
        for it in 0..120u64 {
            let nseg = 1 + rng.below(5) as usize;
            let covered = if rng.chance(2, 3) { 1 + rng.below(nseg as u64) as usize } else { 0 };
            let shared_min = 2 + rng.below(6);
            let mut us = Vec::new();
            let mut seen: Vec<(String, u64, u64)> = Vec::new();
            for s in 0..nseg {
                // every segment gets one update at the shared min stamp (so that min_timestamp ties are the rule) plus a few others
                let n = 1 + rng.below(4);
                for j in 0..n {
                    let key = *rng.pick(&["s1", "s2", "s3", "h1", "h2"]);
                    let (t, r) = (if j == 0 { shared_min } else { shared_min + rng.below(30) }, 1 + rng.below(3));
                    if seen.contains(&(key.to_string(), t, r)) { continue; }
                    seen.push((key.to_string(), t, r));
                    us.push(upd(key, t, r, s));
                }
            }
            if (0..nseg).any(|s| !us.iter().any(|u| u.seg == s)) { continue; }
            let damage = if covered > 0 && rng.chance(1, 5) { *rng.pick(&[Damage::Missing, Damage::Truncated, Damage::Flipped, Damage::EntryAhead]) } else { Damage::None };
            if let Some(f) = run(&us, nseg, covered, damage, &mut rng, &format!("random layout {} (seed {})", it, seed)).await { return Some(f); }
        }
        None
    })
}
