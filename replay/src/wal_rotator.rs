//! Unit `wal_rotator` (C09): the always-fsync scenario on the REAL actor: spawn_wal_actor(FsyncPolicy::Always) over
//! InMemoryWalStore / SimulatedWalStore (injected append/fsync faults), tiny max_file_size so that group-commit
//! batches straddle rotations, N concurrent write_durable calls, simulate_crash() at quiescence or mid-flight,
//! then WalRotator::recover_all_entries on the same store: every write reported durable must be recovered.
use crate::deltas::lc;
use crate::rng::Rng;
use crate::Found;
use redis_sim::buggify::FaultConfig;
use redis_sim::io::simulation::SimulatedRng;
use redis_sim::redis::SDS;
use redis_sim::replication::lattice::ReplicaId;
use redis_sim::replication::state::{ReplicatedValue, ReplicationDelta};
use redis_sim::streaming::wal_store::{InMemoryWalStore, SimulatedWalStore, SimulatedWalStoreConfig, WalStore};
use redis_sim::streaming::{spawn_wal_actor, FsyncPolicy, WalConfig, WalRotator};
use std::path::PathBuf;
use std::sync::{Arc, Mutex};
use std::time::Duration;

#[derive(Clone, Debug)]
struct Params {
    max_file_size: usize,
    max_entries: usize,
    wait_us: u64,
    /// sizes of the waves of concurrent writers, and how many scheduler yields separate two waves
    waves: Vec<usize>,
    gap_yields: usize,
    /// None: crash when every write has returned; Some(k): crash after k scheduler yields (writes may be in flight)
    crash_after_yields: Option<usize>,
    value_len: usize,
    faults: Option<(u64, f64, f64, f64, f64)>, // rng seed, write_fail, partial_write, fsync_fail, disk_full
}

fn show_params(p: &Params) -> String {
    format!("FsyncPolicy::Always, max_file_size={}, group_commit_max_entries={}, group_commit_max_wait={}us, waves of concurrent write_durable calls {:?} ({} yields apart), values of {} bytes, store={}, crash {}",
        p.max_file_size, p.max_entries, p.wait_us, p.waves, p.gap_yields, p.value_len,
        match p.faults { None => "InMemoryWalStore".to_string(), Some((s, w, pw, f, d)) => format!("SimulatedWalStore(rng seed {}, write_fail={}, partial_write={}, fsync_fail={}, disk_full={})", s, w, pw, f, d) },
        match p.crash_after_yields { None => "after all calls returned".to_string(), Some(k) => format!("after {} scheduler yields", k) })
}

fn delta(i: usize, len: usize) -> Arc<ReplicationDelta> {
    let v: String = format!("v{}-", i).chars().cycle().take(len.max(1)).collect();
    Arc::new(ReplicationDelta::new(format!("w{}", i), ReplicatedValue::with_value(SDS::from_str(&v), lc(100 + i as u64, 1)), ReplicaId(1)))
}

async fn run<S: WalStore + Clone + 'static>(p: &Params, store: S, inner: InMemoryWalStore) -> Option<Found> {
    let cfg = WalConfig {
        enabled: true,
        wal_dir: PathBuf::from("/nonexistent/verif-replay"),
        fsync_policy: FsyncPolicy::Always,
        max_file_size: p.max_file_size,
        group_commit_max_entries: p.max_entries,
        group_commit_max_wait: Duration::from_micros(p.wait_us),
        truncation_check_interval: Duration::from_secs(3600),
    };
    let (handle, actor) = match spawn_wal_actor(store, cfg) { Ok(x) => x, Err(_) => return None };
    let total: usize = p.waves.iter().sum();
    let acked: Arc<Mutex<Vec<Option<bool>>>> = Arc::new(Mutex::new(vec![None; total]));
    let mut tasks = Vec::new();
    let mut i = 0usize;
    let mut yields_left = p.crash_after_yields;
    let mut crashed_early = false;
    'outer: for (w, &n) in p.waves.iter().enumerate() {
        for _ in 0..n {
            let (h, a, d, idx) = (handle.clone(), acked.clone(), delta(i, p.value_len), i);
            tasks.push(tokio::spawn(async move {
                let r = h.write_durable(d, 100 + idx as u64).await;
                a.lock().unwrap()[idx] = Some(r.is_ok());
            }));
            i += 1;
        }
        if w + 1 < p.waves.len() {
            for _ in 0..p.gap_yields {
                if let Some(k) = yields_left.as_mut() { if *k == 0 { crashed_early = true; break 'outer; } *k -= 1; }
                tokio::task::yield_now().await;
            }
        }
    }
    if !crashed_early {
        match yields_left {
            None => { for t in tasks.iter_mut() { let _ = t.await; } }
            Some(k) => { for _ in 0..k { tokio::task::yield_now().await; } }
        }
    }
    // ---- crash: no await between reading the acks, dropping unsynced bytes and recovering ----
    let acks: Vec<Option<bool>> = acked.lock().unwrap().clone();
    inner.simulate_crash();
    let recovered = WalRotator::new(inner.clone(), p.max_file_size).and_then(|r| r.recover_all_entries());
    actor.abort();
    for t in &tasks { t.abort(); }
    let recovered = match recovered {
        Ok(r) => r,
        Err(e) => return Some(Found { input: show_params(p), observed: format!("recover_all_entries failed: {}", e), required: "recovery succeeds".into() }),
    };
    let mut keys: Vec<(String, u64)> = Vec::new();
    for e in &recovered {
        match e.to_delta() {
            Ok(d) => keys.push((d.key, e.timestamp)),
            Err(x) => return Some(Found { input: show_params(p), observed: format!("recovered entry stamped {} does not decode: {}", e.timestamp, x), required: "only entries that were appended, bit-identical".into() }),
        }
    }
    let durable: Vec<usize> = (0..total).filter(|&j| acks[j] == Some(true)).collect();
    let lost: Vec<usize> = durable.iter().cloned().filter(|&j| !keys.contains(&(format!("w{}", j), 100 + j as u64))).collect();
    if !lost.is_empty() {
        return Some(Found {
            input: show_params(p),
            observed: format!("{} of {} writes returned Ok(()) from write_durable; after simulate_crash() recover_all_entries returns {} entries; writes reported durable but missing: {:?}", durable.len(), total, recovered.len(), lost.iter().map(|j| format!("w{}", j)).collect::<Vec<_>>()),
            required: "every write whose write_durable returned Ok is recovered after a crash".into(),
        });
    }
    // nothing that was never written (C10 side of the same observation)
    for (k, ts) in &keys {
        let ok = k.strip_prefix('w').and_then(|s| s.parse::<usize>().ok()).map(|j| j < total && *ts == 100 + j as u64).unwrap_or(false);
        if !ok { return Some(Found { input: show_params(p), observed: format!("recovered an entry ({:?}, stamp {}) that no writer submitted", k, ts), required: "only entries that were appended".into() }); }
    }
    None
}

fn trial(rt: &tokio::runtime::Runtime, p: &Params) -> Option<Found> {
    rt.block_on(async {
        match p.faults {
            None => { let s = InMemoryWalStore::new(); run(p, s.clone(), s).await }
            Some((seed, w, pw, f, d)) => {
                let cfg = SimulatedWalStoreConfig { write_fail_prob: w, partial_write_prob: pw, fsync_fail_prob: f, corruption_prob: 0.0, disk_full_prob: d };
                let s = SimulatedWalStore::new(SimulatedRng::new(seed), cfg);
                let inner = s.inner_store().clone();
                run(p, s, inner).await
            }
        }
    })
}

pub fn search(_pid: &str, _oid: &str, seed: u64) -> Option<Found> {
    let rt = tokio::runtime::Builder::new_current_thread().enable_all().build().ok()?;
    // fault injection of SimulatedWalStore goes through the thread-local BUGGIFY switch: on, probabilities from the store config
    redis_sim::buggify::set_config(FaultConfig::new());
    // ---- structured family: batches straddling rotations, no faults, crash at quiescence ----
    for &max_file_size in &[200usize, 64, 100, 150, 300, 500, 1000] {
        for &n in &[12usize, 1, 2, 3, 5, 8, 20, 40] {
            for &max_entries in &[64usize, 1, 2, 4, 8] {
                let p = Params { max_file_size, max_entries, wait_us: 0, waves: vec![n], gap_yields: 0, crash_after_yields: None, value_len: 8, faults: None };
                if let Some(f) = trial(&rt, &p) { return Some(f); }
            }
        }
    }
    // several waves, mid-flight crashes, still no faults
    for &max_file_size in &[200usize, 100, 400] {
        for k in 0..24usize {
            let p = Params { max_file_size, max_entries: 8, wait_us: 0, waves: vec![6, 6, 6], gap_yields: 2, crash_after_yields: Some(k), value_len: 8, faults: None };
            if let Some(f) = trial(&rt, &p) { return Some(f); }
        }
    }
    // ---- structured faults: each fault kind alone, high rate ----
    for fs in 0..40u64 {
        for (w, pw, f, d) in [(0.3, 0.0, 0.0, 0.0), (0.0, 0.3, 0.0, 0.0), (0.0, 0.0, 0.3, 0.0), (0.0, 0.0, 0.0, 0.3), (0.15, 0.15, 0.15, 0.05)] {
            let p = Params { max_file_size: 200, max_entries: 64, wait_us: 0, waves: vec![12, 12], gap_yields: 3, crash_after_yields: None, value_len: 8, faults: Some((fs, w, pw, f, d)) };
            if let Some(f) = trial(&rt, &p) { return Some(f); }
        }
    }
    // ---- seeded random ----
    let mut rng = Rng::new(seed + 9);
    for _ in 0..2500u64 {
        let nw = 1 + rng.below(4) as usize;
        let probs = [0.0, 0.0, 0.02, 0.1, 0.3, 0.6];
        let p = Params {
            max_file_size: *rng.pick(&[17usize, 64, 100, 150, 200, 250, 300, 500, 1000, 4096]),
            max_entries: *rng.pick(&[1usize, 2, 3, 4, 8, 16, 64]),
            wait_us: if rng.chance(1, 8) { 20 } else { 0 },
            waves: (0..nw).map(|_| 1 + rng.below(16) as usize).collect(),
            gap_yields: rng.below(5) as usize,
            crash_after_yields: if rng.chance(1, 2) { None } else { Some(rng.below(30) as usize) },
            value_len: *rng.pick(&[1usize, 8, 8, 40, 150, 400]),
            faults: if rng.chance(1, 3) { None } else { Some((rng.next() % 100000, *rng.pick(&probs), *rng.pick(&probs), *rng.pick(&probs), *rng.pick(&[0.0, 0.0, 0.05, 0.3]))) },
        };
        if let Some(f) = trial(&rt, &p) { return Some(f); }
    }
    None
}
