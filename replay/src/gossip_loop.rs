//! C19, the delivery leg of selective gossip: the REAL GossipManager::start_gossip_loop over real TCP sockets on 127.0.0.1.
//! A node (replica id r of a cluster numbered 1..n, peers listed in id order without itself - the convention GossipRouter::from_config
//! and the gossip loop document) queues targeted messages; every other replica runs a listener.  Required: the message targeted at
//! replica X arrives at X's address - and at nobody else's; no owner is left without its update.
use crate::Found;
use redis_sim::production::GossipManager;
use redis_sim::redis::SDS;
use redis_sim::replication::gossip::{GossipMessage, GossipState};
use redis_sim::replication::gossip_router::GossipRouter;
use redis_sim::replication::hash_ring::HashRing;
use redis_sim::replication::lattice::{LamportClock, ReplicaId};
use redis_sim::replication::state::{ReplicatedValue, ReplicationDelta};
use redis_sim::replication::ReplicationConfig;
use std::collections::{BTreeMap, HashMap};
use std::sync::{Arc, Mutex};
use tokio::io::AsyncReadExt;
use tokio::net::TcpListener;

async fn listen(l: TcpListener, me: u64, log: Arc<Mutex<Vec<(u64, u64)>>>) {
    loop {
        let (mut s, _) = match l.accept().await { Ok(x) => x, Err(_) => return };
        let log = log.clone();
        tokio::spawn(async move {
            loop {
                let mut len = [0u8; 4];
                if s.read_exact(&mut len).await.is_err() { return; }
                let n = u32::from_be_bytes(len) as usize;
                let mut buf = vec![0u8; n];
                if s.read_exact(&mut buf).await.is_err() { return; }
                if let Ok(GossipMessage::TargetedDelta { target_replica, .. }) = GossipMessage::deserialize(&buf) { log.lock().unwrap().push((me, target_replica.0)); }
            }
        });
    }
}

async fn scenario(n: u64, r: u64) -> Option<Found> {
    // listeners of every replica other than r, in id order
    let mut peers = Vec::new();
    let mut addr_of: BTreeMap<u64, String> = BTreeMap::new();
    let log: Arc<Mutex<Vec<(u64, u64)>>> = Arc::new(Mutex::new(Vec::new()));
    let mut tasks = Vec::new();
    for id in 1..=n { if id != r {
        let l = TcpListener::bind("127.0.0.1:0").await.ok()?;
        let a = l.local_addr().ok()?.to_string();
        peers.push(a.clone()); addr_of.insert(id, a);
        tasks.push(tokio::spawn(listen(l, id, log.clone())));
    } }
    let mut config = ReplicationConfig::new_partitioned_cluster(r, peers.clone(), (n - 1) as usize);
    config.gossip_interval_ms = 20;
    // the router knows the CORRECT address of every peer: every other replica owns every key (rf = n - 1 .. n), so each is owed the update
    let ring = Arc::new(std::sync::RwLock::new(HashRing::new((1..=n).map(ReplicaId::new).collect(), 16, n as usize)));
    let table: HashMap<ReplicaId, String> = addr_of.iter().map(|(k, v)| (ReplicaId::new(*k), v.clone())).collect();
    let router = GossipRouter::new(ring, ReplicaId::new(r), table, true);
    let mut gs = GossipState::with_router(config.clone(), router);
    let v = ReplicatedValue::with_value(SDS::from_str("v"), LamportClock { time: 1, replica_id: ReplicaId::new(r) });
    gs.queue_deltas(vec![ReplicationDelta::new("k".to_string(), v, ReplicaId::new(r))]);
    let state = Arc::new(parking_lot::RwLock::new(gs));
    let lp = tokio::spawn(GossipManager::start_gossip_loop(config, state, || vec![]));
    // wait until every peer has received something (normally a few tens of ms); give a loaded machine up to 6 s before concluding
    let expected: Vec<u64> = addr_of.keys().cloned().collect();
    for _ in 0..120 {
        tokio::time::sleep(std::time::Duration::from_millis(50)).await;
        let seen = log.lock().unwrap().clone();
        if expected.iter().all(|id| seen.iter().any(|(at, _)| at == id)) { break; }
    }
    tokio::time::sleep(std::time::Duration::from_millis(60)).await;
    lp.abort();
    for t in tasks { t.abort(); }
    let got = log.lock().unwrap().clone();
    let input = format!("cluster of {} replicas numbered 1..{}, node {} (peers in id order: {:?}) in selective mode; one update of a key every replica owns is queued; GossipManager::start_gossip_loop runs until every peer has been reached (at most 6 s)", n, n, r, addr_of.keys().collect::<Vec<_>>());
    if let Some((at, target)) = got.iter().find(|(at, target)| at != target) {
        return Some(Found { input, observed: format!("the message targeted at replica {} arrived at replica {}'s address", target, at), required: "a targeted message goes to its target and to nobody else".into() });
    }
    for id in addr_of.keys() {
        if !got.iter().any(|(at, _)| at == id) {
            return Some(Found { input, observed: format!("replica {} received nothing (arrivals (listener, target): {:?})", id, got), required: format!("every responsible replica other than the sender is handed the update: replica {} is owed it", id) });
        }
    }
    None
}

pub fn search(_pid: &str, _oid: &str, _seed: u64) -> Option<Found> {
    let rt = tokio::runtime::Builder::new_multi_thread().worker_threads(2).enable_all().build().ok()?;
    rt.block_on(async {
        for (n, r) in [(3u64, 1u64), (3, 2), (3, 3), (4, 2), (5, 4)] {
            if let Some(f) = scenario(n, r).await { return Some(f); }
        }
        None
    })
}
