//! Unit `coll_ops` (C01/C17): collection commands on the real CommandExecutor against a small independent model.
//!  ZADD with all 32 flag combinations (NX XX GT LT CH) on absent / existing / wrong-type / expired-unpurged keys,
//!  SADD SREM SPOP ZREM HSET HDEL LPUSH RPUSH LPOP RPOP LTRIM filling and draining collections:
//!   - an error reply changes nothing; only the named key changes;
//!   - an emptied collection stops existing (EXISTS 0, TYPE none, DBSIZE drops, TTL gone, a re-created key has no TTL);
//!   - a no-op on an absent key leaves it absent (never an empty collection);
//!   - replies and contents equal the model (for the flag combinations Redis accepts).
use crate::executor::{advance, cmd_text, exec, sds, show, Clock};
use crate::rng::Rng;
use crate::Found;
use redis_sim::redis::{Command, CommandExecutor, RespValue, SDS};
use redis_sim::simulator::VirtualTime;
use std::collections::{BTreeMap, BTreeSet};

#[derive(Clone, Debug, PartialEq)]
enum Coll { Str(String), List(Vec<String>), Set(BTreeSet<String>), Hash(BTreeMap<String, String>), ZSet(BTreeMap<String, u64>) } // zset scores as f64 bits

type State = BTreeMap<String, (Coll, bool)>; // value, has a TTL

fn t(s: &SDS) -> String { String::from_utf8_lossy(s.as_bytes()).to_string() }
fn bulk(r: &RespValue) -> Option<String> { if let RespValue::BulkString(Some(b)) = r { Some(String::from_utf8_lossy(b).to_string()) } else { None } }
fn arr(r: RespValue) -> Vec<String> { if let RespValue::Array(Some(a)) = r { a.iter().filter_map(bulk).collect() } else { Vec::new() } }

/// the visible keyspace read back through commands, plus the consistency of EXISTS / TYPE / DBSIZE / cardinalities
fn real_state(ex: &mut CommandExecutor) -> Result<State, String> {
    let keys = arr(ex.execute(&Command::Keys("*".into())));
    let mut st = State::new();
    for k in &keys {
        let ty = show(&ex.execute(&Command::TypeOf(k.clone())));
        let (c, card) = match ty.as_str() {
            "+string" => (Coll::Str(bulk(&ex.execute(&Command::Get(k.clone()))).unwrap_or_default()), 1),
            "+list" => { let v = arr(ex.execute(&Command::LRange(k.clone(), 0, -1))); let n = show(&ex.execute(&Command::LLen(k.clone()))); if n != format!(":{}", v.len()) { return Err(format!("LLEN {} = {} but LRANGE has {} elements", k, n, v.len())); } let l = v.len(); (Coll::List(v), l) }
            "+set" => { let v: BTreeSet<String> = arr(ex.execute(&Command::SMembers(k.clone()))).into_iter().collect(); let n = show(&ex.execute(&Command::SCard(k.clone()))); if n != format!(":{}", v.len()) { return Err(format!("SCARD {} = {} but SMEMBERS has {}", k, n, v.len())); } let l = v.len(); (Coll::Set(v), l) }
            "+hash" => { let v = arr(ex.execute(&Command::HGetAll(k.clone()))); let m: BTreeMap<String, String> = v.chunks(2).filter(|c| c.len() == 2).map(|c| (c[0].clone(), c[1].clone())).collect(); let l = m.len(); (Coll::Hash(m), l) }
            "+zset" => { let v = arr(ex.execute(&Command::ZRange(k.clone(), 0, -1, true))); let m: BTreeMap<String, u64> = v.chunks(2).filter(|c| c.len() == 2).map(|c| (c[0].clone(), c[1].parse::<f64>().unwrap_or(f64::NAN).to_bits())).collect(); let n = show(&ex.execute(&Command::ZCard(k.clone()))); if n != format!(":{}", m.len()) { return Err(format!("ZCARD {} = {} but ZRANGE has {}", k, n, m.len())); } let l = m.len(); (Coll::ZSet(m), l) }
            other => return Err(format!("key {:?} is listed by KEYS * but TYPE says {}", k, other)),
        };
        if card == 0 { return Err(format!("key {:?} exists (KEYS *, TYPE {}) but holds an EMPTY collection", k, ty)); }
        if show(&ex.execute(&Command::Exists(vec![k.clone()]))) != ":1" { return Err(format!("key {:?} is listed by KEYS * but EXISTS says 0", k)); }
        let pttl = show(&ex.execute(&Command::Pttl(k.clone())));
        st.insert(k.clone(), (c, pttl != ":-1"));
    }
    let db = show(&ex.execute(&Command::DbSize));
    if db != format!(":{}", keys.len()) { return Err(format!("DBSIZE {} but KEYS * lists {} keys", db, keys.len())); }
    Ok(st)
}

fn absent_checks(ex: &mut CommandExecutor, k: &str) -> Option<String> {
    let (e, ty) = (show(&ex.execute(&Command::Exists(vec![k.to_string()]))), show(&ex.execute(&Command::TypeOf(k.to_string()))));
    if e != ":0" || ty != "+none" { Some(format!("EXISTS {} = {}, TYPE {} = {}", k, e, k, ty)) } else { None }
}

#[derive(Debug, PartialEq)]
enum Want { Exact(String), Any, ErrorOr(String) }

fn key_of(c: &Command) -> String {
    match c { Command::ZAdd { key, .. } => key.clone(), Command::SAdd(k, _) | Command::SRem(k, _) | Command::SPop(k, _) | Command::ZRem(k, _) | Command::HSet(k, _) | Command::HDel(k, _) | Command::LPush(k, _) | Command::RPush(k, _) | Command::LPop(k) | Command::RPop(k) | Command::LTrim(k, _, _) => k.clone(), _ => String::new() }
}

fn norm(i: isize, len: usize) -> isize { if i < 0 { len as isize + i } else { i } }

/// model: expected reply and new state (None for the reply = depends on a random choice or is left open)
fn model(st: &State, c: &Command) -> (Want, State, bool) {
    // returns (reply expectation, expected state, state_is_exact)
    let mut s = st.clone();
    let k = key_of(c);
    let cur = st.get(&k).map(|(c, _)| c.clone());
    let wrong = |want: fn(&Coll) -> bool| cur.as_ref().map(|c| !want(c)).unwrap_or(false);
    let put = |s: &mut State, k: &str, c: Coll, empty: bool| { if empty { s.remove(k); } else { let ttl = s.get(k).map(|x| x.1).unwrap_or(false); s.insert(k.to_string(), (c, ttl)); } };
    match c {
        Command::ZAdd { pairs, nx, xx, gt, lt, ch, .. } => {
            if wrong(|c| matches!(c, Coll::ZSet(_))) { return (Want::Exact("error".into()), s, true); }
            let invalid = (*nx && *xx) || (*gt && *lt) || (*nx && (*gt || *lt));
            let mut z = match cur { Some(Coll::ZSet(z)) => z, _ => BTreeMap::new() };
            let (mut added, mut changed) = (0i64, 0i64);
            for (score, m) in pairs {
                let m = t(m);
                match z.get(&m).map(|b| f64::from_bits(*b)) {
                    None => { if !*xx { z.insert(m, score.to_bits()); added += 1; changed += 1; } }
                    Some(old) => { if *nx { continue; } if *gt && !(*score > old) { continue; } if *lt && !(*score < old) { continue; } if *score != old { z.insert(m, score.to_bits()); changed += 1; } }
                }
            }
            let e = z.is_empty();
            put(&mut s, &k, Coll::ZSet(z), e);
            let reply = format!(":{}", if *ch { changed } else { added });
            if invalid { (Want::ErrorOr(reply), s, false) } else { (Want::Exact(reply), s, true) }
        }
        Command::ZRem(_, ms) => { if wrong(|c| matches!(c, Coll::ZSet(_))) { return (Want::Exact("error".into()), s, true); } let mut z = match cur { Some(Coll::ZSet(z)) => z, _ => BTreeMap::new() }; let mut n = 0; for m in ms { if z.remove(&t(m)).is_some() { n += 1; } } let e = z.is_empty(); put(&mut s, &k, Coll::ZSet(z), e); (Want::Exact(format!(":{}", n)), s, true) }
        Command::SAdd(_, ms) => { if wrong(|c| matches!(c, Coll::Set(_))) { return (Want::Exact("error".into()), s, true); } let mut z = match cur { Some(Coll::Set(z)) => z, _ => BTreeSet::new() }; let mut n = 0; for m in ms { if z.insert(t(m)) { n += 1; } } let e = z.is_empty(); put(&mut s, &k, Coll::Set(z), e); (Want::Exact(format!(":{}", n)), s, true) }
        Command::SRem(_, ms) => { if wrong(|c| matches!(c, Coll::Set(_))) { return (Want::Exact("error".into()), s, true); } let mut z = match cur { Some(Coll::Set(z)) => z, _ => BTreeSet::new() }; let mut n = 0; for m in ms { if z.remove(&t(m)) { n += 1; } } let e = z.is_empty(); put(&mut s, &k, Coll::Set(z), e); (Want::Exact(format!(":{}", n)), s, true) }
        Command::SPop(..) => { if wrong(|c| matches!(c, Coll::Set(_))) { return (Want::Exact("error".into()), s, true); } (Want::Any, s, false) }
        Command::HSet(_, ps) => { if wrong(|c| matches!(c, Coll::Hash(_))) { return (Want::Exact("error".into()), s, true); } let mut z = match cur { Some(Coll::Hash(z)) => z, _ => BTreeMap::new() }; let mut n = 0; for (f, v) in ps { if z.insert(t(f), t(v)).is_none() { n += 1; } } let e = z.is_empty(); put(&mut s, &k, Coll::Hash(z), e); (Want::Exact(format!(":{}", n)), s, true) }
        Command::HDel(_, fs) => { if wrong(|c| matches!(c, Coll::Hash(_))) { return (Want::Exact("error".into()), s, true); } let mut z = match cur { Some(Coll::Hash(z)) => z, _ => BTreeMap::new() }; let mut n = 0; for f in fs { if z.remove(&t(f)).is_some() { n += 1; } } let e = z.is_empty(); put(&mut s, &k, Coll::Hash(z), e); (Want::Exact(format!(":{}", n)), s, true) }
        Command::LPush(_, vs) | Command::RPush(_, vs) => { if wrong(|c| matches!(c, Coll::List(_))) { return (Want::Exact("error".into()), s, true); } let mut l = match cur { Some(Coll::List(l)) => l, _ => Vec::new() }; for v in vs { if matches!(c, Command::LPush(..)) { l.insert(0, t(v)); } else { l.push(t(v)); } } let n = l.len(); let e = l.is_empty(); put(&mut s, &k, Coll::List(l), e); (Want::Exact(format!(":{}", n)), s, true) }
        Command::LPop(_) | Command::RPop(_) => { if wrong(|c| matches!(c, Coll::List(_))) { return (Want::Exact("error".into()), s, true); } let mut l = match cur { Some(Coll::List(l)) => l, _ => Vec::new() }; let r = if l.is_empty() { None } else if matches!(c, Command::LPop(_)) { Some(l.remove(0)) } else { l.pop() }; let e = l.is_empty(); put(&mut s, &k, Coll::List(l), e); (Want::Exact(r.map(|v| format!("\"{}\"", v)).unwrap_or_else(|| "nil".into())), s, true) }
        Command::LTrim(_, a, b) => { if wrong(|c| matches!(c, Coll::List(_))) { return (Want::Exact("error".into()), s, true); } let l = match cur { Some(Coll::List(l)) => l, _ => Vec::new() }; let len = l.len(); let (a, b) = (norm(*a, len).max(0), norm(*b, len).min(len as isize - 1)); let kept: Vec<String> = if len == 0 || a > b || a >= len as isize { Vec::new() } else { l[a as usize..=b as usize].to_vec() }; let e = kept.is_empty(); put(&mut s, &k, Coll::List(kept), e); (Want::Exact("+OK".into()), s, true) }
        _ => (Want::Any, s, false),
    }
}

fn show_state(s: &State) -> String { s.iter().map(|(k, (c, ttl))| format!("{}={}{}", k, match c { Coll::Str(v) => format!("{:?}", v), Coll::List(l) => format!("list{:?}", l), Coll::Set(x) => format!("set{:?}", x), Coll::Hash(h) => format!("hash{:?}", h), Coll::ZSet(z) => format!("zset{:?}", z.iter().map(|(m, b)| (m.clone(), f64::from_bits(*b))).collect::<Vec<_>>()) }, if *ttl { " (TTL)" } else { "" })).collect::<Vec<_>>().join(", ") }

/// one command on the executor: all invariants + the model; `hist` describes how the keyspace was built
fn step(ex: &mut CommandExecutor, c: &Command, hist: &str) -> Option<Found> {
    let before = match real_state(ex) { Ok(s) => s, Err(e) => return Some(Found { input: hist.to_string(), observed: e, required: "a consistent keyspace".into() }) };
    let k = key_of(c);
    let reply = match exec(ex, c) { Ok(r) => r, Err(p) => return Some(Found { input: format!("{}; keyspace {{{}}}; {}", hist, show_state(&before), cmd_text(c)), observed: format!("panic: {}", p), required: "a reply".into() }) };
    let ctx = format!("{}; keyspace {{{}}}; command {}", hist, show_state(&before), cmd_text(c));
    let rs = show(&reply);
    let after = match real_state(ex) { Ok(s) => s, Err(e) => return Some(Found { input: ctx, observed: format!("reply {}; then {}", rs, e), required: "an emptied collection stops existing; EXISTS / TYPE / DBSIZE / KEYS agree".into() }) };
    let is_err = matches!(reply, RespValue::Error(_));
    if is_err && before != after { return Some(Found { input: ctx, observed: format!("reply {} but the keyspace is now {{{}}}", rs, show_state(&after)), required: "an error reply changes nothing".into() }); }
    for (ok, ov) in &before { if *ok != k && after.get(ok) != Some(ov) { return Some(Found { input: ctx, observed: format!("reply {}; key {} changed: now {{{}}}", rs, ok, show_state(&after)), required: "only the named key changes".into() }); } }
    if let Some(extra) = after.keys().find(|x| **x != k && !before.contains_key(*x)) { return Some(Found { input: ctx, observed: format!("key {} appeared", extra), required: "only the named key changes".into() }); }
    if !after.contains_key(&k) { if let Some(e) = absent_checks(ex, &k) { return Some(Found { input: ctx, observed: format!("reply {}; the key is not listed by KEYS * but {}", rs, e), required: "an emptied / never created collection does not exist: EXISTS 0, TYPE none".into() }); } }
    let (want, mut wstate, exact) = model(&before, c);
    match &want {
        Want::Exact(w) if w == "error" => if !is_err { return Some(Found { input: ctx, observed: format!("reply {}", rs), required: "a WRONGTYPE error (and an unchanged keyspace)".into() }); },
        Want::Exact(w) => if &rs != w { return Some(Found { input: ctx, observed: format!("reply {}; keyspace now {{{}}}", rs, show_state(&after)), required: format!("reply {} and keyspace {{{}}}", w, show_state(&wstate)) }); },
        Want::ErrorOr(w) => if !is_err && &rs != w { return Some(Found { input: ctx, observed: format!("reply {}", rs), required: format!("an error (Redis rejects this flag combination) or reply {}", w) }); },
        Want::Any => {}
    }
    if let Command::SPop(_, count) = c {
        // the popped members are members, each once; the rest stays; nil / empty array on an absent key
        if !is_err {
            let popped: Vec<String> = match (&reply, count) { (RespValue::BulkString(Some(b)), None) => vec![String::from_utf8_lossy(b).to_string()], (RespValue::BulkString(None), None) => vec![], (RespValue::Array(Some(_)), Some(_)) => arr(reply.clone()), _ => return Some(Found { input: ctx, observed: format!("reply {}", rs), required: "a member / nil, or an array for SPOP with a count".into() }) };
            let mut set = match before.get(&k) { Some((Coll::Set(s), _)) => s.clone(), _ => BTreeSet::new() };
            let want_n = match count { None => set.len().min(1), Some(n) => set.len().min(*n) };
            let distinct: BTreeSet<&String> = popped.iter().collect();
            if popped.len() != want_n || distinct.len() != popped.len() || popped.iter().any(|m| !set.contains(m)) { return Some(Found { input: ctx, observed: format!("reply {}", rs), required: format!("{} distinct member(s) of the set", want_n) }); }
            for m in &popped { set.remove(m); }
            if set.is_empty() { wstate.remove(&k); } else { let ttl = wstate.get(&k).map(|x| x.1).unwrap_or(false); wstate.insert(k.clone(), (Coll::Set(set), ttl)); }
            if after != wstate { return Some(Found { input: ctx, observed: format!("reply {}; keyspace now {{{}}}", rs, show_state(&after)), required: format!("keyspace {{{}}}", show_state(&wstate)) }); }
        }
    } else if exact && !is_err && after != wstate {
        return Some(Found { input: ctx, observed: format!("reply {}; keyspace now {{{}}}", rs, show_state(&after)), required: format!("keyspace {{{}}} (an emptied collection stops existing; a key created now has no TTL)", show_state(&wstate)) });
    } else if !exact && !is_err {
        // open cases (flag combinations Redis rejects): still never an empty collection, and a reply of 0 on an absent key leaves it absent
        if !before.contains_key(&k) && rs == ":0" && after.contains_key(&k) { return Some(Found { input: ctx, observed: format!("reply :0 but {} exists now: {{{}}}", k, show_state(&after)), required: "a command that adds nothing to an absent key leaves it absent".into() }); }
    }
    None
}

fn zadd(k: &str, pairs: &[(f64, &str)], f: u32) -> Command { Command::ZAdd { key: k.into(), pairs: pairs.iter().map(|(s, m)| (*s, sds(m))).collect(), nx: f & 1 != 0, xx: f & 2 != 0, gt: f & 4 != 0, lt: f & 8 != 0, ch: f & 16 != 0 } }

fn base(ex: &mut CommandExecutor, with_ttl: bool) {
    ex.set_time(VirtualTime::from_millis(100));
    ex.execute(&Command::set("s".into(), sds("str")));
    ex.execute(&Command::RPush("l".into(), vec![sds("a"), sds("b"), sds("c")]));
    ex.execute(&Command::SAdd("st".into(), vec![sds("1"), sds("2"), sds("3")]));
    ex.execute(&Command::HSet("h".into(), vec![(sds("f"), sds("v")), (sds("g"), sds("w"))]));
    ex.execute(&zadd("z", &[(5.0, "a"), (7.5, "b")], 0));
    ex.execute(&zadd("z1", &[(1.0, "only")], 0));
    if with_ttl { for k in ["l", "st", "h", "z", "z1"] { ex.execute(&crate::executor::pexpire(k, 50_000)); } }
}

fn structured() -> Vec<(String, Vec<Command>)> {
    let mut v: Vec<(String, Vec<Command>)> = Vec::new();
    let pairsets: Vec<Vec<(f64, &str)>> = vec![vec![(1.0, "new")], vec![(9.0, "a")], vec![(2.0, "a")], vec![(5.0, "a")], vec![(3.0, "a"), (8.0, "b"), (4.0, "c")], vec![(1.0, "only")], vec![(2.0, "only"), (0.5, "only")]];
    for f in 0..32u32 { for k in ["absent", "z", "z1", "s", "l", "st"] { for p in &pairsets { v.push((format!("ZADD flag set {:05b} (bits CH LT GT XX NX)", f), vec![zadd(k, p, f)])); } } }
    // ZADD that adds nothing followed by one that does, and the other way round
    for f in [2u32, 2 | 4, 2 | 8, 2 | 16, 1 | 2, 4 | 8, 1 | 4] { v.push(("ZADD adding nothing, then a plain ZADD, then draining".into(), vec![zadd("absent", &[(1.0, "m")], f), zadd("absent", &[(1.0, "m")], 0), zadd("absent", &[(2.0, "m")], f), Command::ZRem("absent".into(), vec![sds("m")]), zadd("absent", &[(1.0, "m")], f)])); }
    // drains
    v.push(("SREM draining a set".into(), vec![Command::SRem("st".into(), vec![sds("1"), sds("zz")]), Command::SRem("st".into(), vec![sds("2"), sds("3"), sds("3")]), Command::SRem("st".into(), vec![sds("1")]), Command::SAdd("st".into(), vec![sds("again")])]));
    v.push(("SPOP draining a set".into(), vec![Command::SPop("st".into(), None), Command::SPop("st".into(), Some(0)), Command::SPop("st".into(), Some(5)), Command::SPop("st".into(), None), Command::SPop("st".into(), Some(2)), Command::SAdd("st".into(), vec![sds("x")]), Command::SPop("st".into(), Some(1))]));
    v.push(("ZREM draining sorted sets".into(), vec![Command::ZRem("z1".into(), vec![sds("nope")]), Command::ZRem("z1".into(), vec![sds("only")]), Command::ZRem("z1".into(), vec![sds("only")]), Command::ZRem("z".into(), vec![sds("a"), sds("b"), sds("a")]), zadd("z", &[(1.0, "x")], 2), zadd("z", &[(1.0, "x")], 0)]));
    v.push(("HDEL draining a hash".into(), vec![Command::HDel("h".into(), vec![sds("f"), sds("nope")]), Command::HDel("h".into(), vec![sds("g")]), Command::HDel("h".into(), vec![sds("g")]), Command::HSet("h".into(), vec![(sds("n"), sds("1"))])]));
    v.push(("LPOP / RPOP draining a list".into(), vec![Command::LPop("l".into()), Command::RPop("l".into()), Command::RPop("l".into()), Command::RPop("l".into()), Command::LPop("l".into()), Command::LPush("l".into(), vec![sds("x"), sds("y")]), Command::LPop("l".into())]));
    for (a, b) in [(1isize, 0isize), (5, 10), (-1, -2), (3, 3), (0, -4), (1, 1), (0, -1), (-100, 100), (isize::MIN, isize::MAX), (2, 1)] { v.push((format!("LTRIM {} {}", a, b), vec![Command::LTrim("l".into(), a, b), Command::RPush("l".into(), vec![sds("z")])])); }
    // removers and no-op adders on absent and wrong-type keys
    for k in ["absent", "s", "l", "st", "h", "z"] {
        v.push((format!("removers on key {}", k), vec![Command::SRem(k.into(), vec![sds("1")]), Command::SPop(k.into(), None), Command::SPop(k.into(), Some(3)), Command::ZRem(k.into(), vec![sds("a")]), Command::HDel(k.into(), vec![sds("f")]), Command::LPop(k.into()), Command::RPop(k.into()), Command::LTrim(k.into(), 0, 0)]));
        v.push((format!("adders on key {}", k), vec![Command::SAdd(k.into(), vec![sds("1")]), Command::HSet(k.into(), vec![(sds("f"), sds("v"))]), Command::LPush(k.into(), vec![sds("e")]), Command::RPush(k.into(), vec![sds("e")]), zadd(k, &[(1.0, "a")], 0)]));
    }
    v
}

pub fn search(_pid: &str, _oid: &str, seed: u64) -> Option<Found> {
    for (name, cmds) in structured() {
        for with_ttl in [false, true] {
            let mut ex = CommandExecutor::new();
            base(&mut ex, with_ttl);
            let mut hist = format!("{}{}", name, if with_ttl { ", every collection has a TTL" } else { "" });
            for c in &cmds { if let Some(f) = step(&mut ex, c, &hist) { return Some(f); } hist = format!("{}; {}", hist, cmd_text(c)); }
        }
    }
    // expired-but-unpurged collections behave as absent keys
    for f in 0..32u32 {
        for c in [zadd("z", &[(1.0, "m")], f), Command::SAdd("st".into(), vec![sds("9")]), Command::SRem("st".into(), vec![sds("1")]), Command::ZRem("z".into(), vec![sds("a")]), Command::HDel("h".into(), vec![sds("f")]), Command::LPop("l".into()), Command::LTrim("l".into(), 0, 0), Command::SPop("st".into(), Some(2))] {
            let mut ex = CommandExecutor::new();
            base(&mut ex, true);
            advance(&mut ex, Clock::Lazy, 50_100);
            if let Some(fnd) = step(&mut ex, &c, "collections l, st, h, z, z1 passed their deadline but are not purged (update_time_readonly)") { return Some(fnd); }
            if f > 0 && !matches!(c, Command::ZAdd { .. }) { break; }
        }
    }
    // seeded random sequences
    let mut rng = Rng::new(seed + 117);
    for _ in 0..300u64 {
        let mut ex = CommandExecutor::new();
        base(&mut ex, rng.chance(1, 2));
        let mut hist = String::from("random sequence");
        for _ in 0..40 {
            let k = *rng.pick(&["l", "st", "h", "z", "z1", "absent", "s", "n1"]);
            let m = *rng.pick(&["a", "b", "c", "1", "2", "only", "x"]);
            let c = match rng.below(13) {
                0 | 1 | 2 => zadd(k, &[(rng.below(5) as f64, m), (rng.below(5) as f64 + 0.5, *rng.pick(&["a", "b", "q"]))][..1 + rng.below(2) as usize], rng.below(32) as u32),
                3 => Command::ZRem(k.into(), vec![sds(m), sds("b")]), 4 => Command::SAdd(k.into(), vec![sds(m)]), 5 => Command::SRem(k.into(), vec![sds(m), sds("1"), sds("2")]),
                6 => Command::SPop(k.into(), if rng.chance(1, 2) { None } else { Some(rng.below(4) as usize) }), 7 => Command::HSet(k.into(), vec![(sds(m), sds("v"))]), 8 => Command::HDel(k.into(), vec![sds(m), sds("f"), sds("g")]),
                9 => Command::LPop(k.into()), 10 => Command::RPop(k.into()), 11 => Command::LTrim(k.into(), rng.below(4) as isize - 1, rng.below(4) as isize - 2), _ => Command::RPush(k.into(), vec![sds(m)]),
            };
            if let Some(f) = step(&mut ex, &c, &hist) { return Some(f); }
            hist = format!("{}; {}", hist, cmd_text(&c));
            if hist.len() > 1500 { hist = format!("random sequence ..{}", &hist[hist.len() - 900..]); }
        }
    }
    None
}
